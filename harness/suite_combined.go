package harness

// Correspondence suite `combined`: the core chain (market / house / bet / orderbook, real end-blockers) TOGETHER with
// x/subaccount on the same markets. Every op drives the real message servers of /repo; the order-book end-blocker calls
// the real subaccount hooks (app wiring, nothing injected). The Lean side is lean/Sge/Combined.lean behind
// lean/Driver/Combined.lean; the observation after every op is the complete core state (same lines as the core suite;
// deposits and withdrawals re-sorted numerically because subaccount addresses are hashes) plus the complete
// x/subaccount store. Monitors: the C01 custody equations at every block end and the C11 ledger equation for every
// subaccount after every op.

import (
	"encoding/binary"
	"fmt"
	"math/big"
	"sort"
	"strconv"
	"strings"
	"time"

	sdkmath "cosmossdk.io/math"
	"github.com/cosmos/cosmos-sdk/store/prefix"
	sdk "github.com/cosmos/cosmos-sdk/types"

	"github.com/sge-network/sge/app/params"
	"github.com/sge-network/sge/x/bet"
	betkeeper "github.com/sge-network/sge/x/bet/keeper"
	bettypes "github.com/sge-network/sge/x/bet/types"
	housekeeper "github.com/sge-network/sge/x/house/keeper"
	housetypes "github.com/sge-network/sge/x/house/types"
	marketkeeper "github.com/sge-network/sge/x/market/keeper"
	markettypes "github.com/sge-network/sge/x/market/types"
	"github.com/sge-network/sge/x/orderbook"
	subkeeper "github.com/sge-network/sge/x/subaccount/keeper"
	subtypes "github.com/sge-network/sge/x/subaccount/types"
)

func init() { suites["combined"] = runCombined }

const cmbSubBase = 2000000 // lean/Sge/Combined.lean SUB_BASE

type cmbWorld struct {
	e        *Env
	ix       *coreIx
	out      *Out
	h        int
	released map[int]sdkmath.Int // ghost: total paid out by successful WithdrawUnlockedBalances, by subaccount address id
	dirty    map[int]bool        // somebody sent tokens directly to this subaccount address
	markets  []*coreMarket
}

// sortKeyed re-sorts every maximal run of lines with the given prefix by the first `n` numeric fields
func sortKeyed(lines []string, pfx string, n int) {
	key := func(s string) []int64 {
		f := strings.Fields(s)
		k := make([]int64, n)
		for i := 0; i < n && i+1 < len(f); i++ {
			k[i], _ = strconv.ParseInt(f[i+1], 10, 64)
		}
		return k
	}
	i := 0
	for i < len(lines) {
		if !strings.HasPrefix(lines[i], pfx) {
			i++
			continue
		}
		j := i
		for j < len(lines) && strings.HasPrefix(lines[j], pfx) {
			j++
		}
		seg := lines[i:j]
		sort.SliceStable(seg, func(a, b int) bool {
			ka, kb := key(seg[a]), key(seg[b])
			for x := 0; x < n; x++ {
				if ka[x] != kb[x] {
					return ka[x] < kb[x]
				}
			}
			return false
		})
		i = j
	}
}

type cmbSub struct {
	addr    int
	owner   int // -1: no reverse-map entry
	sum     subtypes.AccountSummary
	hasSum  bool
	locks   []subtypes.LockedBalance
	bank    sdkmath.Int
	accAddr sdk.AccAddress
}

type cmbObs struct {
	nextID uint64
	params subtypes.Params
	subs   []*cmbSub
	own    [][2]int // owner -> addr
	rev    [][2]int // addr -> owner
}

func (w *cmbWorld) observeSub() *cmbObs {
	e := w.e
	ctx := e.Ctx
	k := e.App.SubaccountKeeper
	o := &cmbObs{nextID: k.Peek(ctx), params: k.GetParams(ctx)}
	store := ctx.KVStore(e.App.GetKey(subtypes.StoreKey))
	byAddr := map[int]*cmbSub{}
	get := func(a sdk.AccAddress) *cmbSub {
		id := w.ix.A(a.String())
		s, ok := byAddr[id]
		if !ok {
			s = &cmbSub{addr: id, owner: -1, accAddr: a, bank: e.Bal(a)}
			byAddr[id] = s
		}
		return s
	}
	it := prefix.NewStore(store, subtypes.SubaccountOwnerPrefix).Iterator(nil, nil)
	for ; it.Valid(); it.Next() {
		o.own = append(o.own, [2]int{w.ix.A(sdk.AccAddress(it.Key()).String()), w.ix.A(sdk.AccAddress(it.Value()).String())})
	}
	it.Close()
	it = prefix.NewStore(store, subtypes.SubaccountOwnerReversePrefix).Iterator(nil, nil)
	for ; it.Valid(); it.Next() {
		a, ow := sdk.AccAddress(append([]byte{}, it.Key()...)), w.ix.A(sdk.AccAddress(it.Value()).String())
		o.rev = append(o.rev, [2]int{w.ix.A(a.String()), ow})
		get(a).owner = ow
	}
	it.Close()
	it = prefix.NewStore(store, subtypes.AccountSummaryPrefix).Iterator(nil, nil)
	for ; it.Valid(); it.Next() {
		s := get(sdk.AccAddress(append([]byte{}, it.Key()...)))
		e.App.AppCodec().MustUnmarshal(it.Value(), &s.sum)
		s.hasSum = true
	}
	it.Close()
	it = prefix.NewStore(store, subtypes.LockedBalancePrefix).Iterator(nil, nil)
	for ; it.Valid(); it.Next() {
		key := it.Key()
		n := int(key[0])
		s := get(sdk.AccAddress(append([]byte{}, key[1:1+n]...)))
		amt := new(sdkmath.Int)
		must(amt.Unmarshal(it.Value()))
		s.locks = append(s.locks, subtypes.LockedBalance{UnlockTS: binary.BigEndian.Uint64(key[1+n:]), Amount: *amt})
	}
	it.Close()
	for _, s := range byAddr {
		sort.Slice(s.locks, func(i, j int) bool { return s.locks[i].UnlockTS < s.locks[j].UnlockTS })
		o.subs = append(o.subs, s)
	}
	sort.Slice(o.subs, func(i, j int) bool { return o.subs[i].addr < o.subs[j].addr })
	sort.Slice(o.own, func(i, j int) bool { return o.own[i][0] < o.own[j][0] })
	sort.Slice(o.rev, func(i, j int) bool { return o.rev[i][0] < o.rev[j][0] })
	return o
}

func (w *cmbWorld) rel(a int) sdkmath.Int {
	if v, ok := w.released[a]; ok {
		return v
	}
	return sdkmath.ZeroInt()
}

func (w *cmbWorld) subLines(o *cmbObs) []string {
	ls := []string{fmt.Sprintf("SN %d %d %d", o.nextID, b2i(o.params.WagerEnabled), b2i(o.params.DepositEnabled))}
	for _, s := range o.subs {
		if !s.hasSum {
			ls = append(ls, fmt.Sprintf("SA %d no-summary", s.addr))
			continue
		}
		owner := "-"
		if s.owner >= 0 {
			owner = fmt.Sprint(s.owner)
		}
		l := fmt.Sprintf("SA %d %s %s %s %s %s %s %s %d", s.addr, owner, intStr(s.sum.DepositedAmount), intStr(s.sum.SpentAmount),
			intStr(s.sum.WithdrawnAmount), intStr(s.sum.LostAmount), s.bank, w.rel(s.addr), len(s.locks))
		for _, lk := range s.locks {
			l += fmt.Sprintf(" %d:%s", lk.UnlockTS, intStr(lk.Amount))
		}
		ls = append(ls, l)
	}
	for _, x := range o.own {
		ls = append(ls, fmt.Sprintf("SO %d %d", x[0], x[1]))
	}
	for _, x := range o.rev {
		ls = append(ls, fmt.Sprintf("SR %d %d", x[0], x[1]))
	}
	return append(ls, "==")
}

// observe writes the complete canonical state and runs the monitors
func (w *cmbWorld) observe(atBlockEnd bool, op string) {
	d := dumpCore(w.e, w.ix)
	sortKeyed(d.lines, "D ", 3)
	sortKeyed(d.lines, "WD ", 4)
	for _, l := range d.lines {
		w.out.Impl("%s", l)
	}
	o := w.observeSub()
	for _, l := range w.subLines(o) {
		w.out.Impl("%s", l)
	}
	w.monitors(d, o, atBlockEnd, op)
}

func (w *cmbWorld) monitors(d *coreDump, o *cmbObs, atBlockEnd bool, op string) {
	out, h := w.out, w.h
	coreReset(h)
	zero := sdkmath.ZeroInt()
	// ---- C01: the three custody equations (copied from coreMonitors), evaluated at block ends as the property says
	if atBlockEnd {
		owedPool, owedBetFee, owedHouseFee := zero, zero, zero
		for _, p := range d.parts {
			if !p.IsSettled {
				owedPool = owedPool.Add(p.Liquidity).Add(p.ActualProfit)
				owedHouseFee = owedHouseFee.Add(p.Fee)
			}
		}
		for _, b := range d.bets {
			if b.Status != bettypes.Bet_STATUS_SETTLED {
				for _, f := range b.BetFulfillment {
					owedPool = owedPool.Add(f.BetAmount)
				}
				owedBetFee = owedBetFee.Add(b.Fee)
			}
		}
		if !d.pool.Equal(owedPool) {
			failOnce(out, h, "C01", "pool_eq", c01Class(d), "cmb", fmt.Sprintf("pool balance %s, owed %s (history with subaccounts)", d.pool, owedPool))
		}
		if !d.betFee.Equal(owedBetFee) {
			failOnce(out, h, "C01", "betfee_eq", "block-end", "cmb", fmt.Sprintf("bet fee collector %s, owed %s (history with subaccounts)", d.betFee, owedBetFee))
		}
		if !d.hFee.Equal(owedHouseFee) {
			failOnce(out, h, "C01", "housefee_eq", "block-end", "cmb", fmt.Sprintf("house fee collector %s, owed %s (history with subaccounts)", d.hFee, owedHouseFee))
		}
		out.Count("mon.C01.checked")
	}
	// ---- C11: ledger of every subaccount
	ownOf := map[int]int{}
	for _, x := range o.own {
		ownOf[x[0]] = x[1]
	}
	for _, s := range o.subs {
		if !s.hasSum {
			failOnce(out, h, "C11", "one_sub_per_owner", "no-summary:"+op, fmt.Sprint(s.addr), fmt.Sprintf("subaccount %d has map or lock entries but no summary", s.addr))
			continue
		}
		for name, v := range map[string]sdkmath.Int{"deposited": s.sum.DepositedAmount, "spent": s.sum.SpentAmount, "withdrawn": s.sum.WithdrawnAmount, "lost": s.sum.LostAmount} {
			if v.IsNegative() {
				failOnce(out, h, "C11", "summary_nonneg", name+":"+op, fmt.Sprint(s.addr), fmt.Sprintf("subaccount %d %s = %s", s.addr, name, v))
			}
		}
		av := s.sum.DepositedAmount.Sub(s.sum.WithdrawnAmount).Sub(s.sum.SpentAmount).Sub(s.sum.LostAmount)
		if s.bank.LT(av) {
			failOnce(out, h, "C11", "bank_ge_available", "real-markets:"+op, fmt.Sprint(s.addr), fmt.Sprintf("subaccount %d holds %s < available %s (%s)", s.addr, s.bank, av, s.sum.String()))
		} else if !w.dirty[s.addr] && !s.bank.Equal(av) {
			failOnce(out, h, "C11", "bank_eq_available", "real-markets:"+op, fmt.Sprint(s.addr), fmt.Sprintf("nobody sent tokens to subaccount %d directly; it holds %s, available %s (%s)", s.addr, s.bank, av, s.sum.String()))
		}
		unlocked := zero
		for _, l := range s.locks {
			if l.UnlockTS < uint64(w.e.Time) {
				unlocked = unlocked.Add(l.Amount)
			}
		}
		if w.rel(s.addr).GT(unlocked) {
			failOnce(out, h, "C11", "lock_bound", "real-markets:"+op, fmt.Sprint(s.addr), fmt.Sprintf("subaccount %d released %s, only %s has reached its unlock time (now %d)", s.addr, w.rel(s.addr), unlocked, w.e.Time))
		}
		if s.owner < 0 || ownOf[s.owner] != s.addr {
			failOnce(out, h, "C11", "one_sub_per_owner", "maps-not-inverse:"+op, fmt.Sprint(s.addr), fmt.Sprintf("subaccount %d -> owner %d but owner -> %d", s.addr, s.owner, ownOf[s.owner]))
		}
	}
	if len(o.own) != len(o.rev) {
		failOnce(out, h, "C11", "one_sub_per_owner", "maps-not-inverse:"+op, "len", fmt.Sprintf("%d owner entries, %d reverse entries", len(o.own), len(o.rev)))
	}
	out.Count("mon.C11.checked")
}

func (w *cmbWorld) finish(err error, panicked bool, op string) {
	if err != nil {
		w.out.Impl("r err")
		w.out.Count("res.err")
		w.out.Count("res.err." + op)
		es := err.Error()
		if i := strings.LastIndex(es, ": "); i >= 0 && len(es)-i < 70 {
			es = es[i+2:]
		}
		w.out.Count("err." + op + "." + trunc(es, 60))
		if panicked {
			w.out.Count("res.err.panic." + op)
		}
	} else {
		w.out.Impl("r ok")
		w.out.Count("res.ok")
		w.out.Count("res.ok." + op)
	}
	w.observe(false, op)
}

func runCombined(seed uint64, n int, out *Out) {
	maxOps := int(envInt("VERIF_CMB_OPS", 70))
	for h := 0; h < n; h++ {
		if skipHist(h) {
			continue
		}
		r := NewRng(seed*1_000_003 + uint64(h))
		e := NewEnv(1_000_000, 4)
		ix := newCoreIx(e)
		for id := uint64(1); id <= 64; id++ {
			ix.addr[subtypes.NewAddressFromSubaccount(id).String()] = cmbSubBase + int(id)
		}
		w := &cmbWorld{e: e, ix: ix, out: out, h: h, released: map[int]sdkmath.Int{}, dirty: map[int]bool{}}
		ms := marketkeeper.NewMsgServerImpl(*e.App.MarketKeeper)
		hs := housekeeper.NewMsgServerImpl(*e.App.HouseKeeper)
		bs := betkeeper.NewMsgServerImpl(*e.App.BetKeeper)
		ss := subkeeper.NewMsgServerImpl(*e.App.SubaccountKeeper)
		sk := e.App.SubaccountKeeper
		out.Op("N %d", h)
		out.Impl("n %d", h)
		coreReset(h)

		// parameters accepted by the validators
		bp := e.App.BetKeeper.GetParams(e.Ctx)
		bp.BatchSettlementCount = uint32(r.Pick([]int64{1, 2, 3, 1000, 1000}))
		bp.Constraints.MinAmount = sdkmath.NewInt(r.Pick([]int64{2, 5, 10, 50}))
		bp.Constraints.Fee = sdkmath.NewInt(r.Pick([]int64{0, 1, 1, 2}))
		if bp.Constraints.Fee.GTE(bp.Constraints.MinAmount) {
			bp.Constraints.Fee = bp.Constraints.MinAmount.SubRaw(1)
		}
		e.App.BetKeeper.SetParams(e.Ctx, bp)
		hp := e.App.HouseKeeper.GetParams(e.Ctx)
		hp.MinDeposit = sdkmath.NewInt(r.Pick([]int64{2, 10, 100}))
		hp.HouseParticipationFee = sdkmath.LegacyMustNewDecFromStr([]string{"0", "0.1", "0.01", "0.05", "0.333333333333333333"}[r.Intn(5)])
		hp.MaxWithdrawalCount = uint64(r.Range(1, 3))
		e.App.HouseKeeper.SetParams(e.Ctx, hp)
		op := e.App.OrderbookKeeper.GetParams(e.Ctx)
		op.MaxOrderBookParticipations = uint64(r.Pick([]int64{3, 8, 100, 100, 100, 100}))
		op.BatchSettlementCount = uint64(r.Pick([]int64{1, 2, 3, 100, 100}))
		op.RequeueThreshold = uint64(r.Pick([]int64{0, 0, 1, 5, 29, 1000}))
		e.App.OrderbookKeeper.SetParams(e.Ctx, op)
		out.Op("PARAMS %d %s %s %s %s %d %d %d %d", bp.BatchSettlementCount, bp.Constraints.MinAmount, bp.Constraints.Fee, hp.MinDeposit,
			decRaw(hp.HouseParticipationFee), hp.MaxWithdrawalCount, op.MaxOrderBookParticipations, op.BatchSettlementCount, op.RequeueThreshold)
		for i, a := range e.Accts {
			out.Op("BAL %d %s", i, e.Bal(a))
		}
		height := int64(2)
		now := BaseTime + 100
		e.SetBlock(height, now)
		out.Op("T %d %d", height, now)
		spw, spd := !r.Chance(3), !r.Chance(3)
		sk.SetParams(e.Ctx, subtypes.Params{WagerEnabled: spw, DepositEnabled: spd})
		out.Op("SP %d %d", b2i(spw), b2i(spd))

		nextBet := 1
		creatorOf := 0
		tkFields := func(valid bool, ign, appr bool, id int) string {
			return fmt.Sprintf("%d %d %d %d", b2i(valid), b2i(ign), b2i(appr), id)
		}
		addrOfIdx := func(i int) sdk.AccAddress {
			if i >= cmbSubBase {
				return subtypes.NewAddressFromSubaccount(uint64(i - cmbSubBase))
			}
			return e.Accts[i]
		}
		// kyc generator: mostly valid for `who`
		genKyc := func(who int) (map[string]interface{}, bool, bool, int) {
			switch r.Intn(30) {
			case 0:
				return map[string]interface{}{"ignore": false, "approved": false, "id": addrOfIdx(who).String()}, false, false, who
			case 1:
				o := (who + 1) % NAcct
				if who >= cmbSubBase {
					o = 1
				}
				return map[string]interface{}{"ignore": false, "approved": true, "id": e.Accts[o].String()}, false, true, o
			case 2, 3, 4, 5, 6, 7:
				return map[string]interface{}{"ignore": true, "approved": false, "id": ""}, true, false, 999999
			default:
				return map[string]interface{}{"ignore": false, "approved": true, "id": addrOfIdx(who).String()}, false, true, who
			}
		}
		// multipliers: mostly valid (genMult of the core suite draws an invalid one in ~1.5 % of the calls)
		simpleMult := func() (string, string) {
			if r.Chance(25) {
				return genMult(r)
			}
			raw := big.NewInt(r.Pick([]int64{10, 10, 10, 5, 8, 3}) * 1e17)
			return decStr(raw), raw.String()
		}
		simpleOdds := func() (string, string) {
			if r.Chance(30) {
				return genOdds(r)
			}
			raw := new(big.Int).Mul(big.NewInt(r.Pick([]int64{11, 12, 15, 15, 20, 20, 25, 30, 50})), big.NewInt(1e17))
			return decStr(raw), raw.String()
		}
		signKey := func() (int, bool) {
			if r.Chance(2) {
				return 1 + r.Intn(3), false // registered but not the leader
			}
			return 0, true
		}
		pickMarket := func() *coreMarket {
			for try := 0; try < 4; try++ {
				m := w.markets[r.Intn(len(w.markets))]
				if !m.resolved || r.Chance(8) {
					return m
				}
			}
			return w.markets[r.Intn(len(w.markets))]
		}
		pickLiquid := func() *coreMarket {
			for try := 0; try < 4; try++ {
				m := pickMarket()
				if ps, _ := e.App.OrderbookKeeper.GetParticipationsOfOrderBook(e.Ctx, m.uid); len(ps) > 0 {
					return m
				}
			}
			return pickMarket()
		}
		owners := []int{1, 2, 3, 4, 5} // accounts that get (and use) subaccounts
		subOf := func(owner int) (sdk.AccAddress, bool) {
			return sk.GetSubaccountByOwner(e.Ctx, e.Accts[owner])
		}
		pickOwner := func() int {
			// prefer owners that have a subaccount
			for try := 0; try < 3; try++ {
				o := owners[r.Intn(len(owners))]
				if _, ok := subOf(o); ok {
					return o
				}
			}
			return owners[r.Intn(len(owners))]
		}
		genLocks := func() ([]subtypes.LockedBalance, string) {
			nl := int(r.Pick([]int64{0, 1, 1, 1, 2, 2, 3}))
			var ls []subtypes.LockedBalance
			var ops []string
			for i := 0; i < nl; i++ {
				ts := uint64(now + r.Pick([]int64{0, 1, 5, 30, 60, 200, 400, 1000}))
				if r.Chance(3) {
					ts = uint64(now - r.Range(1, 50)) // already unlocked: refused
				}
				if r.Chance(2) {
					ts = 0
				}
				if r.Chance(5) {
					// far future / "never": unlock times at and beyond the int64 boundary
					ts = []uint64{1 << 63, 1<<63 + 7, 1<<63 - 1, ^uint64(0), ^uint64(0) - 1}[r.Intn(5)]
				}
				if i > 0 && r.Chance(6) {
					ts = ls[0].UnlockTS // duplicate unlock time in one message
				}
				amt := r.Pick([]int64{0, 100, 500, 1000, 2500, 5000, 20000})
				if r.Chance(30) {
					amt = r.Range(1, 8000)
				}
				if r.Chance(2) {
					amt = -5
				}
				ls = append(ls, subtypes.LockedBalance{UnlockTS: ts, Amount: sdkmath.NewInt(amt)})
				ops = append(ops, fmt.Sprintf("%d %d", ts, amt))
			}
			return ls, fmt.Sprintf("%d %s", nl, strings.Join(ops, " "))
		}
		// wager ticket + op-line tail shared by direct and subaccount wagers
		type wagerGen struct {
			tk     string
			tail   string
			bn     int
			amount int64
			valid  bool
			ign    bool
			appr   bool
			kid    int
		}
		genWager := func(m *coreMarket, bettor int) wagerGen {
			bn := nextBet
			if r.Chance(4) && nextBet > 1 {
				bn = 1 + r.Intn(nextBet-1) // replayed uid
			}
			sel := m.odds[r.Intn(len(m.odds))]
			if r.Chance(2) {
				sel = UID(clsOdds, 998)
			}
			ovS, ovRaw := simpleOdds()
			mS, mRaw := simpleMult()
			amount := r.Pick([]int64{2, 5, 10, 22, 50, 100, 200, 492})
			if r.Chance(35) {
				amount = r.Range(2, 700)
			}
			if r.Chance(5) {
				amount = r.Range(700, 3000)
			}
			if mn := bp.Constraints.MinAmount.Int64(); amount < mn && r.Chance(90) {
				amount = mn + r.Range(0, 20)
			}
			if r.Chance(3) {
				amount = r.Range(0, 2)
			}
			var all []map[string]interface{}
			var allOp []string
			for _, o := range m.odds {
				if r.Chance(1) {
					continue
				}
				ms2, mr2 := simpleMult()
				all = append(all, map[string]interface{}{"uid": o, "max_loss_multiplier": ms2})
				allOp = append(allOp, fmt.Sprintf("%d %s", uidN(o), mr2))
			}
			typ := 1
			if r.Chance(2) {
				typ = 7
			}
			kyc, ign, appr, kid := genKyc(bettor)
			key, valid := signKey()
			tk := e.Ticket(key, map[string]interface{}{
				"selected_odds": map[string]interface{}{"uid": sel, "market_uid": m.uid, "value": ovS, "max_loss_multiplier": mS},
				"kyc_data":      kyc, "all_odds": all, "meta": map[string]interface{}{"selected_odds_type": typ, "selected_odds_value": ovS, "is_main_market": false},
			})
			tail := fmt.Sprintf("%d %d %d %d %s %s %d %d %s", bn, amount, m.n, uidN(sel), ovRaw, mRaw, b2i(typ <= 3), len(allOp), strings.Join(allOp, " "))
			return wagerGen{tk: tk, tail: tail, bn: bn, amount: amount, valid: valid, ign: ign, appr: appr, kid: kid}
		}

		halted := false
		doResolve := func(m *coreMarket, status int) {
			var winners []string
			if status == 5 || r.Chance(5) {
				winners = []string{m.odds[r.Intn(len(m.odds))]}
				if r.Chance(4) {
					winners = []string{UID(clsOdds, 999)}
				}
			}
			if winners == nil {
				winners = []string{}
			}
			ts := uint64(now - 60 + r.Range(0, 100))
			key, valid := signKey()
			tk := e.Ticket(key, map[string]interface{}{"uid": m.uid, "resolution_ts": ts, "winner_odds_uids": winners, "status": status})
			var wn []string
			for _, u := range winners {
				wn = append(wn, strconv.FormatUint(uidN(u), 10))
			}
			out.Op("MR %d %d %d %d %d %s", b2i(valid), m.n, ts, status, len(wn), strings.Join(wn, " "))
			err, pan := e.Tx(func(ctx sdk.Context) error {
				msg := &markettypes.MsgResolve{Creator: e.Accts[creatorOf].String(), Ticket: tk}
				if err := msg.ValidateBasic(); err != nil {
					return err
				}
				_, err := ms.Resolve(sdk.WrapSDKContext(ctx), msg)
				return err
			})
			if err == nil {
				m.resolved = true
				out.Count(fmt.Sprintf("resolve.status.%d", status))
			}
			w.finish(err, pan, "marketResolve")
		}
		doEndBlock := func() {
			out.Op("EB")
			halt, what := e.Block(func(ctx sdk.Context) {
				bet.EndBlocker(ctx, *e.App.BetKeeper)
				orderbook.EndBlocker(ctx, *e.App.OrderbookKeeper)
			})
			out.Count("op.endBlock")
			if halt {
				out.Impl("r halt")
				halted = true
				out.Count("res.halt")
				hookPanic := strings.Contains(what, "greater than spent") || strings.Contains(what, "amount is not positive") ||
					strings.Contains(what, "data corruption") || strings.Contains(what, "insufficient funds")
				if hookPanic {
					out.Fail(MonFail{Property: "C11", Monitor: "hooks_total", Class: "endblock-halt:subaccount-hook:real-markets", History: h,
						Detail: "a subaccount hook panicked inside the end-blocker of a history driven only through the real messages: " + trunc(what, 300)})
				} else {
					out.Count("halt.core." + classifyHalt(what))
				}
			} else {
				out.Impl("r ok")
			}
			w.observe(true, "EB")
			height++
			now += r.Pick([]int64{1, 5, 30, 30, 200, 400})
			e.SetBlock(height, now)
			out.Op("T %d %d", height, now)
		}
		doWithdrawUnlocked := func(owner int) {
			sa, has := subOf(owner)
			before := sdkmath.ZeroInt()
			if has {
				before = e.Bal(sa)
			}
			out.Op("SU %d", owner)
			err, pan := e.Tx(func(ctx sdk.Context) error {
				msg := &subtypes.MsgWithdrawUnlockedBalances{Creator: e.Accts[owner].String()}
				if err := msg.ValidateBasic(); err != nil {
					return err
				}
				_, err := ss.WithdrawUnlockedBalances(sdk.WrapSDKContext(ctx), msg)
				return err
			})
			if err == nil && has {
				id := ix.A(sa.String())
				w.released[id] = w.rel(id).Add(before.Sub(e.Bal(sa)))
			}
			w.finish(err, pan, "subWithdrawUnlocked")
		}
		nOps := 25 + r.Intn(maxOps)
		// the last successful subaccount house withdrawal: repeated withdrawals from ONE participation (MaxWithdrawalCount > 1)
		var lastSX struct {
			ok    bool
			m     *coreMarket
			idx   uint64
			owner int
		}
		for opi := 0; opi < nOps && !halted; opi++ {
			c := r.Intn(100)
			if c >= 4 && c < 10 && opi*2 < nOps && r.Chance(70) {
				c = 50 // resolutions mostly in the second half
			}
			// start every history with a subaccount or two and liquidity
			if len(w.markets) > 0 {
				switch opi {
				case 1, 3:
					c = 20 // subaccount create / top-up
				case 2, 5:
					c = 55 // subaccount house deposit: first in the fulfilment queue
				case 4:
					c = 12 // a plain user's deposit behind it
				case 6, 7:
					c = 40 // subaccount wager on the same market
				}
			}
			allResolved := true
			for _, m := range w.markets {
				if !m.resolved {
					allResolved = false
				}
			}
			if allResolved && len(w.markets) < 8 && c < 82 && c >= 10 && !(c >= 17 && c < 34) {
				c = 0 // nothing left to bet on or deposit into: open a new market
			}
			switch {
			case len(w.markets) == 0 || (c < 4 && (len(w.markets) < 3 || allResolved)):
				// ---- market add
				mn := len(w.markets) + 1
				if r.Chance(5) && len(w.markets) > 0 {
					mn = 1
				}
				no := 2 + r.Intn(2)
				var oddsU []string
				var oddsJ []map[string]interface{}
				for k := 1; k <= no; k++ {
					u := UID(clsOdds, mn*10+k)
					oddsU = append(oddsU, u)
					oddsJ = append(oddsJ, map[string]interface{}{"uid": u, "meta": "o"})
				}
				start := uint64(now - 50 + r.Range(0, 100))
				end := uint64(now + r.Range(600, 5000))
				if r.Chance(6) {
					end = uint64(now + r.Range(-5, 40))
				}
				status := int(r.Pick([]int64{1, 1, 1, 1, 1, 1, 1, 1, 1, 1, 1, 1, 1, 1, 1, 1, 1, 1, 1, 2}))
				key, valid := signKey()
				tk := e.Ticket(key, map[string]interface{}{"uid": UID(clsMarket, mn), "start_ts": start, "end_ts": end, "odds": oddsJ, "status": status, "meta": "m"})
				var on []string
				for _, u := range oddsU {
					on = append(on, strconv.FormatUint(uidN(u), 10))
				}
				out.Op("MA %d %d %d %d %d %d %d %s", creatorOf, b2i(valid), mn, start, end, status, len(on), strings.Join(on, " "))
				err, pan := e.Tx(func(ctx sdk.Context) error {
					msg := &markettypes.MsgAdd{Creator: e.Accts[creatorOf].String(), Ticket: tk}
					if err := msg.ValidateBasic(); err != nil {
						return err
					}
					_, err := ms.Add(sdk.WrapSDKContext(ctx), msg)
					return err
				})
				if err == nil {
					w.markets = append(w.markets, &coreMarket{n: mn, uid: UID(clsMarket, mn), odds: oddsU})
				}
				w.finish(err, pan, "marketAdd")
			case c < 10:
				// ---- market resolve
				doResolve(pickMarket(), int(r.Pick([]int64{5, 5, 5, 5, 3, 4, 1})))
			case c < 17:
				// ---- direct house deposit by a user (own account)
				m := pickMarket()
				creator := 1 + r.Intn(7)
				amount := r.Pick([]int64{100, 101, 250, 500, 1000, 2500, 10000})
				if r.Chance(30) {
					amount = r.Range(100, 3000)
				}
				if r.Chance(5) {
					amount = r.Pick([]int64{1, 2, 9, 50, 99})
				}
				kyc, ign, appr, kid := genKyc(creator)
				key, valid := signKey()
				tk := e.Ticket(key, map[string]interface{}{"kyc_data": kyc})
				out.Op("HD %d %s %d %d %d", creator, tkFields(valid, ign, appr, kid), m.n, amount, 0)
				err, pan := e.Tx(func(ctx sdk.Context) error {
					msg := &housetypes.MsgDeposit{Creator: e.Accts[creator].String(), MarketUID: m.uid, Amount: sdkmath.NewInt(amount), Ticket: tk}
					if err := msg.ValidateBasic(); err != nil {
						return err
					}
					_, err := hs.Deposit(sdk.WrapSDKContext(ctx), msg)
					return err
				})
				w.finish(err, pan, "deposit")
			case c < 27:
				// ---- subaccount create / top-up
				creator := 1 + r.Intn(8)
				owner := owners[r.Intn(len(owners))]
				_, has := subOf(owner)
				ls, lsOp := genLocks()
				if !has || r.Chance(10) {
					out.Op("SC %d %d %s", creator, owner, lsOp)
					err, pan := e.Tx(func(ctx sdk.Context) error {
						_, err := ss.Create(sdk.WrapSDKContext(ctx), &subtypes.MsgCreate{Creator: e.Accts[creator].String(), Owner: e.Accts[owner].String(), LockedBalances: ls})
						return err
					})
					w.finish(err, pan, "subCreate")
				} else {
					out.Op("ST %d %d %s", creator, owner, lsOp)
					err, pan := e.Tx(func(ctx sdk.Context) error {
						msg := &subtypes.MsgTopUp{Creator: e.Accts[creator].String(), Address: e.Accts[owner].String(), LockedBalances: ls}
						if err := msg.ValidateBasic(); err != nil {
							return err
						}
						_, err := ss.TopUp(sdk.WrapSDKContext(ctx), msg)
						return err
					})
					w.finish(err, pan, "subTopUp")
				}
			case c < 34:
				// ---- withdraw unlocked balances
				owner := pickOwner()
				if r.Chance(5) {
					owner = 6 + r.Intn(4) // has no subaccount
				}
				doWithdrawUnlocked(owner)
			case c < 52:
				// ---- subaccount wager (bettor = owner, paid partly by the subaccount)
				m := pickLiquid()
				owner := pickOwner()
				g := genWager(m, owner)
				avail := int64(0)
				if sa, ok := subOf(owner); ok {
					if s, ok := sk.GetAccountSummary(e.Ctx, sa); ok {
						avail = s.Available().Int64()
					}
				}
				sub := r.Pick([]int64{0, g.amount, g.amount, g.amount, g.amount / 2, g.amount / 2, g.amount - 1, avail, avail + 1})
				if sub > g.amount && r.Chance(90) {
					sub = g.amount
				}
				if sub > avail && r.Chance(85) {
					sub = avail
				}
				if r.Chance(2) {
					sub = -3
				}
				main := g.amount - sub
				if r.Chance(3) {
					main++
				}
				innerCreator := owner
				if r.Chance(3) {
					innerCreator = 7
				}
				outerKey, outerOk := signKey()
				inner := bettypes.MsgWager{Creator: e.Accts[innerCreator].String(), Props: &bettypes.WagerProps{UID: UID(clsBet, g.bn), Amount: sdkmath.NewInt(g.amount), Ticket: g.tk}}
				tk := e.Ticket(outerKey, map[string]interface{}{"msg": inner, "mainacc_deduct_amount": sdkmath.NewInt(main), "subacc_deduct_amount": sdkmath.NewInt(sub)})
				out.Op("SW %d %d %d %d %d %s %s", owner, b2i(outerOk), innerCreator, main, sub, tkFields(g.valid, g.ign, g.appr, g.kid), g.tail)
				err, pan := e.Tx(func(ctx sdk.Context) error {
					msg := &subtypes.MsgWager{Creator: e.Accts[owner].String(), Ticket: tk}
					if err := msg.ValidateBasic(); err != nil {
						return err
					}
					_, err := ss.Wager(sdk.WrapSDKContext(ctx), msg)
					return err
				})
				if err == nil && g.bn == nextBet {
					nextBet++
				}
				w.finish(err, pan, "subWager")
			case c < 64:
				// ---- subaccount house deposit
				m := pickMarket()
				owner := pickOwner()
				avail := int64(0)
				if sa, ok := subOf(owner); ok {
					if s, ok := sk.GetAccountSummary(e.Ctx, sa); ok {
						avail = s.Available().Int64()
					}
				}
				amount := r.Pick([]int64{100, 250, 500, 1000, 2500, avail, avail + 1, avail / 2, avail / 3})
				if amount > avail && r.Chance(80) {
					amount = avail / 2
				}
				if r.Chance(5) {
					amount = r.Pick([]int64{1, 2, 9, 50, 99})
				}
				if amount <= 0 {
					amount = 100
				}
				pd := 0
				if r.Chance(8) {
					pd = int(r.Pick([]int64{int64(owner), 7, 7, 8}))
				}
				kycWho := owner
				if pd != 0 && pd != owner && r.Chance(60) {
					// the ticket names another account that has given the owner a deposit grant (the ordinary set-up of a
					// delegated house deposit); a SUBACCOUNT deposit must refuse such a ticket all the same
					lim := amount + r.Pick([]int64{0, 1, 1000})
					t := time.Unix(now+r.Range(5, 60), 0).UTC()
					if err := e.App.AuthzKeeper.SaveGrant(e.Ctx, e.Accts[owner], e.Accts[pd], &housetypes.DepositAuthorization{SpendLimit: sdkmath.NewInt(lim)}, &t); err == nil {
						out.Op("GR %d %d %d %d %d", pd, owner, 0, lim, t.Unix())
						out.Count("op.subDeposit.foreign-depositor-with-grant")
						if r.Chance(70) {
							kycWho = pd // identity data approved for the named depositor
						}
					}
				}
				kyc, ign, appr, kid := genKyc(kycWho)
				key, valid := signKey()
				claims := map[string]interface{}{"kyc_data": kyc}
				if pd != 0 {
					claims["depositor_address"] = e.Accts[pd].String()
				}
				tk := e.Ticket(key, claims)
				out.Op("SD %d %s %d %d %d", owner, tkFields(valid, ign, appr, kid), m.n, amount, pd)
				err, pan := e.Tx(func(ctx sdk.Context) error {
					msg := &subtypes.MsgHouseDeposit{Msg: &housetypes.MsgDeposit{Creator: e.Accts[owner].String(), MarketUID: m.uid, Amount: sdkmath.NewInt(amount), Ticket: tk}}
					if err := msg.ValidateBasic(); err != nil {
						return err
					}
					_, err := ss.HouseDeposit(sdk.WrapSDKContext(ctx), msg)
					return err
				})
				if err == nil && pd != 0 && pd != owner {
					// C06: a ticket takes effect only for the account it names; this one names another depositor
					out.Fail(MonFail{Property: "C06", Monitor: "ticket_binds_depositor", Class: "subaccount.HouseDeposit/foreign-depositor", History: h,
						Detail: fmt.Sprintf("subaccount house deposit of owner %d took effect with a ticket naming account %d as the depositor (amount %d, market %d)", owner, pd, amount, m.n)})
				}
				w.finish(err, pan, "subDeposit")
			case c < 70:
				// ---- subaccount house withdraw (aimed at a participation of a subaccount most of the time)
				m := pickMarket()
				owner := pickOwner()
				idx := uint64(r.Range(1, 4))
				mode := int(r.Pick([]int64{1, 1, 2, 2, 2, 0}))
				amount := r.Pick([]int64{1, 5, 10, 45, 90, 100, 450, 900, 1000})
				if r.Chance(30) {
					amount = r.Range(1, 2000)
				}
				if r.Chance(85) {
					ps, _ := e.App.OrderbookKeeper.GetParticipationsOfOrderBook(e.Ctx, m.uid)
					var mine []int
					for i, p := range ps {
						if ix.A(p.ParticipantAddress) >= cmbSubBase {
							mine = append(mine, i)
						}
					}
					if len(mine) > 0 {
						p := ps[mine[r.Intn(len(mine))]]
						idx = p.Index
						if ow, ok := sk.GetSubaccountOwner(e.Ctx, sdk.MustAccAddressFromBech32(p.ParticipantAddress)); ok && r.Chance(92) {
							owner = ix.A(ow.String())
						}
						if r.Chance(40) {
							mx := p.CurrentRoundLiquidity
							if !p.CurrentRoundMaxLoss.IsNegative() {
								mx = mx.Sub(p.CurrentRoundMaxLoss)
							}
							if mx.IsPositive() && mx.IsInt64() {
								amount = mx.Int64() + r.Range(0, 1)
							}
						}
					}
				}
				repeatSX := false
				if lastSX.ok && r.Chance(45) {
					// once more from the participation that was withdrawn from before, a small partial amount
					m, idx, owner, mode = lastSX.m, lastSX.idx, lastSX.owner, 2
					amount = r.Pick([]int64{1, 2, 5, 10, 25})
					repeatSX = true
					out.Count("op.subWithdraw.repeat-same-participation")
				}
				pd := 0
				if r.Chance(8) && !repeatSX {
					pd = int(r.Pick([]int64{int64(owner), 7}))
				}
				kycWho := owner
				if pd != 0 {
					kycWho = pd
				}
				kyc, ign, appr, kid := genKyc(kycWho)
				key, valid := signKey()
				claims := map[string]interface{}{"kyc_data": kyc}
				if pd != 0 {
					claims["depositor_address"] = e.Accts[pd].String()
				}
				tk := e.Ticket(key, claims)
				out.Op("SX %d %s %d %d %d %d %d", owner, tkFields(valid, ign, appr, kid), m.n, idx, mode, amount, pd)
				err, pan := e.Tx(func(ctx sdk.Context) error {
					msg := &subtypes.MsgHouseWithdraw{Msg: &housetypes.MsgWithdraw{Creator: e.Accts[owner].String(), MarketUID: m.uid, ParticipationIndex: idx,
						Mode: housetypes.WithdrawalMode(mode), Amount: sdkmath.NewInt(amount), Ticket: tk}}
					if err := msg.ValidateBasic(); err != nil {
						return err
					}
					_, err := ss.HouseWithdraw(sdk.WrapSDKContext(ctx), msg)
					return err
				})
				if err == nil {
					lastSX.ok, lastSX.m, lastSX.idx, lastSX.owner = true, m, idx, owner
					if repeatSX {
						out.Count("op.subWithdraw.repeat-same-participation.ok")
					}
				}
				w.finish(err, pan, "subWithdraw")
			case c < 80:
				// ---- direct wager by a user without subaccount
				m := pickLiquid()
				creator := 6 + r.Intn(5)
				g := genWager(m, creator)
				out.Op("W %d %s %s", creator, tkFields(g.valid, g.ign, g.appr, g.kid), g.tail)
				err, pan := e.Tx(func(ctx sdk.Context) error {
					msg := &bettypes.MsgWager{Creator: e.Accts[creator].String(), Props: &bettypes.WagerProps{UID: UID(clsBet, g.bn), Amount: sdkmath.NewInt(g.amount), Ticket: g.tk}}
					if err := msg.ValidateBasic(); err != nil {
						return err
					}
					_, err := bs.Wager(sdk.WrapSDKContext(ctx), msg)
					return err
				})
				if err == nil && g.bn == nextBet {
					nextBet++
				}
				w.finish(err, pan, "wager")
			case c < 82:
				// ---- direct house withdraw by a user from an own participation
				m := pickMarket()
				creator := 1 + r.Intn(7)
				idx := uint64(r.Range(1, 4))
				ps, _ := e.App.OrderbookKeeper.GetParticipationsOfOrderBook(e.Ctx, m.uid)
				for _, p := range ps {
					if a := ix.A(p.ParticipantAddress); a < NAcct && r.Chance(60) {
						creator, idx = a, p.Index
					}
				}
				mode := int(r.Pick([]int64{1, 2, 2}))
				amount := r.Pick([]int64{1, 10, 90, 100, 450})
				kyc, ign, appr, kid := genKyc(creator)
				key, valid := signKey()
				tk := e.Ticket(key, map[string]interface{}{"kyc_data": kyc})
				out.Op("HW %d %s %d %d %d %d %d", creator, tkFields(valid, ign, appr, kid), m.n, idx, mode, amount, 0)
				err, pan := e.Tx(func(ctx sdk.Context) error {
					msg := &housetypes.MsgWithdraw{Creator: e.Accts[creator].String(), MarketUID: m.uid, ParticipationIndex: idx,
						Mode: housetypes.WithdrawalMode(mode), Amount: sdkmath.NewInt(amount), Ticket: tk}
					if err := msg.ValidateBasic(); err != nil {
						return err
					}
					_, err := hs.Withdraw(sdk.WrapSDKContext(ctx), msg)
					return err
				})
				w.finish(err, pan, "withdraw")
			case c < 84:
				// ---- plain bank send, sometimes straight to a subaccount address ("somebody sent it tokens directly")
				src := 1 + r.Intn(10)
				dst := 1 + r.Intn(10)
				if r.Chance(40) {
					if n := sk.Peek(e.Ctx); n > 1 {
						dst = cmbSubBase + 1 + r.Intn(int(n-1))
					}
				}
				amt := r.Pick([]int64{0, 1, 50, 1000})
				out.Op("S %d %d %d", src, dst, amt)
				err, pan := e.Tx(func(ctx sdk.Context) error {
					return e.App.BankKeeper.SendCoins(ctx, e.Accts[src], addrOfIdx(dst), sdk.NewCoins(sdk.NewCoin(params.DefaultBondDenom, sdkmath.NewInt(amt))))
				})
				if err == nil && dst >= cmbSubBase && amt > 0 {
					w.dirty[dst] = true
				}
				w.finish(err, pan, "send")
			default:
				// ---- end block, next block
				doEndBlock()
			}
		}
		// epilogue (3 of 4 histories): resolve what is still open, mostly with a declared result, and run end-blocks until
		// the settlement queues are empty, so that subaccount participations and the owners' bets are actually settled;
		// then let the owners withdraw what has been unlocked
		if !halted && h%4 != 3 {
			for _, m := range w.markets {
				if !m.resolved && r.Chance(85) {
					doResolve(m, int(r.Pick([]int64{5, 5, 5, 5, 5, 3, 4})))
				}
			}
			for i := 0; i < 12 && !halted; i++ {
				doEndBlock()
				if len(e.App.MarketKeeper.GetMarketStats(e.Ctx).ResolvedUnsettled) == 0 && len(e.App.OrderbookKeeper.GetOrderBookStats(e.Ctx).ResolvedUnsettled) == 0 {
					break
				}
			}
			for _, o := range owners {
				if !halted && r.Chance(60) {
					doWithdrawUnlocked(o)
				}
			}
		}
		// coverage counters: what happened to subaccount participations / subaccount owners' bets in this history
		ps, _ := e.App.OrderbookKeeper.GetAllOrderBookParticipations(e.Ctx)
		for _, p := range ps {
			if ix.A(p.ParticipantAddress) >= cmbSubBase {
				out.Count("cov.subpart")
				if p.IsSettled {
					mk, _ := e.App.MarketKeeper.GetMarket(e.Ctx, p.OrderBookUID)
					switch {
					case mk.Status != markettypes.MarketStatus_MARKET_STATUS_RESULT_DECLARED:
						out.Count("cov.subpart.refunded")
					case p.ActualProfit.IsNegative():
						out.Count("cov.subpart.loss")
					case p.ActualProfit.IsPositive():
						out.Count("cov.subpart.win")
					default:
						out.Count("cov.subpart.even")
					}
				}
			}
		}
		bets, _ := e.App.BetKeeper.GetBets(e.Ctx)
		for _, b := range bets {
			a := ix.A(b.Creator)
			if a >= 1 && a <= 5 {
				out.Count("cov.ownerbet." + b.Result.String())
				for _, f := range b.BetFulfillment {
					if ix.A(f.ParticipantAddress) == cmbSubBase+0 || func() bool {
						sa, ok := subOf(a)
						return ok && sa.String() == f.ParticipantAddress
					}() {
						out.Count("cov.ownerbet.against-own-subaccount-liquidity")
					}
				}
			}
		}
	}
}
