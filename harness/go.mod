module verif/harness

go 1.23



require (
	cosmossdk.io/api v0.3.1
	cosmossdk.io/errors v1.0.1
	cosmossdk.io/math v1.3.0
	cosmossdk.io/simapp v0.0.0-20230831152633-2e9e5d6eea24
	github.com/CosmWasm/wasmd v0.45.0
	github.com/cometbft/cometbft v0.37.5
	github.com/cometbft/cometbft-db v0.8.0
	github.com/cosmos/cosmos-proto v1.0.0-beta.5
	github.com/cosmos/cosmos-sdk v0.47.14
	github.com/cosmos/gogoproto v1.7.0
	github.com/cosmos/ibc-apps/modules/ibc-hooks/v7 v7.0.0-20240502201956-e9b46e4bf0ad
	github.com/cosmos/ibc-go/modules/light-clients/08-wasm v0.1.1-ibc-go-v7.3-wasmvm-v1.5
	github.com/cosmos/ibc-go/v7 v7.4.0
	github.com/golang-jwt/jwt v3.2.2+incompatible
	github.com/golang-jwt/jwt/v4 v4.5.1
	github.com/golang/protobuf v1.5.4
	github.com/golangci/golangci-lint v1.61.0
	github.com/google/uuid v1.6.0
	github.com/gorilla/mux v1.8.1
	github.com/grpc-ecosystem/grpc-gateway v1.16.0
	github.com/grpc-ecosystem/grpc-gateway/v2 v2.23.0
	github.com/mrz1836/go-sanitize v1.3.3
	github.com/prometheus/client_golang v1.16.0
	github.com/rakyll/statik v0.1.7
	github.com/spf13/cast v1.7.0
	github.com/spf13/cobra v1.8.1
	github.com/stretchr/testify v1.9.0
	google.golang.org/genproto/googleapis/api v0.0.0-20241021214115-324edc3d5d38
	google.golang.org/grpc v1.67.1
	gopkg.in/yaml.v2 v2.4.0
	mvdan.cc/gofumpt v0.7.0
)

require (
	github.com/Abirdcfly/dupword v0.1.1 // indirect
	github.com/Djarvur/go-err113 v0.0.0-20210108212216-aea10b59be24 // indirect
	github.com/alingse/asasalint v0.0.11 // indirect
	github.com/cosmos/go-bip39 v1.0.0 // indirect
	github.com/cosmos/iavl v0.20.1 // indirect
	github.com/creachadair/taskgroup v0.4.2 // indirect
	github.com/curioswitch/go-reassign v0.2.0 // indirect
	github.com/felixge/httpsnoop v1.0.4 // indirect
	github.com/google/btree v1.1.2 // indirect
	github.com/kkHAIKE/contextcheck v1.1.5 // indirect
	github.com/maratori/testableexamples v1.0.0 // indirect
	github.com/pkg/errors v0.9.1 // indirect
	github.com/sashamelentyev/interfacebloat v1.1.0 // indirect
	github.com/sashamelentyev/usestdlibvars v1.27.0 // indirect
	github.com/spf13/pflag v1.0.5 // indirect
	github.com/spf13/viper v1.18.2 // indirect
	github.com/timonwong/loggercheck v0.9.4 // indirect
	go.uber.org/atomic v1.10.0 // indirect
	go.uber.org/multierr v1.9.0 // indirect
	go.uber.org/zap v1.24.0 // indirect
)

require (
	4d63.com/gocheckcompilerdirectives v1.2.1 // indirect
	4d63.com/gochecknoglobals v0.2.1 // indirect
	cloud.google.com/go v0.115.1 // indirect
	cloud.google.com/go/auth v0.9.3 // indirect
	cloud.google.com/go/auth/oauth2adapt v0.2.4 // indirect
	cloud.google.com/go/compute/metadata v0.5.0 // indirect
	cloud.google.com/go/iam v1.2.0 // indirect
	cloud.google.com/go/storage v1.43.0 // indirect
	cosmossdk.io/core v0.6.1 // indirect
	cosmossdk.io/depinject v1.0.0-alpha.4 // indirect
	cosmossdk.io/log v1.4.1 // indirect
	cosmossdk.io/tools/rosetta v0.2.1 // indirect
	filippo.io/edwards25519 v1.0.0 // indirect
	github.com/4meepo/tagalign v1.3.4 // indirect
	github.com/99designs/go-keychain v0.0.0-20191008050251-8e49817e8af4 // indirect
	github.com/99designs/keyring v1.2.2 // indirect
	github.com/Antonboom/errname v0.1.13 // indirect
	github.com/Antonboom/nilnil v0.1.9 // indirect
	github.com/Antonboom/testifylint v1.4.3 // indirect
	github.com/BurntSushi/toml v1.4.1-0.20240526193622-a339e1f7089c // indirect
	github.com/ChainSafe/go-schnorrkel v1.0.0 // indirect
	github.com/CosmWasm/wasmvm v1.5.5 // indirect
	github.com/Crocmagnon/fatcontext v0.5.2 // indirect
	github.com/GaijinEntertainment/go-exhaustruct/v3 v3.3.0 // indirect
	github.com/Masterminds/semver/v3 v3.3.0 // indirect
	github.com/OpenPeeDeeP/depguard/v2 v2.2.0 // indirect
	github.com/alecthomas/go-check-sumtype v0.1.4 // indirect
	github.com/alexkohler/nakedret/v2 v2.0.4 // indirect
	github.com/alexkohler/prealloc v1.0.0 // indirect
	github.com/armon/go-metrics v0.4.1 // indirect
	github.com/ashanbrown/forbidigo v1.6.0 // indirect
	github.com/ashanbrown/makezero v1.1.1 // indirect
	github.com/aws/aws-sdk-go v1.44.203 // indirect
	github.com/benbjohnson/clock v1.3.0 // indirect
	github.com/beorn7/perks v1.0.1 // indirect
	github.com/bgentry/go-netrc v0.0.0-20140422174119-9fd32a8b3d3d // indirect
	github.com/bgentry/speakeasy v0.1.1-0.20220910012023-760eaf8b6816 // indirect
	github.com/bkielbasa/cyclop v1.2.1 // indirect
	github.com/blizzy78/varnamelen v0.8.0 // indirect
	github.com/bombsimon/wsl/v4 v4.4.1 // indirect
	github.com/breml/bidichk v0.2.7 // indirect
	github.com/breml/errchkjson v0.3.6 // indirect
	github.com/btcsuite/btcd/btcec/v2 v2.3.2 // indirect
	github.com/butuzov/ireturn v0.3.0 // indirect
	github.com/butuzov/mirror v1.2.0 // indirect
	github.com/catenacyber/perfsprint v0.7.1 // indirect
	github.com/ccojocar/zxcvbn-go v1.0.2 // indirect
	github.com/cenkalti/backoff/v4 v4.1.3 // indirect
	github.com/cespare/xxhash v1.1.0 // indirect
	github.com/cespare/xxhash/v2 v2.3.0 // indirect
	github.com/charithe/durationcheck v0.0.10 // indirect
	github.com/chavacava/garif v0.1.0 // indirect
	github.com/chzyer/readline v1.5.1 // indirect
	github.com/ckaznocha/intrange v0.2.0 // indirect
	github.com/cockroachdb/apd/v2 v2.0.2 // indirect
	github.com/cockroachdb/errors v1.10.0 // indirect
	github.com/cockroachdb/logtags v0.0.0-20230118201751-21c54148d20b // indirect
	github.com/cockroachdb/redact v1.1.5 // indirect
	github.com/coinbase/rosetta-sdk-go v0.7.9 // indirect
	github.com/confio/ics23/go v0.9.0 // indirect
	github.com/cosmos/btcutil v1.0.5 // indirect
	github.com/cosmos/gogogateway v1.2.0 // indirect
	github.com/cosmos/ics23/go v0.10.0 // indirect
	github.com/cosmos/ledger-cosmos-go v0.12.4 // indirect
	github.com/cosmos/rosetta-sdk-go v0.10.0 // indirect
	github.com/daixiang0/gci v0.13.5 // indirect
	github.com/danieljoos/wincred v1.1.2 // indirect
	github.com/davecgh/go-spew v1.1.2-0.20180830191138-d8f796af33cc // indirect
	github.com/decred/dcrd/dcrec/secp256k1/v4 v4.1.0 // indirect
	github.com/denis-tingaikin/go-header v0.5.0 // indirect
	github.com/desertbit/timer v0.0.0-20180107155436-c41aec40b27f // indirect
	github.com/dgraph-io/badger/v2 v2.2007.4 // indirect
	github.com/dgraph-io/ristretto v0.1.1 // indirect
	github.com/dgryski/go-farm v0.0.0-20200201041132-a6ae2369ad13 // indirect
	github.com/docker/distribution v2.8.2+incompatible // indirect
	github.com/dustin/go-humanize v1.0.1 // indirect
	github.com/dvsekhvalnov/jose2go v1.6.0 // indirect
	github.com/ettle/strcase v0.2.0 // indirect
	github.com/fatih/color v1.17.0 // indirect
	github.com/fatih/structtag v1.2.0 // indirect
	github.com/firefart/nonamedreturns v1.0.5 // indirect
	github.com/fsnotify/fsnotify v1.7.0 // indirect
	github.com/fzipp/gocyclo v0.6.0 // indirect
	github.com/getsentry/sentry-go v0.23.0 // indirect
	github.com/ghodss/yaml v1.0.0 // indirect
	github.com/ghostiam/protogetter v0.3.6 // indirect
	github.com/go-critic/go-critic v0.11.4 // indirect
	github.com/go-kit/kit v0.12.0 // indirect
	github.com/go-kit/log v0.2.1 // indirect
	github.com/go-logfmt/logfmt v0.6.0 // indirect
	github.com/go-logr/logr v1.4.2 // indirect
	github.com/go-logr/stdr v1.2.2 // indirect
	github.com/go-toolsmith/astcast v1.1.0 // indirect
	github.com/go-toolsmith/astcopy v1.1.0 // indirect
	github.com/go-toolsmith/astequal v1.2.0 // indirect
	github.com/go-toolsmith/astfmt v1.1.0 // indirect
	github.com/go-toolsmith/astp v1.1.0 // indirect
	github.com/go-toolsmith/strparse v1.1.0 // indirect
	github.com/go-toolsmith/typep v1.1.0 // indirect
	github.com/go-viper/mapstructure/v2 v2.1.0 // indirect
	github.com/go-xmlfmt/xmlfmt v1.1.2 // indirect
	github.com/gobwas/glob v0.2.3 // indirect
	github.com/godbus/dbus v0.0.0-20190726142602-4481cbc300e2 // indirect
	github.com/gofrs/flock v0.12.1 // indirect
	github.com/gogo/googleapis v1.4.1 // indirect
	github.com/gogo/protobuf v1.3.2 // indirect
	github.com/golang/glog v1.2.2 // indirect
	github.com/golang/groupcache v0.0.0-20210331224755-41bb18bfe9da // indirect
	github.com/golang/mock v1.6.0 // indirect
	github.com/golang/snappy v0.0.4 // indirect
	github.com/golangci/dupl v0.0.0-20180902072040-3e9179ac440a // indirect
	github.com/golangci/gofmt v0.0.0-20240816233607-d8596aa466a9 // indirect
	github.com/golangci/misspell v0.6.0 // indirect
	github.com/golangci/modinfo v0.3.4 // indirect
	github.com/golangci/plugin-module-register v0.1.1 // indirect
	github.com/golangci/revgrep v0.5.3 // indirect
	github.com/golangci/unconvert v0.0.0-20240309020433-c5143eacb3ed // indirect
	github.com/google/go-cmp v0.6.0 // indirect
	github.com/google/gofuzz v1.2.0 // indirect
	github.com/google/orderedcode v0.0.1 // indirect
	github.com/google/s2a-go v0.1.8 // indirect
	github.com/googleapis/enterprise-certificate-proxy v0.3.3 // indirect
	github.com/googleapis/gax-go/v2 v2.13.0 // indirect
	github.com/gordonklaus/ineffassign v0.1.0 // indirect
	github.com/gorilla/handlers v1.5.1 // indirect
	github.com/gorilla/websocket v1.5.0 // indirect
	github.com/gostaticanalysis/analysisutil v0.7.1 // indirect
	github.com/gostaticanalysis/comment v1.4.2 // indirect
	github.com/gostaticanalysis/forcetypeassert v0.1.0 // indirect
	github.com/gostaticanalysis/nilerr v0.1.1 // indirect
	github.com/grpc-ecosystem/go-grpc-middleware v1.3.0 // indirect
	github.com/gsterjov/go-libsecret v0.0.0-20161001094733-a6f4afe4910c // indirect
	github.com/gtank/merlin v0.1.1 // indirect
	github.com/gtank/ristretto255 v0.1.2 // indirect
	github.com/hashicorp/go-cleanhttp v0.5.2 // indirect
	github.com/hashicorp/go-getter v1.7.5 // indirect
	github.com/hashicorp/go-immutable-radix v1.3.1 // indirect
	github.com/hashicorp/go-safetemp v1.0.0 // indirect
	github.com/hashicorp/go-version v1.7.0 // indirect
	github.com/hashicorp/golang-lru v0.5.5-0.20210104140557-80c98217689d // indirect
	github.com/hashicorp/hcl v1.0.0 // indirect
	github.com/hdevalence/ed25519consensus v0.1.0 // indirect
	github.com/hexops/gotextdiff v1.0.3 // indirect
	github.com/huandu/skiplist v1.2.0 // indirect
	github.com/improbable-eng/grpc-web v0.15.0 // indirect
	github.com/inconshreveable/mousetrap v1.1.0 // indirect
	github.com/jgautheron/goconst v1.7.1 // indirect
	github.com/jingyugao/rowserrcheck v1.1.1 // indirect
	github.com/jirfag/go-printf-func-name v0.0.0-20200119135958-7558a9eaa5af // indirect
	github.com/jjti/go-spancheck v0.6.2 // indirect
	github.com/jmespath/go-jmespath v0.4.0 // indirect
	github.com/jmhodges/levigo v1.0.0 // indirect
	github.com/julz/importas v0.1.0 // indirect
	github.com/karamaru-alpha/copyloopvar v1.1.0 // indirect
	github.com/kisielk/errcheck v1.7.0 // indirect
	github.com/klauspost/compress v1.17.0 // indirect
	github.com/kr/pretty v0.3.1 // indirect
	github.com/kr/text v0.2.0 // indirect
	github.com/kulti/thelper v0.6.3 // indirect
	github.com/kunwardeep/paralleltest v1.0.10 // indirect
	github.com/kyoh86/exportloopref v0.1.11 // indirect
	github.com/lasiar/canonicalheader v1.1.1 // indirect
	github.com/ldez/gomoddirectives v0.2.4 // indirect
	github.com/ldez/tagliatelle v0.5.0 // indirect
	github.com/leonklingele/grouper v1.1.2 // indirect
	github.com/lib/pq v1.10.9 // indirect
	github.com/libp2p/go-buffer-pool v0.1.0 // indirect
	github.com/linxGnu/grocksdb v1.7.16 // indirect
	github.com/lufeee/execinquery v1.2.1 // indirect
	github.com/macabu/inamedparam v0.1.3 // indirect
	github.com/magiconair/properties v1.8.7 // indirect
	github.com/manifoldco/promptui v0.9.0 // indirect
	github.com/maratori/testpackage v1.1.1 // indirect
	github.com/matoous/godox v0.0.0-20230222163458-006bad1f9d26 // indirect
	github.com/mattn/go-colorable v0.1.13 // indirect
	github.com/mattn/go-isatty v0.0.20 // indirect
	github.com/mattn/go-runewidth v0.0.10 // indirect
	github.com/matttproud/golang_protobuf_extensions v1.0.4 // indirect
	github.com/mgechev/revive v1.3.9 // indirect
	github.com/mimoo/StrobeGo v0.0.0-20210601165009-122bf33a46e0 // indirect
	github.com/minio/highwayhash v1.0.2 // indirect
	github.com/mitchellh/go-homedir v1.1.0 // indirect
	github.com/mitchellh/go-testing-interface v1.14.1 // indirect
	github.com/mitchellh/mapstructure v1.5.0 // indirect
	github.com/moricho/tparallel v0.3.2 // indirect
	github.com/mtibben/percent v0.2.1 // indirect
	github.com/nakabonne/nestif v0.3.1 // indirect
	github.com/nishanths/exhaustive v0.12.0 // indirect
	github.com/nishanths/predeclared v0.2.2 // indirect
	github.com/nunnatsa/ginkgolinter v0.16.2 // indirect
	github.com/olekukonko/tablewriter v0.0.5 // indirect
	github.com/opencontainers/go-digest v1.0.0 // indirect
	github.com/pelletier/go-toml/v2 v2.2.3 // indirect
	github.com/petermattis/goid v0.0.0-20230317030725-371a4b8eda08 // indirect
	github.com/pmezard/go-difflib v1.0.1-0.20181226105442-5d4384ee4fb2 // indirect
	github.com/polyfloyd/go-errorlint v1.6.0 // indirect
	github.com/prometheus/client_model v0.3.0 // indirect
	github.com/prometheus/common v0.42.0 // indirect
	github.com/prometheus/procfs v0.10.1 // indirect
	github.com/quasilyte/go-ruleguard v0.4.3-0.20240823090925-0fe6f58b47b1 // indirect
	github.com/quasilyte/go-ruleguard/dsl v0.3.22 // indirect
	github.com/quasilyte/gogrep v0.5.0 // indirect
	github.com/quasilyte/regex/syntax v0.0.0-20210819130434-b3f0c404a727 // indirect
	github.com/quasilyte/stdinfo v0.0.0-20220114132959-f7386bf02567 // indirect
	github.com/rcrowley/go-metrics v0.0.0-20201227073835-cf1acfcdf475 // indirect
	github.com/rivo/uniseg v0.2.0 // indirect
	github.com/rogpeppe/go-internal v1.12.0 // indirect
	github.com/rs/cors v1.8.3 // indirect
	github.com/rs/zerolog v1.33.0 // indirect
	github.com/ryancurrah/gomodguard v1.3.5 // indirect
	github.com/ryanrolds/sqlclosecheck v0.5.1 // indirect
	github.com/sagikazarmark/locafero v0.4.0 // indirect
	github.com/sagikazarmark/slog-shim v0.1.0 // indirect
	github.com/sanposhiho/wastedassign/v2 v2.0.7 // indirect
	github.com/santhosh-tekuri/jsonschema/v5 v5.3.1 // indirect
	github.com/sasha-s/go-deadlock v0.3.1 // indirect
	github.com/securego/gosec/v2 v2.21.2 // indirect
	github.com/shazow/go-diff v0.0.0-20160112020656-b6b7b6733b8c // indirect
	github.com/sirupsen/logrus v1.9.3 // indirect
	github.com/sivchari/containedctx v1.0.3 // indirect
	github.com/sivchari/tenv v1.10.0 // indirect
	github.com/sonatard/noctx v0.0.2 // indirect
	github.com/sourcegraph/conc v0.3.0 // indirect
	github.com/sourcegraph/go-diff v0.7.0 // indirect
	github.com/spf13/afero v1.11.0 // indirect
	github.com/ssgreg/nlreturn/v2 v2.2.1 // indirect
	github.com/stbenjam/no-sprintf-host-port v0.1.1 // indirect
	github.com/stretchr/objx v0.5.2 // indirect
	github.com/subosito/gotenv v1.6.0 // indirect
	github.com/syndtr/goleveldb v1.0.1-0.20220721030215-126854af5e6d // indirect
	github.com/tdakkota/asciicheck v0.2.0 // indirect
	github.com/tendermint/go-amino v0.16.0 // indirect
	github.com/tetafro/godot v1.4.17 // indirect
	github.com/tidwall/btree v1.6.0 // indirect
	github.com/timakin/bodyclose v0.0.0-20230421092635-574207250966 // indirect
	github.com/tomarrell/wrapcheck/v2 v2.9.0 // indirect
	github.com/tommy-muehle/go-mnd/v2 v2.5.1 // indirect
	github.com/ulikunitz/xz v0.5.11 // indirect
	github.com/ultraware/funlen v0.1.0 // indirect
	github.com/ultraware/whitespace v0.1.1 // indirect
	github.com/uudashr/gocognit v1.1.3 // indirect
	github.com/xen0n/gosmopolitan v1.2.2 // indirect
	github.com/yagipy/maintidx v1.0.0 // indirect
	github.com/yeya24/promlinter v0.3.0 // indirect
	github.com/ykadowak/zerologlint v0.1.5 // indirect
	github.com/zondax/hid v0.9.2 // indirect
	github.com/zondax/ledger-go v0.14.3 // indirect
	gitlab.com/bosi/decorder v0.4.2 // indirect
	go-simpler.org/musttag v0.12.2 // indirect
	go-simpler.org/sloglint v0.7.2 // indirect
	go.etcd.io/bbolt v1.3.7 // indirect
	go.opencensus.io v0.24.0 // indirect
	go.opentelemetry.io/contrib/instrumentation/google.golang.org/grpc/otelgrpc v0.54.0 // indirect
	go.opentelemetry.io/contrib/instrumentation/net/http/otelhttp v0.54.0 // indirect
	go.opentelemetry.io/otel v1.29.0 // indirect
	go.opentelemetry.io/otel/metric v1.29.0 // indirect
	go.opentelemetry.io/otel/trace v1.29.0 // indirect
	go.uber.org/automaxprocs v1.5.3 // indirect
	golang.org/x/crypto v0.27.0 // indirect
	golang.org/x/exp v0.0.0-20240904232852-e7e105dedf7e // indirect
	golang.org/x/exp/typeparams v0.0.0-20240314144324-c7f7c6466f7f // indirect
	golang.org/x/mod v0.21.0 // indirect
	golang.org/x/net v0.28.0 // indirect
	golang.org/x/oauth2 v0.23.0 // indirect
	golang.org/x/sync v0.8.0 // indirect
	golang.org/x/sys v0.25.0 // indirect
	golang.org/x/term v0.24.0 // indirect
	golang.org/x/text v0.19.0 // indirect
	golang.org/x/time v0.6.0 // indirect
	golang.org/x/tools v0.24.0 // indirect
	google.golang.org/api v0.196.0 // indirect
	google.golang.org/genproto v0.0.0-20240903143218-8af14fe29dc1 // indirect
	google.golang.org/genproto/googleapis/rpc v0.0.0-20241021214115-324edc3d5d38 // indirect
	google.golang.org/protobuf v1.35.1 // indirect
	gopkg.in/ini.v1 v1.67.0 // indirect
	gopkg.in/yaml.v3 v3.0.1 // indirect
	honnef.co/go/tools v0.5.1 // indirect
	mvdan.cc/unparam v0.0.0-20240528143540-8a5130ca722f // indirect
	nhooyr.io/websocket v1.8.7 // indirect
	pgregory.net/rapid v1.1.0 // indirect
	sigs.k8s.io/yaml v1.4.0 // indirect
)

replace (
	// cosmos keyring
	github.com/99designs/keyring => github.com/cosmos/keyring v1.2.0

	github.com/CosmWasm/wasmd => github.com/sge-network/wasmd v0.0.0-20241104103744-57e9fdbaa27f

	github.com/cosmos/cosmos-sdk => github.com/sge-network/cosmos-sdk v0.47.9-0.20241104102302-e92a9994beb6

	// support concurrency for iavl
	github.com/cosmos/iavl => github.com/cosmos/iavl v0.20.1

	// dgrijalva/jwt-go is deprecated and doesn't receive security updates.
	// TODO: remove it: https://github.com/cosmos/cosmos-sdk/issues/13134
	github.com/dgrijalva/jwt-go => github.com/golang-jwt/jwt/v4 v4.4.2

	// Fix upstream GHSA-h395-qcrw-5vmq vulnerability.
	// TODO Remove it: https://github.com/cosmos/cosmos-sdk/issues/10409
	github.com/gin-gonic/gin => github.com/gin-gonic/gin v1.9.0

	// https://github.com/cosmos/cosmos-sdk/issues/14949
	// pin the version of goleveldb to v1.0.1-0.20210819022825-2ae1ddf74ef7 required by SDK v47 upgrade guide.
	github.com/syndtr/goleveldb => github.com/syndtr/goleveldb v1.0.1-0.20210819022825-2ae1ddf74ef7

	golang.org/x/exp => golang.org/x/exp v0.0.0-20230711153332-06a737ee72cb
)


require github.com/sge-network/sge v0.0.0
replace github.com/sge-network/sge => /repo
