package harness

// Correspondence suite and C11 monitors for x/subaccount. Every op drives the REAL message server / keeper /
// hooks of /repo; the op line carries, for the calls into x/bet, x/house, x/ovm, what those modules did as
// observed here (see the modelling boundary in lean/Sge/Subaccount.lean).

import (
	"fmt"
	"os"
	"strings"

	sdkmath "cosmossdk.io/math"
	sdk "github.com/cosmos/cosmos-sdk/types"
	sdkerrtypes "github.com/cosmos/cosmos-sdk/types/errors"

	sdkerrors "cosmossdk.io/errors"

	"github.com/sge-network/sge/app/params"
	betkeeper "github.com/sge-network/sge/x/bet/keeper"
	bettypes "github.com/sge-network/sge/x/bet/types"
	housetypes "github.com/sge-network/sge/x/house/types"
	rewardtypes "github.com/sge-network/sge/x/reward/types"
	subtypes "github.com/sge-network/sge/x/subaccount/types"
)

func init() { suites["sub"] = runSub }

// subFixedProbe tells whether /repo already contains repo_patches/sub_unlocked_withdraw.diff
// (WithdrawableUnlockedBalance subtracts what was already withdrawn from the unlocked total).
func subFixedProbe() int {
	s := subtypes.AccountSummary{DepositedAmount: sdkmath.NewInt(200), SpentAmount: sdkmath.ZeroInt(),
		WithdrawnAmount: sdkmath.NewInt(100), LostAmount: sdkmath.ZeroInt()}
	if s.WithdrawableUnlockedBalance(sdkmath.NewInt(100), sdkmath.NewInt(100)).IsZero() {
		return 1
	}
	return 0
}

// subNegFixProbe tells whether /repo already contains repo_patches/sub_wager_nonneg_deduct.diff
// (the subaccount wager ticket payload rejects negative deductions).
func subNegFixProbe() int {
	p := subtypes.SubAccWagerTicketPayload{Msg: &bettypes.MsgWager{Creator: "x", Props: &bettypes.WagerProps{}},
		MainaccDeductAmount: sdkmath.NewInt(-1), SubaccDeductAmount: sdkmath.NewInt(2)}
	if err := p.Validate(sdkmath.NewInt(1)); err != nil && strings.Contains(err.Error(), "negative") {
		return 1
	}
	return 0
}

// subRetFixProbe tells whether /repo already contains repo_patches/sub_wager_return_untaken.diff: on a throw-away
// chain a subaccount pays a bet that needs no liquidity; unpatched, what the bet module does not take stays
// with the owner.
func subRetFixProbe() int {
	dir, err := os.MkdirTemp("", "verif-sub-probe")
	must(err)
	defer os.RemoveAll(dir)
	out := NewOut(dir)
	e := NewEnv(1_000_000, 4)
	w := newSubWorld(e, out, NewRng(1), -1)
	bp := e.App.BetKeeper.GetParams(e.Ctx)
	bp.Constraints.MinAmount = sdkmath.NewInt(5)
	bp.Constraints.Fee = sdkmath.NewInt(1)
	e.App.BetKeeper.SetParams(e.Ctx, bp)
	w.k.SetParams(e.Ctx, subtypes.Params{WagerEnabled: true, DepositEnabled: true})
	owner := e.Accts[0]
	_, err = w.srv.Create(sdk.WrapSDKContext(e.Ctx), &subtypes.MsgCreate{Creator: e.Accts[1].String(), Owner: owner.String(),
		LockedBalances: []subtypes.LockedBalance{{UnlockTS: uint64(e.Time + 1000), Amount: sdkmath.NewInt(100)}}})
	must(err)
	m := w.addMarket()
	before := e.Bal(owner)
	inner := bettypes.MsgWager{Creator: owner.String(), Props: &bettypes.WagerProps{UID: UID(0xc0, 1), Amount: sdkmath.NewInt(9),
		Ticket: w.betTicket(m, 0, "1.01", owner, 0)}}
	tk := e.Ticket(0, map[string]interface{}{"msg": inner, "mainacc_deduct_amount": sdkmath.NewInt(0), "subacc_deduct_amount": sdkmath.NewInt(9)})
	if _, err := w.srv.Wager(sdk.WrapSDKContext(e.Ctx), &subtypes.MsgWager{Creator: owner.String(), Ticket: tk}); err != nil {
		return 0 // the probe bet is not accepted on this tree: nothing is left with the owner either way
	}
	if e.Bal(owner).GT(before) {
		return 0
	}
	return 1
}

func subClass(err error, panicked bool) string {
	if err == nil {
		return "ok"
	}
	if panicked {
		return "panic"
	}
	t := err.Error()
	has := func(s string) bool { return strings.Contains(t, s) }
	switch {
	case sdkerrors.IsOf(err, subtypes.ErrInvalidLockedBalance) || has("invalid locked balance"):
		return "invalid"
	case has("unlock time is expired"):
		return "expired"
	case has("account has already sub account"):
		return "exists"
	case has("locked balance for the expire time exists"):
		return "lockexists"
	case has("nothing to withdraw"):
		return "nothing"
	case has("is not enabled"):
		return "disabled"
	case has("amount is not positive"), has("amount is greater than available"), has("amount is greater than spent"),
		has("is more than the withdrawn amount"):
		return "amount"
	case has("not enough balance in main account"):
		return "mainbal"
	case has("not enough balance in sub account"):
		return "subbal"
	case has("message creator should be the same"):
		return "creator"
	case sdkerrors.IsOf(err, subtypes.ErrInTicketVerification):
		return "ticket"
	case sdkerrors.IsOf(err, subtypes.ErrInTicketPayloadValidation):
		return "payload"
	case has("sub account does not exist"), has("subaccount not found"):
		return "nosub"
	case has("send coin error"), has("unable to send coins"), sdkerrors.IsOf(err, sdkerrtypes.ErrInsufficientFunds), has("insufficient funds"):
		return "funds"
	}
	return "ext"
}

func subLocksArg(ls []subtypes.LockedBalance) string {
	var sb strings.Builder
	fmt.Fprintf(&sb, "%d", len(ls))
	for _, l := range ls {
		fmt.Fprintf(&sb, " %d %s", l.UnlockTS, intStr(l.Amount))
	}
	return sb.String()
}

// ---------------------------------------------------------------------------------------------
// monitors of C11, evaluated on the implementation state after every observed op

func (w *subWorld) unlockedLog(a int) sdkmath.Int {
	// everything ever deposited with an unlock time that has been reached (lenient reading: ts <= now)
	t := sdkmath.ZeroInt()
	for _, l := range w.lockLog[a] {
		if l.ts <= uint64(w.e.Time) {
			t = t.Add(l.amt)
		}
	}
	return t
}

// fail reports a violation once per history and (monitor, key): the op at which it first shows is the class
func (w *subWorld) fail(mon, class, detail string) { w.failOnce(mon+"|"+class, mon, class, detail) }

func (w *subWorld) failOnce(key, mon, class, detail string) {
	if w.reported[key] {
		return
	}
	w.reported[key] = true
	w.out.Fail(MonFail{Property: "C11", Monitor: mon, Class: class, History: w.h, Detail: detail})
}

func (w *subWorld) monitors(o *subObs, op string) {
	if o == nil {
		return
	}
	for _, a := range o.subIDs {
		s, ok := o.sum[a]
		if !ok {
			w.fail("one_sub_per_owner", "no-summary:"+op, fmt.Sprintf("subaccount %d has map or lock entries but no summary", a))
			continue
		}
		for name, v := range map[string]sdkmath.Int{"deposited": s.DepositedAmount, "spent": s.SpentAmount, "withdrawn": s.WithdrawnAmount, "lost": s.LostAmount} {
			if v.IsNegative() {
				w.fail("summary_nonneg", name+":"+op, fmt.Sprintf("subaccount %d %s = %s", a, name, v))
			}
		}
		if !w.tainted {
			av := o.available(a)
			if o.bank[a].LT(av) {
				w.failOnce(fmt.Sprint("ge", a), "bank_ge_available", op, fmt.Sprintf("subaccount %d holds %s < available %s (%s)", a, o.bank[a], av, s.String()))
			}
			if w.clean && !w.inexact && !o.bank[a].Equal(av) {
				w.failOnce(fmt.Sprint("eq", a), "bank_eq_available", op, fmt.Sprintf("no direct send in the history, subaccount %d holds %s, available %s (%s)", a, o.bank[a], av, s.String()))
			}
		}
		ow, ok := o.subMap[a]
		if !ok || o.ownMap[ow] != a {
			w.fail("one_sub_per_owner", "maps-not-inverse:"+op, fmt.Sprintf("subaccount %d -> owner %d but owner -> %d", a, ow, o.ownMap[ow]))
		}
		g := w.ghost(a)
		ul := w.unlockedLog(a)
		if g.released.GT(ul) {
			cls := "withdraw-unlocked-single"
			if g.nRel >= 2 {
				cls = "withdraw-unlocked-repeated"
			}
			w.failOnce(fmt.Sprint("lb", a), "lock_bound", cls, fmt.Sprintf("subaccount %d released %s by %d unlocked-balance withdrawals, only %s has reached its unlock time (now %d, locks %v)",
				a, g.released, g.nRel, ul, w.e.Time, o.locks[a]))
		} else if g.leaked.IsPositive() && g.released.Add(g.leaked).GT(ul) && op == "WG" {
			w.failOnce(fmt.Sprint("les", a, w.leakClass), "locked_exit_only_staked", w.leakClass, fmt.Sprintf("subaccount %d: %s left to the owner's free balance by wagers that charged less than the subaccount deduction, "+
				"released %s, unlocked so far %s", a, g.leaked, g.released, ul))
		}
	}
	seenOwner := map[int]int{}
	for a, ow := range o.subMap {
		if b, dup := seenOwner[ow]; dup {
			w.fail("one_sub_per_owner", "two-subs:"+op, fmt.Sprintf("owner %d has subaccounts %d and %d", ow, a, b))
		}
		seenOwner[ow] = a
	}
	for ow, a := range o.ownMap {
		if back, ok := o.subMap[a]; !ok || back != ow {
			w.fail("one_sub_per_owner", "maps-not-inverse:"+op, fmt.Sprintf("owner %d -> subaccount %d but subaccount -> %d", ow, a, back))
		}
	}
}

// outflowCheck: a subaccount address may lose tokens only in the ops the property allows
func (w *subWorld) outflowCheck(before subBalSnap, op string, allowed int) {
	for a, b := range before {
		if a < subBase || a == allowed {
			continue
		}
		if w.balOf(a).LT(b) {
			w.fail("locked_exit_only_staked", "unexpected-outflow:"+op, fmt.Sprintf("subaccount %d lost %s in op %s", a, b.Sub(w.balOf(a)), op))
		}
	}
}

// ---------------------------------------------------------------------------------------------
// generator

var subAmounts = []int64{0, 1, 50, 100, 100, 250, 1000}
var subDts = []int64{0, 1, 2, 5, 10, 20, 50}

func (w *subWorld) genLocks() []subtypes.LockedBalance {
	r := w.r
	n := r.Intn(4)
	var ls []subtypes.LockedBalance
	for i := 0; i < n; i++ {
		ts := uint64(w.e.Time + r.Pick(subDts))
		switch r.Intn(40) {
		case 0:
			ts = uint64(w.e.Time - 1)
		case 1:
			ts = 0
		case 2, 3:
			if len(ls) > 0 {
				ts = ls[0].UnlockTS
			}
		case 4, 5:
			// far future / "never": unlock times at and beyond the int64 boundary
			ts = []uint64{1 << 63, 1<<63 + 7, 1<<63 - 1, ^uint64(0), ^uint64(0) - 1}[r.Intn(5)]
		}
		amt := sdkmath.NewInt(r.Pick(subAmounts))
		switch r.Intn(50) {
		case 0:
			amt = sdkmath.NewInt(-5)
		case 1:
			amt = sdkmath.NewInt(100_000_000)
		}
		ls = append(ls, subtypes.LockedBalance{UnlockTS: ts, Amount: amt})
	}
	return ls
}

func (w *subWorld) pickOwner() int {
	if w.r.Chance(4) {
		// an owner that is itself a (present or future) subaccount address
		return subBase + int(w.r.Range(1, int64(w.k.Peek(w.e.Ctx))))
	}
	if w.r.Chance(70) {
		// prefer owners that have a subaccount
		var have []int
		for i := 0; i < 6; i++ {
			if _, ok := w.k.GetSubaccountByOwner(w.e.Ctx, w.acct(i)); ok {
				have = append(have, i)
			}
		}
		if len(have) > 0 {
			return have[w.r.Intn(len(have))]
		}
	}
	return w.r.Intn(6)
}

func (w *subWorld) pickUserOwner() int {
	for {
		if o := w.pickOwner(); o < NAcct {
			return o
		}
	}
}

func (w *subWorld) logLocks(a int, ls []subtypes.LockedBalance) {
	for _, l := range ls {
		w.lockLog[a] = append(w.lockLog[a], subLockRec{ts: l.UnlockTS, amt: l.Amount})
	}
}

func (w *subWorld) subOf(owner int) (int, bool) {
	a, ok := w.k.GetSubaccountByOwner(w.e.Ctx, w.acct(owner))
	if !ok {
		return 0, false
	}
	return w.idOf(a), true
}

func (w *subWorld) opCreate() {
	creator, owner := w.r.Intn(9), w.r.Intn(6)
	if w.r.Chance(5) {
		owner = w.pickOwner()
	}
	ls := w.genLocks()
	msg := &subtypes.MsgCreate{Creator: w.acct(creator).String(), Owner: w.acct(owner).String(), LockedBalances: ls}
	next := subBase + int(w.k.Peek(w.e.Ctx))
	before := w.snap()
	err, p := w.e.Tx(func(ctx sdk.Context) error {
		if err := msg.ValidateBasic(); err != nil {
			return err
		}
		_, err := w.srv.Create(sdk.WrapSDKContext(ctx), msg)
		return err
	})
	cls := subClass(err, p)
	w.out.Count("create." + cls)
	if cls == "ok" {
		w.logLocks(next, ls)
		if owner >= subBase {
			// the owner is itself an address of the subaccount range (outside the boundary contract `ExtOK`:
			// owners are key-holding accounts): transfers "to the owner" then land on a subaccount address
			w.tainted, w.inexact = true, true
			w.out.Count("create.owner-is-subaccount-address")
		}
	}
	o := w.emit(false, cls, fmt.Sprintf("C %d %d %s", creator, owner, subLocksArg(ls)))
	w.outflowCheck(before, "C", -1)
	w.monitors(o, "C")
}

func (w *subWorld) opTopUp() {
	creator, owner := w.r.Intn(9), w.pickOwner()
	ls := w.genLocks()
	msg := &subtypes.MsgTopUp{Creator: w.acct(creator).String(), Address: w.acct(owner).String(), LockedBalances: ls}
	a, has := w.subOf(owner)
	before := w.snap()
	var err error
	var p bool
	if verr := msg.ValidateBasic(); verr != nil {
		err = subtypes.ErrInvalidLockedBalance
	} else {
		err, p = w.e.Tx(func(ctx sdk.Context) error {
			_, err := w.srv.TopUp(sdk.WrapSDKContext(ctx), msg)
			return err
		})
	}
	cls := subClass(err, p)
	w.out.Count("topup." + cls)
	if cls == "ok" && has {
		w.logLocks(a, ls)
	}
	o := w.emit(false, cls, fmt.Sprintf("U %d %d %s", creator, owner, subLocksArg(ls)))
	w.outflowCheck(before, "U", -1)
	w.monitors(o, "U")
}

func (w *subWorld) opWithdraw(owner int) {
	a, has := w.subOf(owner)
	before := w.snap()
	wdBefore := sdkmath.ZeroInt()
	if has {
		sm, _ := w.k.GetAccountSummary(w.e.Ctx, w.acct(a))
		wdBefore = sm.WithdrawnAmount
	}
	msg := &subtypes.MsgWithdrawUnlockedBalances{Creator: w.acct(owner).String()}
	err, p := w.e.Tx(func(ctx sdk.Context) error {
		_, err := w.srv.WithdrawUnlockedBalances(sdk.WrapSDKContext(ctx), msg)
		return err
	})
	cls := subClass(err, p)
	w.out.Count("withdraw." + cls)
	if cls == "ok" && has {
		g := w.ghost(a)
		paid := before[a].Sub(w.balOf(a))
		if owner >= subBase {
			// owner == a subaccount address (possibly this one): the bank delta says nothing, use the booked amount
			sm, _ := w.k.GetAccountSummary(w.e.Ctx, w.acct(a))
			paid = sm.WithdrawnAmount.Sub(wdBefore)
		}
		g.released = g.released.Add(paid)
		g.nRel++
	}
	o := w.emit(false, cls, fmt.Sprintf("W %d", owner))
	w.outflowCheck(before, "W", a)
	w.monitors(o, "W")
}

func (w *subWorld) opAdvance() {
	dt := w.r.Pick(subDts)
	if w.r.Chance(40) {
		// boundary-directed: move exactly onto (or one past) an unlock time of some subaccount
		o := w.observe()
		var cands []int64
		for _, ls := range o.locks {
			for _, l := range ls {
				if l.UnlockTS < uint64(w.e.Time)+1_000_000_000 && int64(l.UnlockTS) >= w.e.Time { // (far-future locks are never reached)
					cands = append(cands, int64(l.UnlockTS)-w.e.Time, int64(l.UnlockTS)-w.e.Time+1)
				}
			}
		}
		if len(cands) > 0 {
			dt = w.r.Pick(cands)
		}
	}
	w.e.SetBlock(w.e.Height+1, w.e.Time+dt)
	w.out.Count("advance")
	o := w.emit(false, "ok", fmt.Sprintf("T %d", dt))
	w.monitors(o, "T")
}

func (w *subWorld) opParams() {
	p := subtypes.Params{WagerEnabled: !w.r.Chance(15), DepositEnabled: !w.r.Chance(15)}
	w.k.SetParams(w.e.Ctx, p)
	w.out.Count("params")
	o := w.emit(false, "ok", fmt.Sprintf("P %d %d", b2i(p.WagerEnabled), b2i(p.DepositEnabled)))
	w.monitors(o, "P")
}

func (w *subWorld) sendOp(from, to int, amt int64, quiet bool) {
	before := w.snap()
	err, p := w.e.Tx(func(ctx sdk.Context) error {
		c := sdk.NewCoins(sdk.NewCoin(params.DefaultBondDenom, sdkmath.NewInt(amt)))
		switch to {
		case subExt:
			return w.e.App.BankKeeper.SendCoinsFromAccountToModule(ctx, w.acct(from), subExtModules[0], c)
		case subPool:
			return w.e.App.BankKeeper.SendCoinsFromAccountToModule(ctx, w.acct(from), rewardtypes.RewardPoolFunder{}.GetModuleAcc(), c)
		}
		return w.e.App.BankKeeper.SendCoins(ctx, w.acct(from), w.acct(to), c)
	})
	cls := subClass(err, p)
	w.out.Count("send." + cls)
	if cls == "ok" && to >= subBase {
		w.clean = false
	}
	o := w.emit(quiet, cls, fmt.Sprintf("S %d %d %d", from, to, amt))
	w.outflowCheck(before, "S", -1)
	w.monitors(o, "S")
}

func (w *subWorld) opDirectSend() {
	from := w.r.Intn(9)
	to := subBase + int(w.r.Range(1, int64(w.k.Peek(w.e.Ctx))))
	if w.r.Chance(15) {
		to = w.r.Intn(9)
	}
	w.sendOp(from, to, w.r.Pick([]int64{1, 7, 100}), false)
}

func (w *subWorld) opGrant() {
	creator, receiver := w.r.Intn(9), w.r.Intn(6)
	amt := w.r.Pick([]int64{0, 50, 100, 100, 300, 6000})
	period := uint64(w.r.Pick(subDts))
	before := w.snap()
	_, had := w.subOf(receiver)
	err, p := w.e.Tx(func(ctx sdk.Context) error {
		// x/reward/types/reward.go getSubaccountAddr
		if _, found := w.k.GetSubaccountByOwner(ctx, w.acct(receiver)); !found {
			if _, err := w.k.CreateSubaccount(ctx, w.acct(creator).String(), w.acct(receiver).String(), []subtypes.LockedBalance{}); err != nil {
				return err
			}
		}
		sa, _ := w.k.GetSubaccountByOwner(ctx, w.acct(receiver))
		_, err := w.e.App.RewardKeeper.DistributeRewards(ctx, rewardtypes.Receiver{SubaccountAddr: sa.String(), MainAccountAddr: w.acct(receiver).String(),
			RewardAmount: rewardtypes.RewardAmount{MainAccountAmount: sdkmath.ZeroInt(), SubaccountAmount: sdkmath.NewInt(amt), UnlockPeriod: period}})
		return err
	})
	cls := subClass(err, p)
	w.out.Count("grant." + cls)
	if cls == "ok" && !had {
		w.out.Count("grant.created")
	}
	if a, has := w.subOf(receiver); cls == "ok" && has && amt > 0 {
		w.logLocks(a, []subtypes.LockedBalance{{UnlockTS: uint64(w.e.Time) + period, Amount: sdkmath.NewInt(amt)}})
	}
	o := w.emit(false, cls, fmt.Sprintf("G %d %d %d %d", creator, receiver, amt, period))
	w.outflowCheck(before, "G", -1)
	w.monitors(o, "G")
}

// opHook calls a hook of the subaccount keeper directly, preceded by the custody payout the order book makes
// before it. `consistent` draws arguments the order book can produce for this subaccount.
func (w *subWorld) opHook() {
	r := w.r
	n := int64(w.k.Peek(w.e.Ctx))
	house := subBase + int(r.Range(1, n-1))
	if n == 1 || r.Chance(8) {
		house = subBase + int(n) // not (yet) a subaccount
	}
	if r.Chance(8) {
		house = r.Intn(6)
	}
	sum, _ := w.k.GetAccountSummary(w.e.Ctx, w.acct(house))
	spent := int64(0)
	if !sum.SpentAmount.IsNil() {
		spent = sum.SpentAmount.Int64()
	}
	bank := w.balOf(house).Int64()
	kind := []string{"win", "loss", "refund", "fee"}[r.Intn(4)]
	orig := r.Pick([]int64{0, 1, spent, spent, spent / 2, spent + 1, -1})
	y := int64(0)
	switch kind {
	case "win":
		y = r.Pick([]int64{0, 1, 10, 50, -1})
	case "loss":
		y = r.Pick([]int64{0, 1, orig, orig / 2, orig + 7, -1})
	}
	var refund int64
	switch kind {
	case "win":
		refund = orig + y
	case "loss":
		refund = orig - y
	default:
		refund = orig
	}
	if r.Chance(25) {
		refund = r.Pick([]int64{0, 1, orig, bank + 1, orig + y + 3})
	}
	if refund < 0 {
		refund = 0
	}
	extOK, exact := false, false
	switch kind {
	case "win":
		extOK, exact = refund >= orig+y, refund == orig+y
	case "loss":
		extOK, exact = refund >= orig-y, refund == orig-y
	default:
		extOK, exact = refund >= orig, refund == orig
	}
	hooks := w.k.Hooks()
	addr := w.acct(house)
	_, isSub := w.k.GetAccountSummary(w.e.Ctx, addr)
	before := w.snap()
	err, p := w.e.Tx(func(ctx sdk.Context) error {
		if refund > 0 {
			c := sdk.NewCoins(sdk.NewCoin(params.DefaultBondDenom, sdkmath.NewInt(refund)))
			if err := w.e.App.BankKeeper.SendCoinsFromModuleToAccount(ctx, subExtModules[0], addr, c); err != nil {
				return fmt.Errorf("custody payout: %w", err)
			}
		}
		switch kind {
		case "win":
			hooks.AfterHouseWin(ctx, addr, sdkmath.NewInt(orig), sdkmath.NewInt(y))
		case "loss":
			hooks.AfterHouseLoss(ctx, addr, sdkmath.NewInt(orig), sdkmath.NewInt(y))
		case "refund":
			hooks.AfterHouseRefund(ctx, addr, sdkmath.NewInt(orig))
		case "fee":
			hooks.AfterHouseFeeRefund(ctx, addr, sdkmath.NewInt(orig))
		}
		return nil
	})
	cls := "ok"
	if p {
		cls = "panic"
	} else if err != nil {
		cls = "ext"
	}
	w.out.Count("hook." + kind + "." + cls)
	w.injected = true
	if cls == "ok" {
		if !extOK && isSub {
			w.tainted = true
		}
		if !exact && isSub {
			w.inexact = true
		}
		if house >= subBase && !isSub {
			w.clean = false
		}
		if kind == "win" && isSub {
			g := w.ghost(house)
			g.profitOut = g.profitOut.Add(sdkmath.NewInt(y))
		}
	}
	if cls == "panic" {
		w.out.Count("hook.panic." + kind)
	}
	o := w.emit(false, cls, fmt.Sprintf("K %s %d %d %d %d", kind, house, refund, orig, y))
	w.outflowCheck(before, "K", house)
	w.monitors(o, "K")
}

func (w *subWorld) liveMarket() *subMarket {
	var live []*subMarket
	for _, m := range w.markets {
		if !m.resolved {
			live = append(live, m)
		}
	}
	if len(live) == 0 {
		return w.addMarket()
	}
	return live[w.r.Intn(len(live))]
}

func (w *subWorld) opHouseDeposit() {
	r := w.r
	owner := w.pickUserOwner()
	m := w.liveMarket()
	a, has := w.subOf(owner)
	avail := int64(0)
	if has {
		o := w.observe()
		avail = o.available(a).Int64()
	}
	amt := r.Pick([]int64{10, 50, 100, 500, avail, avail + 1, avail / 2})
	if amt <= 0 {
		amt = 10
	}
	key, kycAddr := 0, w.acct(owner)
	switch r.Intn(20) {
	case 0:
		key = w.foreignTk
	case 1:
		kycAddr = w.acct(8)
	case 2:
		amt = 3 // below the minimum deposit
	}
	tk := w.e.Ticket(key, map[string]interface{}{"kyc_data": subKyc(kycAddr)})
	inner := &housetypes.MsgDeposit{Creator: w.acct(owner).String(), MarketUID: m.uid, Amount: sdkmath.NewInt(amt), Ticket: tk}
	msg := &subtypes.MsgHouseDeposit{Msg: inner}
	if msg.ValidateBasic() != nil {
		return
	}
	// what the house module's ticket check says (read-only probe on a throw-away context)
	pctx, _ := w.e.Ctx.CacheContext()
	_, perr := w.e.App.HouseKeeper.ParseDepositTicketAndValidate(sdk.WrapSDKContext(pctx), pctx, inner, false)
	tkOk := perr == nil
	before := w.snap()
	var resp *subtypes.MsgHouseDepositResponse
	err, p := w.e.Tx(func(ctx sdk.Context) error {
		var err error
		resp, err = w.srv.HouseDeposit(sdk.WrapSDKContext(ctx), msg)
		return err
	})
	cls := subClass(err, p)
	w.out.Count("housedeposit." + cls)
	depOk, taken := true, sdkmath.ZeroInt()
	if cls == "ok" {
		taken = before[a].Sub(w.balOf(a))
		m.parts[owner] = append(m.parts[owner], resp.Response.ParticipationIndex)
		w.parts = append(w.parts, subPart{owner: owner, m: m, idx: resp.Response.ParticipationIndex})
		if !taken.Equal(sdkmath.NewInt(amt)) {
			// interface assumption of bank_ge/eq_available about x/house: the deposit takes exactly the amount
			w.fail("ext_contract", "house-deposit-takes-other-amount", fmt.Sprintf("deposit %d took %s from the subaccount", amt, taken))
		}
	} else if cls == "ext" && tkOk {
		depOk = false
	}
	o := w.emit(false, cls, fmt.Sprintf("HD %d %d %d %d %s", owner, amt, b2i(tkOk), b2i(depOk), taken))
	w.outflowCheck(before, "HD", a)
	w.monitors(o, "HD")
}

func (w *subWorld) opHouseWithdraw() {
	r := w.r
	owner := w.pickUserOwner()
	m := w.liveMarket()
	idx := uint64(1)
	if len(w.parts) > 0 && r.Chance(85) {
		p := w.parts[r.Intn(len(w.parts))]
		owner, m, idx = p.owner, p.m, p.idx
	}
	a, _ := w.subOf(owner)
	mode := housetypes.WithdrawalMode_WITHDRAWAL_MODE_FULL
	amt := int64(0)
	if r.Chance(50) {
		mode = housetypes.WithdrawalMode_WITHDRAWAL_MODE_PARTIAL
		amt = r.Pick([]int64{1, 5, 20, 100, 1000})
	}
	key := 0
	if r.Chance(5) {
		key = w.foreignTk
	}
	tk := w.e.Ticket(key, map[string]interface{}{"kyc_data": subKyc(w.acct(owner))})
	inner := &housetypes.MsgWithdraw{Creator: w.acct(owner).String(), MarketUID: m.uid, ParticipationIndex: idx, Mode: mode,
		Amount: sdkmath.NewInt(amt), Ticket: tk}
	msg := &subtypes.MsgHouseWithdraw{Msg: inner}
	if msg.ValidateBasic() != nil {
		return
	}
	pctx, _ := w.e.Ctx.CacheContext()
	_, _, perr := w.e.App.HouseKeeper.ParseWithdrawTicketAndValidate(sdk.WrapSDKContext(pctx), inner, true)
	tkOk := perr == nil
	before := w.snap()
	err, p := w.e.Tx(func(ctx sdk.Context) error {
		_, err := w.srv.HouseWithdraw(sdk.WrapSDKContext(ctx), msg)
		return err
	})
	cls := subClass(err, p)
	w.out.Count("housewithdraw." + cls)
	wdOk, paid := true, sdkmath.ZeroInt()
	calc := inner.Amount // CalcAndWithdraw overwrites msg.Amount with the computed amount
	switch cls {
	case "ok":
		paid = w.balOf(a).Sub(before[a])
		if !paid.Equal(calc) {
			w.fail("ext_contract", "house-withdraw-pays-other-amount", fmt.Sprintf("withdrawal computed %s, paid %s", calc, paid))
		}
	case "panic":
		paid = calc
		if !w.injected {
			w.fail("hooks_total", "house-withdraw-unspend-panic", fmt.Sprintf("HouseWithdraw panicked un-spending %s (no injected hook calls in this history)", calc))
		}
	case "ext":
		if tkOk {
			wdOk = false
		}
	}
	o := w.emit(false, cls, fmt.Sprintf("HW %d %d %d %s %s", owner, b2i(tkOk), b2i(wdOk), intStr(calc), paid))
	w.outflowCheck(before, "HW", -1)
	w.monitors(o, "HW")
}

var subOdds = []string{"1.01", "1.1", "1.5", "2", "4.2", "10"}

func (w *subWorld) opWager() { w.wagerOn(w.liveMarket(), false) }

// wagerOn places a subaccount wager on market m; `tiny` asks for a bet so small that no liquidity is needed
// (stake × (odds − 1) < 1, the zero-part bets of DESIGN.md section 9 item 2), fully paid by the subaccount.
func (w *subWorld) wagerOn(m *subMarket, tiny bool) {
	r := w.r
	owner := w.pickUserOwner()
	a, has := w.subOf(owner)
	avail := int64(0)
	if has {
		o := w.observe()
		avail = o.available(a).Int64()
	}
	amount := r.Pick([]int64{5, 7, 10, 11, 50, 100, 400, 2000})
	sub := r.Pick([]int64{0, amount, amount / 2, avail, avail + 1, amount - 1, -5})
	if tiny {
		amount = r.Pick([]int64{6, 8, 9})
		sub = amount
	}
	main := amount - sub
	if r.Chance(4) {
		main++
	}
	w.nBets++
	betUID := UID(0xc0, w.nBets)
	innerCreator := w.acct(owner)
	outerKey := 0
	pre := 0
	variant := r.Intn(30)
	if tiny {
		variant = 29
	}
	switch variant {
	case 0:
		outerKey = w.foreignTk
		pre = 1
	case 1:
		innerCreator = w.acct(7)
		pre = 2
	case 2:
		betUID = "not-a-uid"
	case 3:
		if w.nBets > 1 {
			betUID = UID(0xc0, w.nBets-1) // possibly a duplicate
		}
	}
	inner := bettypes.MsgWager{Creator: innerCreator.String(), Props: &bettypes.WagerProps{UID: betUID, Amount: sdkmath.NewInt(amount),
		Ticket: w.betTicket(m, r.Intn(len(m.odds)), w.pickOdds(tiny), innerCreator, 0)}}
	tk := w.e.Ticket(outerKey, map[string]interface{}{"msg": inner, "mainacc_deduct_amount": sdkmath.NewInt(main), "subacc_deduct_amount": sdkmath.NewInt(sub)})
	msg := &subtypes.MsgWager{Creator: w.acct(owner).String(), Ticket: tk}
	// read-only probes of what x/bet says about the inner message
	betAmount := sdkmath.ZeroInt()
	if pre == 0 {
		pctx, _ := w.e.Ctx.CacheContext()
		b, _, perr := w.e.App.BetKeeper.PrepareBetObject(pctx, inner.Creator, inner.Props)
		if perr != nil {
			pre = 3
		} else {
			betAmount = b.Amount
			if inner.ValidateBasic() != nil {
				pre = 5
			}
		}
	}
	before := w.snap()
	err, p := w.e.Tx(func(ctx sdk.Context) error {
		_, err := w.srv.Wager(sdk.WrapSDKContext(ctx), msg)
		return err
	})
	cls := subClass(err, p)
	w.out.Count("wager." + cls)
	wagerOk, charged := true, sdkmath.ZeroInt()
	if cls == "ok" {
		gain := w.balOf(owner).Sub(before[owner])
		subLoss := before[a].Sub(w.balOf(a)) // the deduction minus what the patched code sends back
		charged = subLoss.Sub(gain)          // what left the two accounts into custody
		g := w.ghost(a)
		g.wagered = g.wagered.Add(subLoss)
		g.staked = g.staked.Add(charged)
		if gain.IsPositive() {
			g.leaked = g.leaked.Add(gain)
			if main < 0 {
				// the ticket's main-account deduction is negative: the subaccount deduction exceeds the bet amount
				w.leakClass = "wager-negative-main-deduct"
				w.out.Count("wager.leak.negative-main")
			} else {
				// the bet module charged less than the bet amount (zero-part / under-charged bets)
				w.leakClass = "wager-undercharged-by-bet-module"
				w.out.Count("wager.leak.undercharged")
			}
		}
		if !charged.Equal(sdkmath.NewInt(amount)) {
			w.out.Count("wager.charged-ne-amount")
		}
	} else if cls == "ext" && pre == 0 {
		wagerOk = false
	}
	o := w.emit(false, cls, fmt.Sprintf("WG %d %d %d %d %s %d %s", owner, main, sub, pre, betAmount, b2i(wagerOk), charged))
	w.outflowCheck(before, "WG", a)
	w.monitors(o, "WG")
}

func (w *subWorld) pickOdds(tiny bool) string {
	if tiny {
		return "1.01"
	}
	return subOdds[w.r.Intn(len(subOdds))]
}

// opEmptyBookScenario (real histories): a fresh market nobody deposited into, a tiny subaccount wager on it, then
// resolution and the end-blockers. The bet needs no liquidity, is accepted, and its settlement has to be paid out
// of a pool that never received the stake.
func (w *subWorld) opEmptyBookScenario() bool {
	m := w.addMarket()
	w.wagerOn(m, true)
	w.resolve(m)
	return w.endBlock()
}

// plainWager: a bet of user 9 through the bet module's own message (environment)
func (w *subWorld) plainWager() {
	m := w.liveMarket()
	if !m.liquid {
		w.plainDeposit(m, 9, 3_000)
	}
	w.nBets++
	bettor := w.e.Accts[9]
	msg := &bettypes.MsgWager{Creator: bettor.String(), Props: &bettypes.WagerProps{UID: UID(0xc0, w.nBets), Amount: sdkmath.NewInt(w.r.Pick([]int64{10, 50, 200})),
		Ticket: w.betTicket(m, w.r.Intn(len(m.odds)), subOdds[2+w.r.Intn(4)], bettor, 0)}}
	before := w.snap()
	err, _ := w.e.Tx(func(ctx sdk.Context) error {
		_, err := betkeeper.NewMsgServerImpl(*w.e.App.BetKeeper).Wager(sdk.WrapSDKContext(ctx), msg)
		return err
	})
	if err != nil {
		w.out.Count("env.wager.err")
		return
	}
	w.out.Count("env.wager.ok")
	w.replayDeltas(before)
	o := w.emit(false, "ok", "T 0")
	w.monitors(o, "ENV")
}

func runSub(seed uint64, n int, out *Out) {
	fixed := int(envInt("VERIF_SUB_FIXED", int64(subFixedProbe())))
	out.Op("CFG fixed %d", fixed)
	out.Op("CFG negfix %d", int(envInt("VERIF_SUB_NEGFIX", int64(subNegFixProbe()))))
	out.Op("CFG retfix %d", int(envInt("VERIF_SUB_RETFIX", int64(subRetFixProbe()))))
	nOps := int(envInt("VERIF_SUB_OPS", 60))
	for h := 0; h < n; h++ {
		if skipHist(h) {
			continue
		}
		r := NewRng(seed*1_000_003 + uint64(h))
		// NewRng streams of adjacent seeds are one-draw shifts of each other: re-key so that histories are independent
		r = &Rng{s: r.U64() ^ 0x5eed5ab5eed5ab}
		bal := int64(1_000_000)
		e := NewEnv(bal, 4)
		w := newSubWorld(e, out, r, h)
		out.Op("N %d", h)
		out.Impl("n %d", h)
		w.emit(true, "ok", fmt.Sprintf("T %d", e.Time))
		for i := 0; i < NAcct; i++ {
			w.emit(i < NAcct-1, "ok", fmt.Sprintf("F %d %d", i, bal))
		}
		// small bet / house parameters so that small amounts exercise every branch (not part of this slice's model)
		bp := e.App.BetKeeper.GetParams(e.Ctx)
		bp.Constraints.MinAmount = sdkmath.NewInt(5)
		bp.Constraints.Fee = sdkmath.NewInt(r.Pick([]int64{0, 1, 3}))
		e.App.BetKeeper.SetParams(e.Ctx, bp)
		hp := e.App.HouseKeeper.GetParams(e.Ctx)
		hp.MinDeposit = sdkmath.NewInt(5)
		hp.HouseParticipationFee = sdkmath.LegacyMustNewDecFromStr([]string{"0", "0.1", "0.03"}[r.Intn(3)])
		e.App.HouseKeeper.SetParams(e.Ctx, hp)

		// history mode: `real` histories reach the hooks only through the real end-blockers (all monitors apply);
		// `injected` histories additionally call the hooks directly in arbitrary order with boundary arguments
		injectedMode := r.Chance(45)
		if !r.Chance(10) {
			w.k.SetParams(e.Ctx, subtypes.Params{WagerEnabled: true, DepositEnabled: true})
			w.emit(false, "ok", "P 1 1")
		}
		w.sendOp(10, subPool, 5_000, false)
		if injectedMode {
			w.sendOp(10, subExt, 50_000, false)
		}
		w.addMarket()
		if r.Chance(70) {
			w.plainDeposit(w.markets[0], 9, 5_000)
		}
		halted := false
		for i := 0; i < nOps && !halted; i++ {
			x := r.Intn(100)
			switch {
			case x < 9:
				w.opCreate()
			case x < 19:
				w.opTopUp()
			case x < 39:
				o := w.pickOwner()
				w.opWithdraw(o)
				if r.Chance(40) {
					w.opWithdraw(o) // repeated withdrawal between two unlock times
				}
			case x < 52:
				w.opAdvance()
			case x < 55:
				w.opDirectSend()
			case x < 61:
				w.opGrant()
			case x < 69:
				w.opHouseDeposit()
			case x < 73:
				w.opHouseWithdraw()
			case x < 83:
				if !injectedMode && r.Chance(6) {
					halted = !w.opEmptyBookScenario()
				} else {
					w.opWager()
				}
			case x < 85:
				w.opParams()
			case x < 89:
				w.plainWager()
			case x < 92:
				if injectedMode {
					w.opHook()
				} else {
					halted = !w.endBlock()
				}
			case x < 96:
				if injectedMode {
					w.opHook()
					w.opHook()
				} else {
					m := w.liveMarket()
					w.resolve(m)
					halted = !w.endBlock()
					if !halted && r.Chance(50) {
						halted = !w.endBlock()
					}
					if !halted {
						nm := w.addMarket()
						if r.Chance(60) {
							w.plainDeposit(nm, 9, 3_000)
						}
					}
				}
			default:
				m := w.liveMarket()
				w.resolve(m)
				halted = !w.endBlock()
				if !halted {
					w.addMarket()
				}
			}
		}
		if halted {
			out.Count("history.halted")
		}
		if injectedMode {
			out.Count("history.injected")
		} else {
			out.Count("history.real")
		}
	}
}
