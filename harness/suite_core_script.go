package harness

import (
	"fmt"
	"strings"
	"time"

	sdkmath "cosmossdk.io/math"
	sdk "github.com/cosmos/cosmos-sdk/types"
	"github.com/cosmos/cosmos-sdk/x/authz"

	"github.com/sge-network/sge/x/bet"
	betkeeper "github.com/sge-network/sge/x/bet/keeper"
	bettypes "github.com/sge-network/sge/x/bet/types"
	housekeeper "github.com/sge-network/sge/x/house/keeper"
	housetypes "github.com/sge-network/sge/x/house/types"
	marketkeeper "github.com/sge-network/sge/x/market/keeper"
	markettypes "github.com/sge-network/sge/x/market/types"
	"github.com/sge-network/sge/x/orderbook"
)

func init() { suites["core_scripted"] = runCoreScripted }

// coreScript is a deterministic history: the minimal reproductions of the known findings of the core slice
// (so that every listed finding is re-observed on every run) and a few fixed regression histories.
type coreScript struct {
	e       *Env
	ix      *coreIx
	out     *Out
	h       int
	ms      markettypes.MsgServer
	hs      housetypes.MsgServer
	bs      bettypes.MsgServer
	markets []*coreMarket
	height  int64
	now     int64
	fee     int64
	nextBet int
	// current parameters (for the PARAMS line of a mid-history change)
	pBetBatch                       uint32
	pBetMin, pMinDeposit, pHouseFee int64
	pMaxW, pMaxPart, pObBatch, pThr uint64
}

func newCoreScript(out *Out, h int, minDeposit, houseFeeRaw, betMin, betFee int64, thr uint64, betBatch uint32, obBatch uint64) *coreScript {
	e := NewEnv(1_000_000, 4)
	c := &coreScript{e: e, ix: newCoreIx(e), out: out, h: h, fee: betFee, nextBet: 1}
	c.ms = marketkeeper.NewMsgServerImpl(*e.App.MarketKeeper)
	c.hs = housekeeper.NewMsgServerImpl(*e.App.HouseKeeper)
	c.bs = betkeeper.NewMsgServerImpl(*e.App.BetKeeper)
	out.Op("N %d", h)
	out.Impl("n %d", h)
	bp := e.App.BetKeeper.GetParams(e.Ctx)
	bp.BatchSettlementCount = betBatch
	bp.Constraints.MinAmount = sdkmath.NewInt(betMin)
	bp.Constraints.Fee = sdkmath.NewInt(betFee)
	e.App.BetKeeper.SetParams(e.Ctx, bp)
	hp := e.App.HouseKeeper.GetParams(e.Ctx)
	hp.MinDeposit = sdkmath.NewInt(minDeposit)
	hp.HouseParticipationFee = sdkmath.LegacyNewDecWithPrec(houseFeeRaw, 18)
	hp.MaxWithdrawalCount = 2
	e.App.HouseKeeper.SetParams(e.Ctx, hp)
	op := e.App.OrderbookKeeper.GetParams(e.Ctx)
	op.MaxOrderBookParticipations = 100
	op.BatchSettlementCount = obBatch
	op.RequeueThreshold = thr
	e.App.OrderbookKeeper.SetParams(e.Ctx, op)
	c.pBetBatch, c.pBetMin, c.pMinDeposit, c.pHouseFee, c.pMaxW, c.pMaxPart, c.pObBatch, c.pThr = betBatch, betMin, minDeposit, houseFeeRaw, 2, 100, obBatch, thr
	out.Op("PARAMS %d %d %d %d %d %d %d %d %d", betBatch, betMin, betFee, minDeposit, houseFeeRaw, 2, 100, obBatch, thr)
	for i, a := range e.Accts {
		out.Op("BAL %d %s", i, e.Bal(a))
	}
	c.height, c.now = 2, BaseTime+100
	e.SetBlock(c.height, c.now)
	out.Op("T %d %d", c.height, c.now)
	coreReset(h)
	return c
}

func (c *coreScript) finish(err error) {
	if err != nil {
		c.out.Impl("r err")
	} else {
		c.out.Impl("r ok")
	}
	d := dumpCore(c.e, c.ix)
	for _, l := range d.lines {
		c.out.Impl("%s", l)
	}
	coreMonitors(c.out, c.h, c.e, c.ix, d, c.markets, false)
}

func (c *coreScript) market(nOdds int) *coreMarket {
	mn := len(c.markets) + 1
	var oddsU, on []string
	var oddsJ []map[string]interface{}
	for k := 1; k <= nOdds; k++ {
		u := UID(clsOdds, mn*10+k)
		oddsU = append(oddsU, u)
		on = append(on, fmt.Sprint(uidN(u)))
		oddsJ = append(oddsJ, map[string]interface{}{"uid": u, "meta": "o"})
	}
	start, end := uint64(c.now-10), uint64(c.now+5000)
	tk := c.e.Ticket(0, map[string]interface{}{"uid": UID(clsMarket, mn), "start_ts": start, "end_ts": end, "odds": oddsJ, "status": 1, "meta": "m"})
	c.out.Op("MA 0 1 %d %d %d 1 %d %s", mn, start, end, len(on), strings.Join(on, " "))
	err, _ := c.e.Tx(func(ctx sdk.Context) error {
		_, err := c.ms.Add(sdk.WrapSDKContext(ctx), &markettypes.MsgAdd{Creator: c.e.Accts[0].String(), Ticket: tk})
		return err
	})
	m := &coreMarket{n: mn, uid: UID(clsMarket, mn), odds: oddsU}
	c.markets = append(c.markets, m)
	c.finish(err)
	return m
}

func (c *coreScript) deposit(m *coreMarket, who int, amount int64) {
	tk := c.e.Ticket(0, map[string]interface{}{"kyc_data": map[string]interface{}{"ignore": true, "approved": false, "id": ""}})
	c.out.Op("HD %d 1 1 0 999999 %d %d 0", who, m.n, amount)
	err, _ := c.e.Tx(func(ctx sdk.Context) error {
		_, err := c.hs.Deposit(sdk.WrapSDKContext(ctx), &housetypes.MsgDeposit{Creator: c.e.Accts[who].String(), MarketUID: m.uid, Amount: sdkmath.NewInt(amount), Ticket: tk})
		return err
	})
	c.finish(err)
}

// grant saves an authz grant granter -> grantee (kind 0 deposit, 1 withdraw) that expires `ttl` seconds from now.
func (c *coreScript) grant(granter, grantee, kind int, limit, ttl int64) {
	var a authz.Authorization
	if kind == 0 {
		a = &housetypes.DepositAuthorization{SpendLimit: sdkmath.NewInt(limit)}
	} else {
		a = &housetypes.WithdrawAuthorization{WithdrawLimit: sdkmath.NewInt(limit)}
	}
	t := time.Unix(c.now+ttl, 0).UTC()
	if err := c.e.App.AuthzKeeper.SaveGrant(c.e.Ctx, c.e.Accts[grantee], c.e.Accts[granter], a, &t); err != nil {
		panic(err)
	}
	c.out.Op("GR %d %d %d %d %d", granter, grantee, kind, limit, t.Unix())
	noteGrant(c.h, granter, grantee, kind, limit, t.Unix())
}

// depositFor: MsgDeposit signed by `creator` whose ticket names `pd` as the depositor (delegated deposit).
func (c *coreScript) depositFor(m *coreMarket, creator, pd int, amount int64) {
	tk := c.e.Ticket(0, map[string]interface{}{"kyc_data": map[string]interface{}{"ignore": true, "approved": false, "id": ""}, "depositor_address": c.e.Accts[pd].String()})
	c.out.Op("HD %d 1 1 0 999999 %d %d %d", creator, m.n, amount, pd)
	pre := captureHouse(c.e, pd, creator, 0, m.uid, 0)
	err, _ := c.e.Tx(func(ctx sdk.Context) error {
		_, err := c.hs.Deposit(sdk.WrapSDKContext(ctx), &housetypes.MsgDeposit{Creator: c.e.Accts[creator].String(), MarketUID: m.uid, Amount: sdkmath.NewInt(amount), Ticket: tk})
		return err
	})
	c.finish(err)
	if err == nil {
		depositMonitor(c.out, c.h, c.e, c.ix, pre, creator, pd, sdkmath.NewInt(amount), m.uid)
	}
}

func (c *coreScript) wager(m *coreMarket, who, outcome int, oddsDec string, amount int64) {
	ov := sdkmath.LegacyMustNewDecFromStr(oddsDec)
	var all []map[string]interface{}
	var allOp []string
	for _, o := range m.odds {
		all = append(all, map[string]interface{}{"uid": o, "max_loss_multiplier": "1"})
		allOp = append(allOp, fmt.Sprintf("%d 1000000000000000000", uidN(o)))
	}
	sel := m.odds[outcome]
	tk := c.e.Ticket(0, map[string]interface{}{
		"selected_odds": map[string]interface{}{"uid": sel, "market_uid": m.uid, "value": oddsDec, "max_loss_multiplier": "1"},
		"kyc_data":      map[string]interface{}{"ignore": true, "approved": false, "id": ""}, "all_odds": all,
		"meta": map[string]interface{}{"selected_odds_type": 1, "selected_odds_value": oddsDec, "is_main_market": false},
	})
	bn := c.nextBet
	bettorBefore := c.e.Bal(c.e.Accts[who])
	c.out.Op("W %d 1 1 0 999999 %d %d %d %d %s 1000000000000000000 1 %d %s", who, bn, amount, m.n, uidN(sel), decRaw(ov), len(allOp), strings.Join(allOp, " "))
	err, _ := c.e.Tx(func(ctx sdk.Context) error {
		_, err := c.bs.Wager(sdk.WrapSDKContext(ctx), &bettypes.MsgWager{Creator: c.e.Accts[who].String(), Props: &bettypes.WagerProps{UID: UID(clsBet, bn), Amount: sdkmath.NewInt(amount), Ticket: tk}})
		return err
	})
	if err == nil {
		c.nextBet++
		coreSeen.request[UID(clsBet, bn)] = sdkmath.NewInt(amount - c.fee)
		coreSeen.charged[UID(clsBet, bn)] = bettorBefore.Sub(c.e.Bal(c.e.Accts[who]))
	}
	c.finish(err)
}

func (c *coreScript) resolve(m *coreMarket, status int, winner int) {
	winners := []string{}
	var wn []string
	if status == 5 {
		winners = []string{m.odds[winner]}
		wn = []string{fmt.Sprint(uidN(m.odds[winner]))}
	}
	ts := uint64(c.now)
	tk := c.e.Ticket(0, map[string]interface{}{"uid": m.uid, "resolution_ts": ts, "winner_odds_uids": winners, "status": status})
	c.out.Op("MR 1 %d %d %d %d %s", m.n, ts, status, len(wn), strings.Join(wn, " "))
	err, _ := c.e.Tx(func(ctx sdk.Context) error {
		_, err := c.ms.Resolve(sdk.WrapSDKContext(ctx), &markettypes.MsgResolve{Creator: c.e.Accts[0].String(), Ticket: tk})
		return err
	})
	if err == nil {
		m.resolved = true
	}
	c.finish(err)
	if err == nil {
		noteResolved(c.e, dumpCore(c.e, c.ix), m.uid)
	}
}

func (c *coreScript) withdraw(m *coreMarket, who int, idx uint64, mode int, amount int64) {
	tk := c.e.Ticket(0, map[string]interface{}{"kyc_data": map[string]interface{}{"ignore": true, "approved": false, "id": ""}})
	c.out.Op("HW %d 1 1 0 999999 %d %d %d %d 0", who, m.n, idx, mode, amount)
	pre := captureHouse(c.e, 0, who, 1, m.uid, idx)
	err, _ := c.e.Tx(func(ctx sdk.Context) error {
		_, err := c.hs.Withdraw(sdk.WrapSDKContext(ctx), &housetypes.MsgWithdraw{Creator: c.e.Accts[who].String(), MarketUID: m.uid, ParticipationIndex: idx,
			Mode: housetypes.WithdrawalMode(mode), Amount: sdkmath.NewInt(amount), Ticket: tk})
		return err
	})
	c.finish(err)
	if err == nil {
		withdrawMonitor(c.out, c.h, c.e, c.ix, pre, who, 0, m.uid, idx)
	}
}

// setMaxWithdrawals: governance changes the house parameter MaxWithdrawalCount in mid-history
func (c *coreScript) setMaxWithdrawals(n uint64) {
	hp := c.e.App.HouseKeeper.GetParams(c.e.Ctx)
	hp.MaxWithdrawalCount = n
	c.e.App.HouseKeeper.SetParams(c.e.Ctx, hp)
	c.pMaxW = n
	c.out.Op("PARAMS %d %d %d %d %d %d %d %d %d", c.pBetBatch, c.pBetMin, c.fee, c.pMinDeposit, c.pHouseFee, c.pMaxW, c.pMaxPart, c.pObBatch, c.pThr)
}

// setBetFee: governance changes the wager fee in mid-history (bets already placed keep the fee recorded on them)
func (c *coreScript) setBetFee(fee int64) {
	bp := c.e.App.BetKeeper.GetParams(c.e.Ctx)
	bp.Constraints.Fee = sdkmath.NewInt(fee)
	c.e.App.BetKeeper.SetParams(c.e.Ctx, bp)
	c.fee = fee
	c.out.Op("PARAMS %d %d %d %d %d %d %d %d %d", c.pBetBatch, c.pBetMin, c.fee, c.pMinDeposit, c.pHouseFee, c.pMaxW, c.pMaxPart, c.pObBatch, c.pThr)
}

func (c *coreScript) endBlock() {
	c.out.Op("EB")
	preD := dumpCore(c.e, c.ix)
	preBal := userBalances(c.e)
	halt, what := c.e.Block(func(ctx sdk.Context) {
		bet.EndBlocker(ctx, *c.e.App.BetKeeper)
		orderbook.EndBlocker(ctx, *c.e.App.OrderbookKeeper)
	})
	if halt {
		c.out.Impl("r halt")
		c.out.Fail(MonFail{Property: "C05", Monitor: "endblock_no_halt", Class: classifyHalt(what), History: c.h, Detail: "end-blocker panicked: " + trunc(what, 300)})
	} else {
		c.out.Impl("r ok")
	}
	d := dumpCore(c.e, c.ix)
	for _, l := range d.lines {
		c.out.Impl("%s", l)
	}
	coreMonitors(c.out, c.h, c.e, c.ix, d, c.markets, true)
	if !halt {
		endBlockMonitors(c.out, c.h, c.e, c.ix, preD, d, preBal, userBalances(c.e))
		settleBoundMonitor(c.out, c.h, c.e, d)
	}
	c.height++
	c.now += 5
	c.e.SetBlock(c.height, c.now)
	c.out.Op("T %d %d", c.height, c.now)
}

func runCoreScripted(seed uint64, n int, out *Out) {
	scripts := []func(h int){
		// 0: KF-C03-negative-part — participations with liquidity 5,2,2,2,2,1000, odds 10, stake 22 − fee 1:
		//    parts 1,0,0,−1,−1,22; then a bet on the other outcome that reaches participation 4 (KF-C02-negative-stake)
		func(h int) {
			c := newCoreScript(out, h, 2, 0, 2, 1, 0, 1000, 100)
			m := c.market(2)
			for i, l := range []int64{5, 2, 2, 2, 2, 1000} {
				c.deposit(m, 1+i%5, l)
			}
			c.wager(m, 6, 0, "10", 22)
			c.wager(m, 7, 1, "2", 12)
			c.endBlock()
		},
		// 1: KF-C03-taken-exceeds-requested — liquidity 2,2,5,4,5,1000, odds 3, amount 10 − fee 1 = stake 9: parts sum to 10
		func(h int) {
			c := newCoreScript(out, h, 2, 0, 2, 1, 0, 1000, 100)
			m := c.market(2)
			for i, l := range []int64{2, 2, 5, 4, 5, 1000} {
				c.deposit(m, 1+i%5, l)
			}
			c.wager(m, 6, 0, "3", 10)
			c.endBlock()
		},
		// 2: fixed regression history of FX-C03-recorded-stake: a zero-part bet on a market that is then cancelled
		func(h int) {
			c := newCoreScript(out, h, 100, 0, 2, 1, 0, 1000, 100)
			m := c.market(2)
			c.deposit(m, 1, 1000)
			c.wager(m, 6, 0, "1.000000000000000610", 49)
			c.wager(m, 7, 1, "1.5", 492)
			c.endBlock()
			c.resolve(m, 3, 0)
			c.endBlock()
			c.endBlock()
		},
		// 3: plain life cycle, several bets, declared result, batch size 1 (settlement spread over blocks)
		func(h int) {
			c := newCoreScript(out, h, 100, 100000000000000000, 2, 1, 5, 1, 1)
			m := c.market(3)
			c.deposit(m, 1, 1000)
			c.deposit(m, 2, 500)
			c.wager(m, 6, 0, "2.5", 100)
			c.wager(m, 7, 1, "3", 150)
			c.wager(m, 8, 2, "1.2", 1000)
			c.endBlock()
			c.resolve(m, 5, 1)
			for i := 0; i < 8; i++ {
				c.endBlock()
			}
		},
		// 4: bets on two outcomes of one participation in the same round (the second outcome becomes the worst case
		//    without being the tracked one), then a full withdrawal, then the second outcome wins
		func(h int) {
			c := newCoreScript(out, h, 100, 0, 2, 1, 0, 1000, 100)
			m := c.market(2)
			c.deposit(m, 1, 10000)
			c.wager(m, 6, 0, "5", 1001)
			c.wager(m, 7, 1, "5.5", 1001)
			c.withdraw(m, 1, 1, 1, 0)
			c.endBlock()
			c.resolve(m, 5, 1)
			c.endBlock()
			c.endBlock()
		},
		// 5: a participation is used up on both outcomes and re-queued, then sits unused; declared result
		//    (fee routing of a re-queued participation) and, on a second market, cancellation after a re-queue
		func(h int) {
			c := newCoreScript(out, h, 100, 100000000000000000, 2, 1, 0, 1000, 100)
			m := c.market(2)
			c.deposit(m, 1, 10000)
			c.deposit(m, 2, 10000)
			c.wager(m, 6, 0, "2", 9001)
			c.wager(m, 7, 1, "3", 4501)
			m2 := c.market(2)
			c.deposit(m2, 3, 10000)
			c.wager(m2, 8, 0, "2", 9001)
			c.wager(m2, 9, 1, "3", 4501)
			c.endBlock()
			c.resolve(m, 5, 0)
			c.resolve(m2, 3, 0)
			c.endBlock()
			c.endBlock()
			c.endBlock()
		},
		// 6: KF-C05-negative-payout-halt — consequence of the doubled carry: odds 101, liquidity 51,100,150,200,250,300,2,1000:
		//    the carry walks to -2.68 and the seventh part gets stake -3 for a promised profit of 2; when the bettor
		//    wins, BettorWins pays stake+profit = -1 and the end-blocker panics ("negative coin amount")
		func(h int) {
			c := newCoreScript(out, h, 2, 0, 2, 1, 0, 1000, 100)
			m := c.market(2)
			for i, l := range []int64{51, 100, 150, 200, 250, 300, 2, 1000} {
				c.deposit(m, 1+i%5, l)
			}
			c.wager(m, 6, 0, "101", 12)
			c.endBlock()
			c.resolve(m, 5, 0)
			c.endBlock()
		},
		// 7: the hand-over corner of the settlement bound (c05_ceil_bound_counterexample): order-book batch size 1, two
		//    markets without bets, one deposit on the first, both cancelled in one block: the first end-block pays the
		//    participation and uses up the budget, the empty second book is only closed by the second end-block
		func(h int) {
			c := newCoreScript(out, h, 100, 0, 2, 1, 0, 1, 1)
			m1 := c.market(2)
			m2 := c.market(2)
			c.deposit(m1, 1, 1000)
			c.endBlock()
			c.resolve(m1, 3, 0)
			c.resolve(m2, 3, 0)
			c.endBlock()
			c.endBlock()
			c.endBlock()
		},
		// 8: c02_counterexample_loss_exceeds_deposit — history 0 continued: outcome 2 is declared; participation 4
		//    (deposit 2) has lost 3 and the order-book end-blocker halts on its negative payout
		func(h int) {
			c := newCoreScript(out, h, 2, 0, 2, 1, 0, 1000, 100)
			m := c.market(2)
			for i, l := range []int64{5, 2, 2, 2, 2, 1000} {
				c.deposit(m, 1+i%5, l)
			}
			c.wager(m, 6, 0, "10", 22)
			c.wager(m, 7, 1, "2", 12)
			c.endBlock()
			c.resolve(m, 5, 1)
			c.endBlock()
		},
		// 9: a deposit grant is used in part, then outlives neither its expiry nor its limit: the second delegated deposit
		//    after the expiry must be refused, and so must one above what is left
		func(h int) {
			c := newCoreScript(out, h, 100, 0, 2, 1, 0, 1000, 100)
			m := c.market(2)
			c.grant(1, 2, 0, 1000, 12)
			c.depositFor(m, 2, 1, 400)
			c.depositFor(m, 2, 1, 700) // more than the 600 left
			c.endBlock()
			c.endBlock()
			c.endBlock() // 15 s later: past the expiry
			c.depositFor(m, 2, 1, 300)
			c.grant(1, 2, 0, 500, 100)
			c.depositFor(m, 2, 1, 500) // uses the grant up exactly
			c.depositFor(m, 2, 1, 100)
			c.endBlock()
			// at exactly the expiry time a grant can still be used up, but not used in part (authz refuses to save a
			// grant whose expiration is not after the block time)
			c.grant(1, 2, 0, 500, 10)
			c.endBlock()
			c.endBlock() // 10 s later: block time = expiry
			c.depositFor(m, 2, 1, 200)
			c.depositFor(m, 2, 1, 500)
			c.endBlock()
		},
		// 10: the withdrawal limit is lowered below the number of withdrawals a deposit already made: every further
		//     withdrawal of that deposit is refused; raised again, exactly the difference is allowed
		func(h int) {
			c := newCoreScript(out, h, 100, 0, 2, 1, 0, 1000, 100)
			m := c.market(2)
			c.deposit(m, 1, 10000)
			c.setMaxWithdrawals(3)
			c.withdraw(m, 1, 1, 2, 100)
			c.withdraw(m, 1, 1, 2, 100)
			c.setMaxWithdrawals(1)
			c.withdraw(m, 1, 1, 2, 100)
			c.withdraw(m, 1, 1, 1, 0)
			c.setMaxWithdrawals(3)
			c.withdraw(m, 1, 1, 2, 100)
			c.withdraw(m, 1, 1, 2, 100)
			c.endBlock()
		},
		// 11: the wager fee changes while bets are pending: bets placed at fee 0, then the fee is raised, more bets, one
		//     market declared and one cancelled; then the other direction (placed at fee 2, fee lowered to 0). Every bet
		//     settles and refunds with the fee recorded on it, not with the parameter of the day
		func(h int) {
			c := newCoreScript(out, h, 100, 0, 5, 0, 0, 1, 1)
			m1 := c.market(2)
			m2 := c.market(2)
			c.deposit(m1, 1, 10000)
			c.deposit(m2, 2, 10000)
			c.wager(m1, 6, 0, "2", 100)
			c.wager(m2, 7, 0, "2", 100)
			c.setBetFee(2)
			c.wager(m1, 8, 1, "3", 100)
			c.wager(m2, 9, 1, "3", 100)
			c.endBlock()
			c.resolve(m1, 5, 0)
			c.resolve(m2, 3, 0)
			for i := 0; i < 6; i++ {
				c.endBlock()
			}
			m3 := c.market(2)
			c.deposit(m3, 3, 10000)
			c.wager(m3, 6, 0, "2", 100)
			c.setBetFee(0)
			c.wager(m3, 7, 1, "2", 100)
			c.resolve(m3, 4, 0)
			for i := 0; i < 4; i++ {
				c.endBlock()
			}
		},
		// 12: two markets share the pool. On market 1 one participation backs a large bet on outcome 1 and two small bets
		//     on outcome 2, then its depositor withdraws all that is withdrawable, then outcome 1 wins: what market 1 pays
		//     out must come from what is held for market 1 (the worst-case loss stays locked through the withdrawal)
		func(h int) {
			c := newCoreScript(out, h, 100, 0, 2, 1, 0, 1000, 100)
			m1 := c.market(2)
			m2 := c.market(2)
			c.deposit(m2, 2, 10000)
			c.deposit(m1, 1, 10000)
			c.wager(m1, 6, 0, "5", 1001)
			c.wager(m1, 7, 1, "2", 101)
			c.wager(m1, 8, 1, "2", 101)
			c.withdraw(m1, 1, 1, 1, 0)
			c.endBlock()
			c.resolve(m1, 5, 0)
			c.endBlock()
			c.endBlock()
			c.resolve(m2, 3, 0)
			c.endBlock()
			c.endBlock()
		},
		// 13: settlement of one market spread over several blocks (batch sizes 1): the losing bet is settled first, then the
		//     depositor withdraws all that is withdrawable while the winning bet is still pending, then the winner is paid:
		//     the worst-case loss stays locked until the participation itself is settled
		func(h int) {
			c := newCoreScript(out, h, 100, 0, 2, 1, 0, 1, 1)
			m := c.market(2)
			c.deposit(m, 1, 10000)
			c.wager(m, 6, 0, "2", 1001)
			c.wager(m, 7, 1, "10", 501)
			c.endBlock()
			c.resolve(m, 5, 1)
			c.endBlock()
			c.withdraw(m, 1, 1, 1, 0)
			c.endBlock()
			c.endBlock()
			c.endBlock()
		},
		// 14: a big market under the default-sized budgets (bet batch 1000, order-book batch 100): 300 pending bets on
		//     two outcomes are resolved at once; every one of them must be settled by the first end-block after the
		//     resolution (the bound is ⌊300/1000⌋ + ⌊1/100⌋ + 1 = 1), whatever page size the implementation reads by
		func(h int) {
			c := newCoreScript(out, h, 100, 0, 2, 1, 0, 1000, 100)
			m := c.market(2)
			c.deposit(m, 1, 900000)
			for i := 0; i < 300; i++ {
				c.wager(m, 6+i%2, i%2, "2", 51)
			}
			c.endBlock()
			c.resolve(m, 5, 1)
			c.endBlock()
			c.endBlock()
			c.endBlock()
		},
	}
	for h, f := range scripts {
		if skipHist(h) {
			continue
		}
		f(h)
	}
}
