package harness

// C17 — parameters accepted by validation keep the chain live and the ledgers sound.
//
// Suite "params" (model driver drv_params):
//   history 0..4   VALIDATOR DIFFERENTIAL, exhaustive over a boundary lattice of every parameter of every module:
//                  the real Params.Validate(), the real per-field validators (ParamSetPairs().ValidatorFn), the real
//                  MsgUpdateParams handler with the gov authority and with a wrong authority, MsgUpdateParams.
//                  ValidateBasic, GenesisState.Validate and InitGenesis, and the legacy x/params
//                  ParameterChangeProposal handler, each compared with the verdict of lean/Sge/Params.lean.
//   history 5      the two switches of x/subaccount on a real subaccount wager / house deposit.
//   history 6..    BEHAVIOUR of x/mint under accepted extremes: one accepted lattice point per history, installed
//                  through the real MsgUpdateParams handler (at genesis or a few blocks into the chain), then the
//                  real BeginBlocker over the first blocks and all phase boundaries.
// Suite "params_core" (suite_params_core.go, model driver drv_core): bet / house / orderbook extremes.
//
// Monitors (Property C17): no_halt, no_zero_divisor, no_negative_amount, fee_le_amount, ledgers_sound.

import (
	"fmt"
	"math/big"
	"os"
	"reflect"
	"strings"

	sdkmath "cosmossdk.io/math"
	sdk "github.com/cosmos/cosmos-sdk/types"
	authtypes "github.com/cosmos/cosmos-sdk/x/auth/types"
	govtypes "github.com/cosmos/cosmos-sdk/x/gov/types"
	paramsmod "github.com/cosmos/cosmos-sdk/x/params"
	paramtypes "github.com/cosmos/cosmos-sdk/x/params/types"
	paramproposal "github.com/cosmos/cosmos-sdk/x/params/types/proposal"

	appparams "github.com/sge-network/sge/app/params"
	"github.com/sge-network/sge/x/bet"
	betkeeper "github.com/sge-network/sge/x/bet/keeper"
	bettypes "github.com/sge-network/sge/x/bet/types"
	"github.com/sge-network/sge/x/house"
	housekeeper "github.com/sge-network/sge/x/house/keeper"
	housetypes "github.com/sge-network/sge/x/house/types"
	marketkeeper "github.com/sge-network/sge/x/market/keeper"
	markettypes "github.com/sge-network/sge/x/market/types"
	"github.com/sge-network/sge/x/mint"
	mintkeeper "github.com/sge-network/sge/x/mint/keeper"
	minttypes "github.com/sge-network/sge/x/mint/types"
	"github.com/sge-network/sge/x/orderbook"
	obkeeper "github.com/sge-network/sge/x/orderbook/keeper"
	obtypes "github.com/sge-network/sge/x/orderbook/types"
	ovmkeeper "github.com/sge-network/sge/x/ovm/keeper"
	ovmtypes "github.com/sge-network/sge/x/ovm/types"
	rewardkeeper "github.com/sge-network/sge/x/reward/keeper"
	rewardtypes "github.com/sge-network/sge/x/reward/types"
	"github.com/sge-network/sge/x/subaccount"
	subkeeper "github.com/sge-network/sge/x/subaccount/keeper"
	subtypes "github.com/sge-network/sge/x/subaccount/types"
)

func init() { suites["params"] = runParams }

const paramsFixedHistories = 6

// ---------------------------------------------------------------------------------------------
// which repo_patches/params_*.diff does /repo contain? (probed on the real validators, overridable)

type paramsCfg struct{ mintValidate, mintClamp, betFee, house, houseFeeCap int }

func mkPhase(infl, coef string) minttypes.Phase {
	return minttypes.Phase{Inflation: sdkmath.LegacyMustNewDecFromStr(infl), YearCoefficient: sdkmath.LegacyMustNewDecFromStr(coef)}
}

func probeParamsCfg() paramsCfg {
	var c paramsCfg
	mp := minttypes.Params{MintDenom: appparams.DefaultBondDenom, BlocksPerYear: 1, ExcludeAmount: sdkmath.ZeroInt(), Phases: []minttypes.Phase{mkPhase("0.1", "0.5")}}
	mn := minttypes.Params{MintDenom: appparams.DefaultBondDenom, BlocksPerYear: 10, ExcludeAmount: sdkmath.ZeroInt(), Phases: []minttypes.Phase{mkPhase("-0.1", "1")}}
	if mp.Validate() != nil && mn.Validate() != nil {
		c.mintValidate = 1
	}
	m := minttypes.Minter{Inflation: sdkmath.LegacyMustNewDecFromStr("0.1")}
	if !m.NextPhaseProvisions(sdkmath.NewInt(100), sdkmath.NewInt(200), mkPhase("0.1", "1")).IsNegative() {
		c.mintClamp = 1
	}
	bp := bettypes.DefaultParams()
	bp.Constraints = bettypes.Constraints{MinAmount: sdkmath.NewInt(10), Fee: sdkmath.NewInt(10)}
	if bp.Validate() != nil {
		c.betFee = 1
	}
	hp := housetypes.DefaultParams()
	hp.MaxWithdrawalCount = 0
	if hp.Validate() != nil {
		c.house = 1
	}
	hp2 := housetypes.DefaultParams()
	hp2.HouseParticipationFee = sdkmath.LegacyNewDec(2)
	if hp2.Validate() != nil {
		c.houseFeeCap = 1
	}
	c.houseFeeCap = int(envInt("VERIF_PARAMS_HOUSE_FEE_CAP", int64(c.houseFeeCap)))
	c.mintValidate = int(envInt("VERIF_PARAMS_MINT_VALIDATE", int64(c.mintValidate)))
	c.mintClamp = int(envInt("VERIF_PARAMS_MINT_CLAMP", int64(c.mintClamp)))
	c.betFee = int(envInt("VERIF_PARAMS_BET_FEE", int64(c.betFee)))
	c.house = int(envInt("VERIF_PARAMS_HOUSE", int64(c.house)))
	return c
}

func (c paramsCfg) emit(out *Out) {
	out.Op("CFG mintValidate %d", c.mintValidate)
	out.Op("CFG mintClamp %d", c.mintClamp)
	out.Op("CFG betFee %d", c.betFee)
	out.Op("CFG house %d", c.house)
	out.Op("CFG houseFeeCap %d", c.houseFeeCap)
}

// ---------------------------------------------------------------------------------------------
// lattice values

type latInt struct {
	tok string
	v   sdkmath.Int
}
type latDec struct {
	tok string // raw 18-digit integer, or "nil"
	v   sdkmath.LegacyDec
}

func pow2(n uint) *big.Int { return new(big.Int).Lsh(big.NewInt(1), n) }

func li(v int64) latInt { return latInt{fmt.Sprint(v), sdkmath.NewInt(v)} }
func lbig(b *big.Int) latInt {
	return latInt{b.String(), sdkmath.NewIntFromBigInt(b)}
}
func lnil() latInt { return latInt{"nil", sdkmath.Int{}} }
func ld(s string) latDec {
	d := sdkmath.LegacyMustNewDecFromStr(s)
	return latDec{d.BigInt().String(), d}
}
func ldnil() latDec { return latDec{"nil", sdkmath.LegacyDec{}} }

func dedupInt(xs []latInt) []latInt {
	seen := map[string]bool{}
	var r []latInt
	for _, x := range xs {
		if !seen[x.tok] {
			seen[x.tok] = true
			r = append(r, x)
		}
	}
	return r
}

const u64max = ^uint64(0)
const u32max = ^uint32(0)

// ---------------------------------------------------------------------------------------------
// one lattice point of one module, seen through every entry point

func safeOK(f func() error) (ok bool, what string) {
	defer func() {
		if r := recover(); r != nil {
			ok, what = false, "panic: "+fmt.Sprint(r)
		}
	}()
	if err := f(); err != nil {
		return false, err.Error()
	}
	return true, ""
}

func pairValue(p paramtypes.ParamSetPair) interface{} {
	return reflect.Indirect(reflect.ValueOf(p.Value)).Interface()
}

type paramsPoint struct {
	module        string
	op            string // token list after "V <module>"
	validate      func() error
	pairs         paramtypes.ParamSetPairs
	validateBasic func(authority string) error
	update        func(ctx sdk.Context, authority string) error
	genValidate   func() error
	genInit       func(ctx sdk.Context) // nil: not exercised
	fieldNames    []string
}

var govAuthority = authtypes.NewModuleAddress(govtypes.ModuleName).String()

// diffPoint prints `v <Validate> <fields> <update right authority> <update wrong authority> <ValidateBasic> <genesis Validate> <InitGenesis>`
func diffPoint(out *Out, h int, e *Env, pt paramsPoint) (accepted bool) {
	out.Op("V %s%s", pt.module, pt.op)
	v, _ := safeOK(pt.validate)
	fields := ""
	allFields := true
	firstBad := ""
	for i, p := range pt.pairs {
		p := p
		ok, _ := safeOK(func() error { return p.ValidatorFn(pairValue(p)) })
		fields += fmt.Sprint(b2i(ok))
		if !ok && allFields {
			allFields = false
			if i < len(pt.fieldNames) {
				firstBad = pt.fieldNames[i]
			}
		}
	}
	tryUpdate := func(authority string) bool {
		cctx, _ := e.Ctx.CacheContext()
		ok, _ := safeOK(func() error { return pt.update(cctx, authority) })
		return ok
	}
	u := tryUpdate(govAuthority)
	w := tryUpdate(e.Accts[0].String())
	b, _ := safeOK(func() error { return pt.validateBasic(govAuthority) })
	g, _ := safeOK(pt.genValidate)
	ini := g && v && allFields
	if g && pt.genInit != nil {
		cctx, _ := e.Ctx.CacheContext()
		var what string
		ini, what = safeOK(func() error { pt.genInit(cctx); return nil })
		if !ini {
			// a genesis file that passes validation and then aborts InitChain: the chain cannot start
			out.Fail(MonFail{Property: "C17", Monitor: "no_halt", Class: pt.module + "/initgenesis-panics-on-validated-genesis/" + firstBad, History: h,
				Detail: fmt.Sprintf("GenesisState.Validate accepts %s%s but InitGenesis panics: %s", pt.module, pt.op, trunc(what, 200))})
		}
	}
	out.Impl("v %d %s %d %d", b2i(v), fields, b2i(u), b2i(w))
	out.Impl("x %d %d %d", b2i(b), b2i(g), b2i(ini))
	out.Count("diff." + pt.module)
	if u {
		out.Count("diff." + pt.module + ".accepted")
	}
	return u
}

// legacyPoint: one field through the x/params ParameterChangeProposal handler (per-field validator only)
func legacyPoint(out *Out, e *Env, module, opRecord string, pairs paramtypes.ParamSetPairs, i int, rawJSON string) {
	p := pairs[i]
	val := rawJSON
	if val == "" {
		bz, err := e.App.LegacyAmino().MarshalJSON(pairValue(p))
		if err != nil {
			return
		}
		val = string(bz)
	}
	out.Op("L %s %d%s", module, i, opRecord)
	handler := paramsmod.NewParamChangeProposalHandler(e.App.ParamsKeeper)
	cctx, _ := e.Ctx.CacheContext()
	ok, _ := safeOK(func() error {
		return handler(cctx, paramproposal.NewParameterChangeProposal("t", "d", []paramproposal.ParamChange{paramproposal.NewParamChange(module, string(p.Key), val)}))
	})
	out.Impl("l %d", b2i(ok))
	out.Count("legacy." + module)
}

// ---------------------------------------------------------------------------------------------
// module adaptors

func betPoint(e *Env, p bettypes.Params, op string) paramsPoint {
	srv := betkeeper.NewMsgServerImpl(*e.App.BetKeeper)
	gs := bettypes.DefaultGenesis()
	gs.Params = p
	return paramsPoint{module: "bet", op: op, validate: p.Validate, pairs: p.ParamSetPairs(),
		fieldNames:    []string{"BatchSettlementCount", "MaxBetByUidQueryCount", "Constraints"},
		validateBasic: func(a string) error { return (&bettypes.MsgUpdateParams{Authority: a, Params: p}).ValidateBasic() },
		update: func(ctx sdk.Context, a string) error {
			_, err := srv.UpdateParams(sdk.WrapSDKContext(ctx), &bettypes.MsgUpdateParams{Authority: a, Params: p})
			return err
		},
		genValidate: gs.Validate,
		genInit:     func(ctx sdk.Context) { bet.InitGenesis(ctx, *e.App.BetKeeper, *gs) }}
}

func betOp(p bettypes.Params, minTok, feeTok string) string {
	return fmt.Sprintf(" %d %d %s %s", p.BatchSettlementCount, p.MaxBetByUidQueryCount, minTok, feeTok)
}

func housePoint(e *Env, p housetypes.Params, op string) paramsPoint {
	srv := housekeeper.NewMsgServerImpl(*e.App.HouseKeeper)
	gs := housetypes.DefaultGenesis()
	gs.Params = p
	return paramsPoint{module: "house", op: op, validate: p.Validate, pairs: p.ParamSetPairs(),
		fieldNames:    []string{"MinDeposit", "HouseParticipationFee", "MaxWithdrawalCount"},
		validateBasic: func(a string) error { return (&housetypes.MsgUpdateParams{Authority: a, Params: p}).ValidateBasic() },
		update: func(ctx sdk.Context, a string) error {
			_, err := srv.UpdateParams(sdk.WrapSDKContext(ctx), &housetypes.MsgUpdateParams{Authority: a, Params: p})
			return err
		},
		genValidate: gs.Validate,
		genInit:     func(ctx sdk.Context) { house.InitGenesis(ctx, *e.App.HouseKeeper, gs) }}
}

func obPoint(e *Env, p obtypes.Params) paramsPoint {
	srv := obkeeper.NewMsgServerImpl(*e.App.OrderbookKeeper)
	gs := obtypes.DefaultGenesis()
	gs.Params = p
	return paramsPoint{module: "orderbook", op: fmt.Sprintf(" %d %d %d", p.MaxOrderBookParticipations, p.BatchSettlementCount, p.RequeueThreshold),
		validate: p.Validate, pairs: p.ParamSetPairs(),
		fieldNames:    []string{"MaxOrderBookParticipations", "BatchSettlementCount", "RequeueThreshold"},
		validateBasic: func(a string) error { return (&obtypes.MsgUpdateParams{Authority: a, Params: p}).ValidateBasic() },
		update: func(ctx sdk.Context, a string) error {
			_, err := srv.UpdateParams(sdk.WrapSDKContext(ctx), &obtypes.MsgUpdateParams{Authority: a, Params: p})
			return err
		},
		genValidate: gs.Validate,
		genInit:     func(ctx sdk.Context) { orderbook.InitGenesis(ctx, *e.App.OrderbookKeeper, gs) }}
}

func subPoint(e *Env, p subtypes.Params) paramsPoint {
	srv := subkeeper.NewMsgServerImpl(*e.App.SubaccountKeeper)
	gs := subtypes.DefaultGenesis()
	gs.Params = p
	return paramsPoint{module: "subaccount", op: fmt.Sprintf(" %d %d", b2i(p.WagerEnabled), b2i(p.DepositEnabled)),
		validate: p.Validate, pairs: p.ParamSetPairs(), fieldNames: []string{"WagerEnabled", "DepositEnabled"},
		validateBasic: func(a string) error { return (&subtypes.MsgUpdateParams{Authority: a, Params: p}).ValidateBasic() },
		update: func(ctx sdk.Context, a string) error {
			_, err := srv.UpdateParams(sdk.WrapSDKContext(ctx), &subtypes.MsgUpdateParams{Authority: a, Params: p})
			return err
		},
		genValidate: gs.Validate,
		genInit:     func(ctx sdk.Context) { subaccount.InitGenesis(ctx, *e.App.SubaccountKeeper, *gs) }}
}

func emptyPoints(e *Env) []paramsPoint {
	rs := rewardkeeper.NewMsgServerImpl(*e.App.RewardKeeper)
	ms := marketkeeper.NewMsgServerImpl(*e.App.MarketKeeper)
	os := ovmkeeper.NewMsgServerImpl(*e.App.OVMKeeper)
	rp, mp, op := rewardtypes.DefaultParams(), markettypes.DefaultParams(), ovmtypes.DefaultParams()
	return []paramsPoint{
		{module: "reward", validate: rp.Validate, pairs: rp.ParamSetPairs(),
			validateBasic: func(a string) error { return (&rewardtypes.MsgUpdateParams{Authority: a, Params: rp}).ValidateBasic() },
			update: func(ctx sdk.Context, a string) error {
				_, err := rs.UpdateParams(sdk.WrapSDKContext(ctx), &rewardtypes.MsgUpdateParams{Authority: a, Params: rp})
				return err
			},
			genValidate: rewardtypes.DefaultGenesis().Validate},
		{module: "market", validate: mp.Validate, pairs: mp.ParamSetPairs(),
			validateBasic: func(a string) error { return (&markettypes.MsgUpdateParams{Authority: a, Params: mp}).ValidateBasic() },
			update: func(ctx sdk.Context, a string) error {
				_, err := ms.UpdateParams(sdk.WrapSDKContext(ctx), &markettypes.MsgUpdateParams{Authority: a, Params: mp})
				return err
			},
			genValidate: markettypes.DefaultGenesis().Validate},
		{module: "ovm", validate: op.Validate, pairs: op.ParamSetPairs(),
			validateBasic: func(a string) error { return (&ovmtypes.MsgUpdateParams{Authority: a, Params: op}).ValidateBasic() },
			update: func(ctx sdk.Context, a string) error {
				_, err := os.UpdateParams(sdk.WrapSDKContext(ctx), &ovmtypes.MsgUpdateParams{Authority: a, Params: op})
				return err
			},
			genValidate: func() error {
				gs := ovmtypes.GenesisState{KeyVault: ovmtypes.KeyVault{PublicKeys: e.OvmPub}, Params: op}
				return gs.Validate()
			}},
	}
}

func denomTok(s string) string {
	if s == "" {
		return "-"
	}
	var cs []string
	for _, r := range s {
		cs = append(cs, fmt.Sprint(int(r)))
	}
	return strings.Join(cs, ",")
}

type latPhase struct{ infl, coef latDec }

func mintOp(denom string, bpy int64, exTok string, phs []latPhase) string {
	var sb strings.Builder
	fmt.Fprintf(&sb, " %s %d %s %d", denomTok(denom), bpy, exTok, len(phs))
	for _, ph := range phs {
		fmt.Fprintf(&sb, " %s %s", ph.infl.tok, ph.coef.tok)
	}
	return sb.String()
}

func mintPoint(e *Env, denom string, bpy int64, ex latInt, phs []latPhase) paramsPoint {
	var phases []minttypes.Phase
	for _, ph := range phs {
		phases = append(phases, minttypes.Phase{Inflation: ph.infl.v, YearCoefficient: ph.coef.v})
	}
	p := minttypes.Params{MintDenom: denom, BlocksPerYear: bpy, ExcludeAmount: ex.v, Phases: phases}
	srv := mintkeeper.NewMsgServerImpl(e.App.MintKeeper)
	gs := minttypes.NewGenesisState(minttypes.DefaultInitialMinter(), p)
	return paramsPoint{module: "mint", op: mintOp(denom, bpy, ex.tok, phs), validate: p.Validate, pairs: p.ParamSetPairs(),
		fieldNames:    []string{"MintDenom", "BlocksPerYear", "Phases", "ExcludeAmount"},
		validateBasic: func(a string) error { return (&minttypes.MsgUpdateParams{Authority: a, Params: p}).ValidateBasic() },
		update: func(ctx sdk.Context, a string) error {
			_, err := srv.UpdateParams(sdk.WrapSDKContext(ctx), &minttypes.MsgUpdateParams{Authority: a, Params: p})
			return err
		},
		genValidate: gs.Validate,
		genInit:     func(ctx sdk.Context) { mint.InitGenesis(ctx, e.App.MintKeeper, *gs) }}
}

// ---------------------------------------------------------------------------------------------
// the lattices

func latBet() (batch, maxq []uint32, mins, fees []latInt) {
	batch = []uint32{0, 1, 2, 1000, u32max}
	maxq = []uint32{0, 1, 10, u32max}
	mins = dedupInt([]latInt{lnil(), lbig(new(big.Int).Neg(pow2(70))), li(-1), li(0), li(1), li(2), li(3), li(100), li(1000000), lbig(pow2(100))})
	fees = dedupInt([]latInt{lnil(), lbig(new(big.Int).Neg(pow2(70))), li(-1), li(0), li(1), li(2), li(3), li(99), li(100), li(101), li(999999), li(1000000), li(1000001), lbig(pow2(100))})
	return
}

func latHouse() (mins []latInt, fees []latDec, maxw []uint64) {
	mins = dedupInt([]latInt{lnil(), lbig(new(big.Int).Neg(pow2(70))), li(-1), li(0), li(1), li(2), li(3), li(100), lbig(pow2(100))})
	fees = []latDec{ldnil(), ld("-1"), ld("-0.000000000000000001"), ld("0"), ld("0.000000000000000001"), ld("0.1"), ld("0.5"),
		ld("0.999999999999999999"), ld("1"), ld("1.000000000000000001"), ld("1.5"), ld("100"), ld("100000000000000000000")}
	maxw = []uint64{0, 1, 2, u64max}
	return
}

func latOb() (maxp, batch, thr []uint64) {
	return []uint64{0, 1, 2, 100, u64max}, []uint64{0, 1, 2, 100, u64max}, []uint64{0, 1, 1000, u64max}
}

var mintInflLat = []latDec{ldnil(), ld("-0.1"), ld("-0.000000000000000001"), ld("0"), ld("0.000000000000000001"), ld("0.5"), ld("1"), ld("100")}
var mintCoefLat = []latDec{ldnil(), ld("-1"), ld("0"), ld("0.000000000000000001"), ld("0.3"), ld("0.5"), ld("1"), ld("1.5"), ld("100"), ld("18446744073709551615")}
var mintInflSmall = []latDec{ld("-0.1"), ld("0"), ld("0.5")}
var mintCoefSmall = []latDec{ld("0"), ld("0.000000000000000001"), ld("0.3"), ld("0.5"), ld("1"), ld("1.5"), ld("18446744073709551615")}
var mintBpyLat = []int64{-1, 0, 1, 2, 3, 100, minttypes.BlocksPerYear, 9223372036854775807}

func phaseLists(r *Rng, nTriples int) [][]latPhase {
	var ls [][]latPhase
	ls = append(ls, nil)
	var one []latPhase
	for _, i := range mintInflLat {
		for _, c := range mintCoefLat {
			one = append(one, latPhase{i, c})
		}
	}
	for _, p := range one {
		ls = append(ls, []latPhase{p})
	}
	var small []latPhase
	for _, i := range mintInflSmall {
		for _, c := range mintCoefSmall {
			small = append(small, latPhase{i, c})
		}
	}
	for _, a := range small {
		for _, b := range small {
			ls = append(ls, []latPhase{a, b})
		}
	}
	for k := 0; k < nTriples; k++ {
		ls = append(ls, []latPhase{small[r.Intn(len(small))], one[r.Intn(len(one))], small[r.Intn(len(small))]})
	}
	return ls
}

// ---------------------------------------------------------------------------------------------
// the differential sections

func paramsDiffBet(out *Out, h int, e *Env) {
	batch, maxq, mins, fees := latBet()
	for _, b := range batch {
		for _, q := range maxq {
			for _, m := range mins {
				for _, f := range fees {
					p := bettypes.Params{BatchSettlementCount: b, MaxBetByUidQueryCount: q, Constraints: bettypes.Constraints{MinAmount: m.v, Fee: f.v}}
					diffPoint(out, h, e, betPoint(e, p, betOp(p, m.tok, f.tok)))
				}
			}
		}
	}
	// legacy per-field path
	def := bettypes.DefaultParams()
	for _, b := range batch {
		p := def
		p.BatchSettlementCount = b
		legacyPoint(out, e, "bet", betOp(p, p.Constraints.MinAmount.String(), p.Constraints.Fee.String()), p.ParamSetPairs(), 0, "")
	}
	for _, q := range maxq {
		p := def
		p.MaxBetByUidQueryCount = q
		legacyPoint(out, e, "bet", betOp(p, p.Constraints.MinAmount.String(), p.Constraints.Fee.String()), p.ParamSetPairs(), 1, "")
	}
	for _, m := range mins {
		for _, f := range fees {
			if m.tok == "nil" || f.tok == "nil" {
				continue
			}
			p := def
			p.Constraints = bettypes.Constraints{MinAmount: m.v, Fee: f.v}
			legacyPoint(out, e, "bet", betOp(p, m.tok, f.tok), p.ParamSetPairs(), 2, "")
		}
	}
	// values outside the Go type: rejected by the decoder
	legacyPoint(out, e, "bet", " -1 10 1000000 100", def.ParamSetPairs(), 0, `"-1"`)
	legacyPoint(out, e, "bet", " 4294967296 10 1000000 100", def.ParamSetPairs(), 0, `"4294967296"`)
}

func houseOp(p housetypes.Params, minTok, feeTok string) string {
	return fmt.Sprintf(" %s %s %d", minTok, feeTok, p.MaxWithdrawalCount)
}

func paramsDiffHouse(out *Out, h int, e *Env) {
	mins, fees, maxw := latHouse()
	for _, m := range mins {
		for _, f := range fees {
			for _, w := range maxw {
				p := housetypes.Params{MinDeposit: m.v, HouseParticipationFee: f.v, MaxWithdrawalCount: w}
				diffPoint(out, h, e, housePoint(e, p, houseOp(p, m.tok, f.tok)))
			}
		}
	}
	def := housetypes.DefaultParams()
	defFee := decRaw(def.HouseParticipationFee)
	for _, m := range mins {
		if m.tok == "nil" {
			continue
		}
		p := def
		p.MinDeposit = m.v
		legacyPoint(out, e, "house", houseOp(p, m.tok, defFee), p.ParamSetPairs(), 0, "")
	}
	for _, f := range fees {
		if f.tok == "nil" {
			continue
		}
		p := def
		p.HouseParticipationFee = f.v
		legacyPoint(out, e, "house", houseOp(p, def.MinDeposit.String(), f.tok), p.ParamSetPairs(), 1, "")
	}
	for _, w := range maxw {
		p := def
		p.MaxWithdrawalCount = w
		legacyPoint(out, e, "house", houseOp(p, def.MinDeposit.String(), defFee), p.ParamSetPairs(), 2, "")
	}
	legacyPoint(out, e, "house", fmt.Sprintf(" %s %s -1", def.MinDeposit, defFee), def.ParamSetPairs(), 2, `"-1"`)
	legacyPoint(out, e, "house", fmt.Sprintf(" %s %s 18446744073709551616", def.MinDeposit, defFee), def.ParamSetPairs(), 2, `"18446744073709551616"`)
}

func paramsDiffOb(out *Out, h int, e *Env) {
	maxp, batch, thr := latOb()
	for _, a := range maxp {
		for _, b := range batch {
			for _, c := range thr {
				diffPoint(out, h, e, obPoint(e, obtypes.Params{MaxOrderBookParticipations: a, BatchSettlementCount: b, RequeueThreshold: c}))
			}
		}
	}
	def := obtypes.DefaultParams()
	for i, lat := range [][]uint64{maxp, batch, thr} {
		for _, v := range lat {
			p := def
			switch i {
			case 0:
				p.MaxOrderBookParticipations = v
			case 1:
				p.BatchSettlementCount = v
			default:
				p.RequeueThreshold = v
			}
			legacyPoint(out, e, "orderbook", obPoint(e, p).op, p.ParamSetPairs(), i, "")
		}
	}
	legacyPoint(out, e, "orderbook", " 100 100 -1", def.ParamSetPairs(), 2, `"-1"`)
}

func paramsDiffSmall(out *Out, h int, e *Env) {
	for _, w := range []bool{false, true} {
		for _, d := range []bool{false, true} {
			p := subtypes.Params{WagerEnabled: w, DepositEnabled: d}
			pt := subPoint(e, p)
			diffPoint(out, h, e, pt)
			legacyPoint(out, e, "subaccount", pt.op, p.ParamSetPairs(), 0, "")
			legacyPoint(out, e, "subaccount", pt.op, p.ParamSetPairs(), 1, "")
		}
	}
	for _, pt := range emptyPoints(e) {
		diffPoint(out, h, e, pt)
	}
}

var mintDenomLat = []string{"", " ", "usge", "u", "ab", "abc", "1usge", "usge!", " usge", "us ge", "ibc/27394FB092D2ECCD56123C74F36E4C1F926001CEADA9CA97EA622B25F41E5EB2",
	"a/:._-", "Usge9", "üsge", strings.Repeat("a", 128), strings.Repeat("a", 129)}

func paramsDiffMint(out *Out, h int, e *Env, seed uint64) {
	r := NewRng(seed*1_000_003 + 4)
	zero := li(0)
	defPh := []latPhase{{ld("0.1"), ld("0.5")}}
	// product BlocksPerYear × phase lists (the only cross-field dependency, and only with params_mint_validate.diff)
	lists := phaseLists(r, 300)
	for _, bpy := range mintBpyLat {
		for _, phs := range lists {
			diffPoint(out, h, e, mintPoint(e, appparams.DefaultBondDenom, bpy, zero, phs))
		}
	}
	for _, d := range mintDenomLat {
		diffPoint(out, h, e, mintPoint(e, d, 100, zero, defPh))
	}
	exs := []latInt{lnil(), lbig(new(big.Int).Neg(pow2(70))), li(-1), li(0), li(1), li(1000000), lbig(pow2(100))}
	for _, x := range exs {
		diffPoint(out, h, e, mintPoint(e, appparams.DefaultBondDenom, 100, x, defPh))
	}
	// legacy per-field path
	for _, d := range mintDenomLat {
		pt := mintPoint(e, d, 100, zero, defPh)
		legacyPoint(out, e, "mint", pt.op, pt.pairs, 0, "")
	}
	for _, bpy := range mintBpyLat {
		pt := mintPoint(e, appparams.DefaultBondDenom, bpy, zero, defPh)
		legacyPoint(out, e, "mint", pt.op, pt.pairs, 1, "")
	}
	for _, phs := range lists {
		hasNil := false
		for _, ph := range phs {
			if ph.infl.tok == "nil" || ph.coef.tok == "nil" {
				hasNil = true
			}
		}
		if hasNil || len(phs) > 2 {
			continue
		}
		pt := mintPoint(e, appparams.DefaultBondDenom, 100, zero, phs)
		raw := ""
		if len(phs) == 0 {
			raw = "[]" // amino would write `null`, which Subspace.Update reads as "keep the stored value"
		}
		legacyPoint(out, e, "mint", pt.op, pt.pairs, 2, raw)
	}
	for _, x := range exs {
		if x.tok == "nil" {
			continue
		}
		pt := mintPoint(e, appparams.DefaultBondDenom, 100, x, defPh)
		legacyPoint(out, e, "mint", pt.op, pt.pairs, 3, "")
	}
}

// ---------------------------------------------------------------------------------------------
// the subaccount switches on real messages

func paramsSubGate(out *Out, h int, e *Env) {
	dir, err := os.MkdirTemp("", "verif-params-sub")
	must(err)
	defer os.RemoveAll(dir)
	scratch := NewOut(dir) // the subaccount world writes its own protocol: not part of this suite
	w := newSubWorld(e, scratch, NewRng(1), -1)
	bp := e.App.BetKeeper.GetParams(e.Ctx)
	bp.Constraints = bettypes.Constraints{MinAmount: sdkmath.NewInt(5), Fee: sdkmath.NewInt(1)}
	e.App.BetKeeper.SetParams(e.Ctx, bp)
	owner := e.Accts[0]
	w.k.SetParams(e.Ctx, subtypes.Params{WagerEnabled: true, DepositEnabled: true})
	_, err = w.srv.Create(sdk.WrapSDKContext(e.Ctx), &subtypes.MsgCreate{Creator: e.Accts[1].String(), Owner: owner.String(),
		LockedBalances: []subtypes.LockedBalance{{UnlockTS: uint64(e.Time + 100000), Amount: sdkmath.NewInt(100000)}}})
	must(err)
	m := w.addMarket()
	w.plainDeposit(m, 2, 50000)
	srv := subkeeper.NewMsgServerImpl(*e.App.SubaccountKeeper)
	n := 0
	for _, we := range []bool{false, true, true, false} {
		for _, de := range []bool{false, true} {
			p := subtypes.Params{WagerEnabled: we, DepositEnabled: de}
			err, _ := e.Tx(func(ctx sdk.Context) error {
				_, err := srv.UpdateParams(sdk.WrapSDKContext(ctx), &subtypes.MsgUpdateParams{Authority: govAuthority, Params: p})
				return err
			})
			must(err)
			n++
			// wager through the subaccount
			inner := bettypes.MsgWager{Creator: owner.String(), Props: &bettypes.WagerProps{UID: UID(0xc1, n), Amount: sdkmath.NewInt(100),
				Ticket: w.betTicket(m, 0, "2", owner, 0)}}
			tk := e.Ticket(0, map[string]interface{}{"msg": inner, "mainacc_deduct_amount": sdkmath.NewInt(0), "subacc_deduct_amount": sdkmath.NewInt(100)})
			out.Op("G W %d %d", b2i(we), b2i(de))
			werr, _ := e.Tx(func(ctx sdk.Context) error {
				_, err := w.srv.Wager(sdk.WrapSDKContext(ctx), &subtypes.MsgWager{Creator: owner.String(), Ticket: tk})
				return err
			})
			out.Impl("g %d", b2i(werr == nil))
			if werr != nil && !strings.Contains(werr.Error(), "not enabled") {
				out.Count("subgate.wager.other-error")
			}
			// house deposit through the subaccount
			dtk := e.Ticket(0, map[string]interface{}{"kyc_data": subKyc(owner)})
			out.Op("G D %d %d", b2i(we), b2i(de))
			derr, _ := e.Tx(func(ctx sdk.Context) error {
				_, err := w.srv.HouseDeposit(sdk.WrapSDKContext(ctx), &subtypes.MsgHouseDeposit{Msg: &housetypes.MsgDeposit{Creator: owner.String(),
					MarketUID: m.uid, Amount: sdkmath.NewInt(1000), Ticket: dtk}})
				return err
			})
			out.Impl("g %d", b2i(derr == nil))
			if derr != nil && !strings.Contains(derr.Error(), "not enabled") {
				out.Count("subgate.deposit.other-error")
			}
			halt, what := e.Block(func(ctx sdk.Context) {
				bet.EndBlocker(ctx, *e.App.BetKeeper)
				orderbook.EndBlocker(ctx, *e.App.OrderbookKeeper)
			})
			if halt {
				out.Fail(MonFail{Property: "C17", Monitor: "no_halt", Class: "subaccount/endblock", History: h, Detail: trunc(what, 300)})
			}
			out.Count("subgate.combination")
		}
	}
	scratch.Close(nil)
}

// ---------------------------------------------------------------------------------------------
// behaviour of x/mint under accepted extremes

type mintBehaviour struct {
	bpy    int64
	phases []latPhase
	exKind int // 0: zero, 1: one, 2: supply-1, 3: supply, 4: supply+1, 5: 2^100
}

func mintBehaviourPoints() []mintBehaviour {
	infl := []latDec{ld("-0.1"), ld("-0.000000000000000001"), ld("0"), ld("0.000000000000000001"), ld("0.5"), ld("1"), ld("100")}
	coef := []latDec{ld("0.000000000000000001"), ld("0.3"), ld("0.5"), ld("1"), ld("1.5"), ld("100")}
	var one []latPhase
	for _, i := range infl {
		for _, c := range coef {
			one = append(one, latPhase{i, c})
		}
	}
	smallI := []latDec{ld("-0.1"), ld("0"), ld("0.5")}
	smallC := []latDec{ld("0.000000000000000001"), ld("0.3"), ld("0.5"), ld("1.5")}
	var small []latPhase
	for _, i := range smallI {
		for _, c := range smallC {
			small = append(small, latPhase{i, c})
		}
	}
	var lists [][]latPhase
	for _, p := range one {
		lists = append(lists, []latPhase{p})
	}
	for _, a := range small {
		for _, b := range small {
			lists = append(lists, []latPhase{a, b})
		}
	}
	for _, a := range small[:6] {
		lists = append(lists, []latPhase{a, {ld("0.5"), ld("0.5")}, {ld("0.000000000000000001"), ld("1")}})
	}
	var pts []mintBehaviour
	for _, bpy := range []int64{1, 2, 3, 100} {
		for _, l := range lists {
			for ek := 0; ek < 6; ek++ {
				if ek != 0 && ek != 5 && bpy == 100 && len(l) > 1 {
					continue // keep the list at a size the thorough tier covers completely
				}
				pts = append(pts, mintBehaviour{bpy, l, ek})
			}
		}
	}
	return pts
}

func paramsMintHistory(out *Out, h int, r *Rng, cfg paramsCfg, pt mintBehaviour) {
	e := NewEnv(r.Pick([]int64{1_000, 50_000, 5_000_000}), 4)
	k := e.App.MintKeeper
	srv := mintkeeper.NewMsgServerImpl(k)
	collector := e.App.AccountKeeper.GetModuleAddress(authtypes.FeeCollectorName)
	var phases []minttypes.Phase
	for _, ph := range pt.phases {
		phases = append(phases, minttypes.Phase{Inflation: ph.infl.v, YearCoefficient: ph.coef.v})
	}
	sup := e.Supply()
	var ex sdkmath.Int
	switch pt.exKind {
	case 0:
		ex = sdkmath.ZeroInt()
	case 1:
		ex = sdkmath.OneInt()
	case 2:
		ex = sup.SubRaw(1)
	case 3:
		ex = sup
	case 4:
		ex = sup.AddRaw(1)
	default:
		ex = sdkmath.NewIntFromBigInt(pow2(100))
	}
	p := minttypes.Params{MintDenom: appparams.DefaultBondDenom, BlocksPerYear: pt.bpy, ExcludeAmount: ex, Phases: phases}
	install := func(p minttypes.Params) bool {
		out.Op("%s", opParams(p))
		err, _ := e.Tx(func(ctx sdk.Context) error {
			msg := &minttypes.MsgUpdateParams{Authority: govAuthority, Params: p}
			if err := msg.ValidateBasic(); err != nil {
				return err
			}
			_, err := srv.UpdateParams(sdk.WrapSDKContext(ctx), msg)
			return err
		})
		out.Impl("v %d", b2i(err == nil))
		return err == nil
	}
	// the point is installed at genesis (first block is height 1) or a few blocks into a running chain
	lateAt := int64(0)
	if r.Chance(35) {
		lateAt = r.Range(2, 4)
	}
	m0 := minttypes.DefaultInitialMinter()
	k.SetMinter(e.Ctx, m0)
	if lateAt > 0 {
		if !install(minttypes.Params{MintDenom: appparams.DefaultBondDenom, BlocksPerYear: 10, ExcludeAmount: sdkmath.ZeroInt(), Phases: []minttypes.Phase{mkPhase("0.1", "1")}}) {
			return
		}
	} else if !install(p) {
		out.Count("mint.point.rejected")
		return
	}
	out.Op("M %s %d %s %s", decRaw(m0.Inflation), m0.PhaseStep, decRaw(m0.PhaseProvisions), decRaw(m0.TruncatedTokens))
	total := int64(0)
	for _, ph := range p.Phases {
		total += ph.YearCoefficient.Mul(sdkmath.LegacyNewDec(p.BlocksPerYear)).TruncateInt().Int64()
	}
	last := total + 3
	if last > 60 {
		last = 60
	}
	if last < lateAt+3 {
		last = lateAt + 3
	}
	cur := p
	if lateAt > 0 {
		cur = k.GetParams(e.Ctx)
	}
	for height := int64(1); height <= last; height++ {
		e.SetBlock(height, BaseTime+height*5)
		if height == lateAt {
			if !install(p) {
				out.Count("mint.point.rejected")
				return
			}
			cur = p
		}
		supBefore := e.Supply()
		colBefore := e.Bal(collector)
		out.Op("B %d %s", height, supBefore.String())
		halt, what := e.Block(func(ctx sdk.Context) { mint.BeginBlocker(ctx, k) })
		m := k.GetMinter(e.Ctx)
		if halt {
			out.Impl("r halt")
			out.Impl("%s", minterLine(m))
			out.Count("mint.block.halt")
			cls := "mint/other"
			anyNeg := false
			for _, ph := range cur.Phases {
				if ph.Inflation.IsNegative() {
					anyNeg = true
				}
			}
			switch {
			case strings.Contains(what, "division by zero"):
				cls = "mint/phase-shorter-than-one-block"
				out.Fail(MonFail{Property: "C17", Monitor: "no_zero_divisor", Class: "mint/BlockProvisions-phase-blocks-zero", History: h,
					Detail: fmt.Sprintf("height %d params %s: %s", height, opParams(cur), trunc(what, 120))})
			case strings.Contains(what, "negative coin amount") && anyNeg:
				cls = "mint/negative-inflation"
			case strings.Contains(what, "negative coin amount") && cur.ExcludeAmount.GT(supBefore):
				cls = "mint/exclude-amount-exceeds-supply"
			}
			out.Fail(MonFail{Property: "C17", Monitor: "no_halt", Class: cls, History: h,
				Detail: fmt.Sprintf("BeginBlocker panicked at height %d under accepted params %s (supply %s): %s", height, opParams(cur), supBefore, trunc(what, 160))})
			return
		}
		minted := e.Supply().Sub(supBefore)
		out.Impl("r %s", minted.String())
		out.Impl("%s", minterLine(m))
		out.Count("mint.block.ok")
		if minted.IsPositive() {
			out.Count("mint.block.minted")
		}
		if minted.IsNegative() || !minted.Equal(e.Bal(collector).Sub(colBefore)) {
			out.Fail(MonFail{Property: "C17", Monitor: "no_negative_amount", Class: "mint/minted", History: h,
				Detail: fmt.Sprintf("height %d supply delta %s collector delta %s", height, minted, e.Bal(collector).Sub(colBefore))})
		}
		if m.PhaseProvisions.IsNegative() {
			out.Fail(MonFail{Property: "C17", Monitor: "no_negative_amount", Class: "mint/minter.phase_provisions", History: h,
				Detail: fmt.Sprintf("height %d stored phase provisions %s under accepted params %s (supply %s)", height, m.PhaseProvisions, opParams(cur), supBefore)})
		}
		if m.TruncatedTokens.IsNegative() {
			out.Fail(MonFail{Property: "C17", Monitor: "no_negative_amount", Class: "mint/minter.truncated_tokens", History: h,
				Detail: fmt.Sprintf("height %d stored truncated tokens %s under accepted params %s", height, m.TruncatedTokens, opParams(cur))})
		}
	}
	out.Count("mint.history.complete")
}

// ---------------------------------------------------------------------------------------------

func runParams(seed uint64, n int, out *Out) {
	cfg := probeParamsCfg()
	var shared *Env
	env := func() *Env {
		if shared == nil {
			shared = NewEnv(1_000_000, 4)
		}
		return shared
	}
	begin := func(h int) {
		out.Op("N %d", h)
		out.Impl("n %d", h)
		cfg.emit(out)
	}
	sections := []func(h int){
		func(h int) { paramsDiffBet(out, h, env()) },
		func(h int) { paramsDiffHouse(out, h, env()) },
		func(h int) { paramsDiffOb(out, h, env()) },
		func(h int) { paramsDiffSmall(out, h, env()) },
		func(h int) { paramsDiffMint(out, h, env(), seed) },
		func(h int) { paramsSubGate(out, h, NewEnv(1_000_000, 4)) },
	}
	for h := 0; h < paramsFixedHistories; h++ {
		if skipHist(h) {
			continue
		}
		begin(h)
		sections[h](h)
	}
	pts := mintBehaviourPoints()
	// a seeded permutation, so that any n covers a spread of the lattice and n ≥ len(pts) covers all of it
	pr := NewRng(seed*1_000_003 + 999_983)
	perm := make([]int, len(pts))
	for i := range perm {
		perm[i] = i
	}
	for i := len(perm) - 1; i > 0; i-- {
		j := pr.Intn(i + 1)
		perm[i], perm[j] = perm[j], perm[i]
	}
	out.Stats["mint.lattice.points"] = int64(len(pts))
	for h := paramsFixedHistories; h < n; h++ {
		if skipHist(h) {
			continue
		}
		begin(h)
		r := NewRng(seed*1_000_003 + uint64(h))
		paramsMintHistory(out, h, r, cfg, pts[perm[(h-paramsFixedHistories)%len(perm)]])
	}
}
