package harness

import (
	"os"
	"testing"
)

// suites maps VERIF_SUITE names to suite runners; each writes ops.txt / impl.txt / stats.json to VERIF_OUT.
var suites = map[string]func(seed uint64, n int, out *Out){}

func TestSuite(t *testing.T) {
	name := os.Getenv("VERIF_SUITE")
	f, ok := suites[name]
	if !ok {
		t.Fatalf("unknown suite %q", name)
	}
	out := NewOut(envStr("VERIF_OUT", "/tmp/verif-out/"+name))
	seed := uint64(envInt("VERIF_SEED", 1))
	n := int(envInt("VERIF_N", 50))
	defer out.Close(map[string]interface{}{"suite": name, "seed": seed, "histories": n})
	f(seed, n, out)
}
