// Package harness drives the real sge keepers / message servers / begin- and end-blockers in-process and
// writes (a) the operation file that the Lean model driver replays and (b) the canonical output stream of the
// implementation. It is built as a test binary (`go test -c`) because every custom module registers its
// MsgServer only when testing.Testing() is true.
package harness

import (
	"bufio"
	"crypto/ed25519"
	"crypto/sha256"
	"crypto/x509"
	"encoding/binary"
	"encoding/json"
	"fmt"
	"os"
	"path/filepath"
	"sort"
	"strconv"
	"strings"
	"sync/atomic"
	"time"

	sdkmath "cosmossdk.io/math"
	tmdb "github.com/cometbft/cometbft-db"
	abci "github.com/cometbft/cometbft/abci/types"
	"github.com/cometbft/cometbft/libs/log"
	tmproto "github.com/cometbft/cometbft/proto/tendermint/types"
	codectypes "github.com/cosmos/cosmos-sdk/codec/types"
	sdked25519 "github.com/cosmos/cosmos-sdk/crypto/keys/ed25519"
	simtestutil "github.com/cosmos/cosmos-sdk/testutil/sims"
	sdk "github.com/cosmos/cosmos-sdk/types"
	authtypes "github.com/cosmos/cosmos-sdk/x/auth/types"
	banktypes "github.com/cosmos/cosmos-sdk/x/bank/types"
	stakingtypes "github.com/cosmos/cosmos-sdk/x/staking/types"
	"github.com/golang-jwt/jwt/v4"

	wasmkeeper "github.com/CosmWasm/wasmd/x/wasm/keeper"

	"github.com/sge-network/sge/app"
	"github.com/sge-network/sge/app/params"
	"github.com/sge-network/sge/testutil/simapp"
	"github.com/sge-network/sge/utils"
	minttypes "github.com/sge-network/sge/x/mint/types"
	ovmtypes "github.com/sge-network/sge/x/ovm/types"
)

// ---------------------------------------------------------------------------------------------
// PRNG: splitmix64; every random choice of a run derives from (VERIF_SEED, history index).

type Rng struct{ s uint64 }

// NewRng mixes the seed so that consecutive seeds give unrelated streams (a plain s = seed*golden + c would make
// the stream of seed+1 the stream of seed shifted by one draw).
func NewRng(seed uint64) *Rng {
	r := &Rng{s: seed*0x9E3779B97F4A7C15 + 0x1234567}
	a := r.U64()
	r.s = a ^ (seed * 0xD6E8FEB86659FD93) ^ 0xA5A5A5A5DEADBEEF
	return r
}
func (r *Rng) U64() uint64 {
	r.s += 0x9E3779B97F4A7C15
	z := r.s
	z = (z ^ (z >> 30)) * 0xBF58476D1CE4E5B9
	z = (z ^ (z >> 27)) * 0x94D049BB133111EB
	return z ^ (z >> 31)
}
func (r *Rng) Intn(n int) int {
	if n <= 0 {
		return 0
	}
	return int(r.U64() % uint64(n))
}
func (r *Rng) Range(lo, hi int64) int64 { // inclusive
	if hi <= lo {
		return lo
	}
	return lo + int64(r.U64()%uint64(hi-lo+1))
}
func (r *Rng) Chance(pct int) bool   { return r.Intn(100) < pct }
func (r *Rng) Pick(xs []int64) int64 { return xs[r.Intn(len(xs))] }

// ---------------------------------------------------------------------------------------------
// Output: ops file (input of the Lean driver) and impl file (expected output of the Lean driver).

type Out struct {
	dir    string
	ops    *bufio.Writer
	impl   *bufio.Writer
	fo, fi *os.File
	Stats  map[string]int64
	Mon    []MonFail
	Sample []string
	nOps   int64
	// watchdog: when the implementation does not return from one operation (a seeded or real non-termination), the run
	// is ended with a record of the operation instead of blocking the check for hours
	lastOp   atomic.Int64 // unix nanoseconds of the last operation line
	lastLine atomic.Value // string
	lastHist atomic.Int64
	closed   atomic.Bool
}

// MonFail is a property monitor failure observed on the implementation.
type MonFail struct {
	Property string `json:"property"`
	Monitor  string `json:"monitor"`
	Class    string `json:"class"` // call-site / shape class used to match known findings
	History  int    `json:"history"`
	Op       int64  `json:"op"`
	Detail   string `json:"detail"`
}

func NewOut(dir string) *Out {
	must(os.MkdirAll(dir, 0o755))
	fo, err := os.Create(filepath.Join(dir, "ops.txt"))
	must(err)
	fi, err := os.Create(filepath.Join(dir, "impl.txt"))
	must(err)
	o := &Out{dir: dir, fo: fo, fi: fi, ops: bufio.NewWriterSize(fo, 1<<20), impl: bufio.NewWriterSize(fi, 1<<20), Stats: map[string]int64{}}
	o.lastOp.Store(time.Now().UnixNano())
	o.lastLine.Store("")
	limit := time.Duration(envInt("VERIF_OP_TIMEOUT", 300)) * time.Second
	go func() {
		for !o.closed.Load() {
			time.Sleep(2 * time.Second)
			if idle := time.Since(time.Unix(0, o.lastOp.Load())); idle > limit && !o.closed.Load() {
				// the main goroutine is stuck inside the implementation and writes nothing: flushing from here is safe
				line, _ := o.lastLine.Load().(string)
				b, _ := json.MarshalIndent(map[string]interface{}{"history": o.lastHist.Load(), "op": o.nOps, "op_line": line,
					"seconds": int(idle.Seconds())}, "", " ")
				_ = os.WriteFile(filepath.Join(o.dir, "hang.json"), b, 0o644)
				o.Close(map[string]interface{}{"hang": true})
				fmt.Fprintf(os.Stderr, "HANG: the implementation did not return from operation %d (%s) of history %d within %s\n", o.nOps, line, o.lastHist.Load(), limit)
				os.Exit(3)
			}
		}
	}()
	return o
}

// Op writes one operation line for the model.
func (o *Out) Op(format string, a ...interface{}) {
	s := fmt.Sprintf(format, a...)
	o.ops.WriteString(s)
	o.ops.WriteByte('\n')
	o.nOps++
	o.lastOp.Store(time.Now().UnixNano())
	o.lastLine.Store(s)
	if strings.HasPrefix(s, "N ") {
		if h, err := strconv.ParseInt(strings.TrimPrefix(s, "N "), 10, 64); err == nil {
			o.lastHist.Store(h)
		}
	}
	if len(o.Sample) < 12 {
		o.Sample = append(o.Sample, s)
	}
}

// Impl writes one line of the implementation's canonical output.
func (o *Out) Impl(format string, a ...interface{}) {
	fmt.Fprintf(o.impl, format, a...)
	o.impl.WriteByte('\n')
}
func (o *Out) Count(k string) { o.Stats[k]++ }
func (o *Out) CountN(k string, n int) { o.Stats[k] += int64(n) }
func (o *Out) Fail(m MonFail) {
	m.Op = o.nOps
	o.Mon = append(o.Mon, m)
	o.Stats["monfail."+m.Property+"."+m.Monitor]++
}
func (o *Out) Close(extra map[string]interface{}) {
	o.closed.Store(true)
	o.ops.Flush()
	o.impl.Flush()
	o.fo.Close()
	o.fi.Close()
	st := map[string]interface{}{"stats": o.Stats, "monitor_failures": o.Mon, "ops": o.nOps, "samples": o.Sample}
	for k, v := range extra {
		st[k] = v
	}
	b, _ := json.MarshalIndent(st, "", " ")
	must(os.WriteFile(filepath.Join(o.dir, "stats.json"), b, 0o644))
}

func must(err error) {
	if err != nil {
		panic(err)
	}
}

// ---------------------------------------------------------------------------------------------
// Environment helpers

func envInt(name string, def int64) int64 {
	if v := os.Getenv(name); v != "" {
		if n, err := strconv.ParseInt(v, 10, 64); err == nil {
			return n
		}
	}
	return def
}
func envStr(name, def string) string {
	if v := os.Getenv(name); v != "" {
		return v
	}
	return def
}

// ---------------------------------------------------------------------------------------------
// Deterministic application

const NAcct = 12

// Env is one deterministic in-process chain.
type Env struct {
	App     *simapp.TestApp
	DB      tmdb.DB // the database under the app's committed multistore (kept so that Restart can reopen it)
	Ctx     sdk.Context
	Accts   []sdk.AccAddress // sorted so that bech32 string order == index order
	OvmPriv []ed25519.PrivateKey
	OvmPub  []string // PEM strings as stored in the key vault
	Height  int64
	Time    int64
}

// detKey derives an Ed25519 key pair from a label.
func detKey(label string) (ed25519.PublicKey, ed25519.PrivateKey, string) {
	h := sha256.Sum256([]byte("verif-ovm-" + label))
	priv := ed25519.NewKeyFromSeed(h[:])
	pub := priv.Public().(ed25519.PublicKey)
	bs, err := x509.MarshalPKIXPublicKey(pub)
	must(err)
	return pub, priv, string(utils.NewPubKeyMemory(bs))
}

func detAddr(i int) sdk.AccAddress {
	h := sha256.Sum256([]byte(fmt.Sprintf("verif-acct-%d", i)))
	return sdk.AccAddress(h[:20])
}

const BaseTime int64 = 1_700_000_000

// NewEnv builds a fresh app with NAcct funded accounts (balance `bal` of usge each), nOvm oracle keys.
func NewEnv(bal int64, nOvm int) *Env { return NewEnvOn(tmdb.NewMemDB(), bal, nOvm) }

// newAppOn constructs the application over db exactly as a node's start-up does (loadLatest = true: NewSgeApp
// mounts the stores and loads the latest committed version of the multistore found in db, none for an empty db).
func newAppOn(db tmdb.DB) *app.SgeApp {
	return app.NewSgeApp(log.NewNopLogger(), db, nil, true, map[int64]bool{}, "", 0, app.MakeEncodingConfig(),
		simtestutil.EmptyAppOptions{}, []wasmkeeper.Option{})
}

// Restart replaces the application by a NEW instance constructed over the SAME database: what a validator does
// when its process is stopped and started again between two blocks (and, as far as the application is concerned,
// what a node does that joins by state sync: committed state only). Everything that hangs off the old application
// object — keeper structs and whatever they point to, IAVL node caches, the check/deliver states of baseapp,
// memory stores — is gone or rebuilt; the committed multistore (all versions) is what the new instance loads.
// What is NOT reset is package-level state (the OS process is the same one): the C15 fact theorem
// `no_package_level_mutable_state` covers that side statically. Must be called right after a Commit. Returns an
// error text when the reopened application does not stand at the committed height / app hash.
func (e *Env) Restart() string {
	h, id := e.App.LastBlockHeight(), e.App.LastCommitID()
	a := newAppOn(e.DB)
	e.App = &simapp.TestApp{SgeApp: *a}
	if a.LastBlockHeight() != h || !bytesEq(a.LastCommitID().Hash, id.Hash) {
		return fmt.Sprintf("reopened application stands at height %d hash %x, the stopped one committed height %d hash %x",
			a.LastBlockHeight(), a.LastCommitID().Hash, h, id.Hash)
	}
	return ""
}

func bytesEq(a, b []byte) bool { return string(a) == string(b) }

// NewEnvOn is NewEnv over a database the caller keeps a handle to.
func NewEnvOn(db tmdb.DB, bal int64, nOvm int) *Env {
	e := &Env{DB: db}
	for i := 0; i < NAcct; i++ {
		e.Accts = append(e.Accts, detAddr(i))
	}
	sort.Slice(e.Accts, func(i, j int) bool { return e.Accts[i].String() < e.Accts[j].String() })
	for i := 0; i < nOvm; i++ {
		_, priv, pem := detKey(strconv.Itoa(i))
		e.OvmPriv = append(e.OvmPriv, priv)
		e.OvmPub = append(e.OvmPub, pem)
	}

	appInstance := newAppOn(db)
	genesisState := app.NewDefaultGenesisState()

	var genAccs []authtypes.GenesisAccount
	var balances []banktypes.Balance
	total := sdk.NewCoins()
	for _, a := range e.Accts {
		genAccs = append(genAccs, &authtypes.BaseAccount{Address: a.String()})
		c := sdk.NewCoins(sdk.NewCoin(params.DefaultBondDenom, sdkmath.NewInt(bal)))
		balances = append(balances, banktypes.Balance{Address: a.String(), Coins: c})
		total = total.Add(c...)
	}
	authGenesis := authtypes.NewGenesisState(authtypes.DefaultParams(), genAccs)
	genesisState[authtypes.ModuleName] = appInstance.AppCodec().MustMarshalJSON(authGenesis)
	bankGenesis := banktypes.NewGenesisState(banktypes.DefaultGenesisState().Params, balances, total,
		[]banktypes.Metadata{}, []banktypes.SendEnabled{})
	genesisState[banktypes.ModuleName] = appInstance.AppCodec().MustMarshalJSON(bankGenesis)
	// one bonded validator (operator = a separate deterministic account) so that InitGenesis accepts the state
	valAddr := detAddr(1000)
	valPower := sdk.TokensFromConsensusPower(1, sdk.DefaultPowerReduction)
	seedH := sha256.Sum256([]byte("verif-validator"))
	consPk := &sdked25519.PubKey{Key: ed25519.NewKeyFromSeed(seedH[:]).Public().(ed25519.PublicKey)}
	pkAny, err := codectypes.NewAnyWithValue(consPk)
	must(err)
	val := stakingtypes.Validator{
		OperatorAddress: sdk.ValAddress(valAddr).String(), ConsensusPubkey: pkAny, Status: stakingtypes.Bonded,
		Tokens: valPower, DelegatorShares: sdkmath.LegacyNewDecFromInt(valPower),
		Description: stakingtypes.NewDescription("v", "", "", "", ""),
		Commission:  stakingtypes.NewCommission(sdkmath.LegacyNewDecWithPrec(5, 1), sdkmath.LegacyNewDecWithPrec(5, 1), sdkmath.LegacyNewDec(0)),
	}
	stParams := stakingtypes.DefaultParams()
	stParams.BondDenom = params.DefaultBondDenom
	stGenesis := stakingtypes.NewGenesisState(stParams, []stakingtypes.Validator{val},
		[]stakingtypes.Delegation{{DelegatorAddress: valAddr.String(), ValidatorAddress: val.OperatorAddress, Shares: val.DelegatorShares}})
	genesisState[stakingtypes.ModuleName] = appInstance.AppCodec().MustMarshalJSON(stGenesis)
	genAccs = append(genAccs, &authtypes.BaseAccount{Address: valAddr.String()})
	bondedCoins := sdk.NewCoins(sdk.NewCoin(params.DefaultBondDenom, valPower))
	balances = append(balances, banktypes.Balance{Address: appInstance.AccountKeeper.GetModuleAddress(stakingtypes.BondedPoolName).String(), Coins: bondedCoins})
	total = total.Add(bondedCoins...)
	valUpdates := []abci.ValidatorUpdate{val.ABCIValidatorUpdate(sdk.DefaultPowerReduction)}

	ovmGenesis := &ovmtypes.GenesisState{KeyVault: ovmtypes.KeyVault{PublicKeys: e.OvmPub}}
	genesisState[ovmtypes.ModuleName] = appInstance.AppCodec().MustMarshalJSON(ovmGenesis)

	authGenesis = authtypes.NewGenesisState(authtypes.DefaultParams(), genAccs)
	genesisState[authtypes.ModuleName] = appInstance.AppCodec().MustMarshalJSON(authGenesis)
	bankGenesis = banktypes.NewGenesisState(banktypes.DefaultGenesisState().Params, balances, total,
		[]banktypes.Metadata{}, []banktypes.SendEnabled{})
	genesisState[banktypes.ModuleName] = appInstance.AppCodec().MustMarshalJSON(bankGenesis)
	stateBytes, err := json.Marshal(genesisState)
	must(err)
	appInstance.InitChain(abci.RequestInitChain{
		Validators:      valUpdates,
		ConsensusParams: simapp.DefaultConsensusParams,
		AppStateBytes:   stateBytes,
		Time:            time.Unix(BaseTime, 0).UTC(),
	})
	appInstance.Commit()
	e.Height = appInstance.LastBlockHeight() + 1
	e.Time = BaseTime
	hdr := tmproto.Header{Height: e.Height, Time: time.Unix(e.Time, 0).UTC(), AppHash: appInstance.LastCommitID().Hash}
	appInstance.BeginBlock(abci.RequestBeginBlock{Header: hdr})
	e.App = &simapp.TestApp{SgeApp: *appInstance}
	e.Ctx = e.App.NewContext(false, hdr)
	// the default test objects set these explicitly; keep the same starting point
	e.App.MintKeeper.SetParams(e.Ctx, minttypes.DefaultParams())
	e.App.MintKeeper.SetMinter(e.Ctx, minttypes.DefaultInitialMinter())
	return e
}

// SetBlock moves the context to a new height/time (keeper-level driver: no Commit).
func (e *Env) SetBlock(height, unix int64) {
	e.Height, e.Time = height, unix
	e.Ctx = e.Ctx.WithBlockHeight(height).WithBlockTime(time.Unix(unix, 0).UTC())
}

// Tx runs f on a cache context; state is written only if f returns nil and does not panic
// (baseapp's per-message atomicity and panic recovery).
func (e *Env) Tx(f func(ctx sdk.Context) error) (err error, panicked bool) {
	cctx, write := e.Ctx.CacheContext()
	func() {
		defer func() {
			if r := recover(); r != nil {
				err = fmt.Errorf("panic: %v", r)
				panicked = true
			}
		}()
		err = f(cctx)
	}()
	if err == nil {
		write()
	}
	return
}

// Block runs a begin/end-blocker body; a panic is a chain halt.
func (e *Env) Block(f func(ctx sdk.Context)) (halt bool, what string) {
	cctx, write := e.Ctx.CacheContext()
	func() {
		defer func() {
			if r := recover(); r != nil {
				halt = true
				what = fmt.Sprint(r)
			}
		}()
		f(cctx)
	}()
	if !halt {
		write()
	}
	return
}

func (e *Env) Bal(a sdk.AccAddress) sdkmath.Int {
	return e.App.BankKeeper.GetBalance(e.Ctx, a, params.DefaultBondDenom).Amount
}
func (e *Env) ModBal(name string) sdkmath.Int {
	return e.Bal(e.App.AccountKeeper.GetModuleAddress(name))
}
func (e *Env) Supply() sdkmath.Int {
	return e.App.BankKeeper.GetSupply(e.Ctx, params.DefaultBondDenom).Amount
}

// Ticket signs claims as an EdDSA JWT with oracle key `key`; exp defaults to block time + 1000 s.
func (e *Env) Ticket(key int, claims map[string]interface{}) string {
	mc := jwt.MapClaims{}
	for k, v := range claims {
		mc[k] = v
	}
	if _, ok := mc["exp"]; !ok {
		mc["exp"] = e.Time + 1000
	}
	if _, ok := mc["iat"]; !ok {
		mc["iat"] = e.Time - 10
	}
	tok := jwt.NewWithClaims(jwt.SigningMethodEdDSA, mc)
	s, err := tok.SignedString(e.OvmPriv[key])
	must(err)
	return s
}

// UID returns a UUID whose lexicographic order equals the numeric order of n (class tags the kind).
func UID(class byte, n int) string {
	return fmt.Sprintf("%02x000000-0000-4000-8000-%012x", class, n)
}

func be64(n uint64) []byte { b := make([]byte, 8); binary.BigEndian.PutUint64(b, n); return b }

func decRaw(d sdkmath.LegacyDec) string {
	if d.IsNil() {
		return "0"
	}
	return d.BigInt().String()
}
func intStr(i sdkmath.Int) string {
	if i.IsNil() {
		return "0"
	}
	return i.String()
}
func b2i(b bool) int {
	if b {
		return 1
	}
	return 0
}
func joinU64(xs []uint64) string {
	ss := make([]string, len(xs))
	for i, x := range xs {
		ss[i] = strconv.FormatUint(x, 10)
	}
	return "[" + strings.Join(ss, ",") + "]"
}

// VERIF_ONLY=<h> replays a single history of a suite (every history has its own PRNG stream).
var onlyHist = envInt("VERIF_ONLY", -1)

func skipHist(h int) bool { return onlyHist >= 0 && int64(h) != onlyHist }

// searchMode is set when the check looks for a failing input after an obligation broke.
var searchMode = envStr("VERIF_MODE", "") == "search"
