package harness

// C17, suite "params_core" (model driver drv_core): short real histories of market / house / bet / orderbook under
// every accepted extreme value of the bet, house and orderbook parameters. The parameters are installed through the
// real MsgUpdateParams handlers; every operation is replayed on the core model (complete state compared), and the
// C17 monitors are evaluated on the implementation state after every operation:
//
//   no_halt             an end-blocker panics                                     class endblock/<cause>
//   no_zero_divisor     any panic "division by zero" (message or block)           class <operation>
//   no_negative_amount  a stored amount / fee / liquidity / stake is negative     class <record.field>
//   fee_le_amount       a fee exceeds the amount it is taken from                 class bet-fee-exceeds-wager-amount,
//                                                                                       house-fee-exceeds-deposit-amount
//   ledgers_sound       a monitor of C01–C05, C07–C10 fires in such a history     class <property>/<monitor>/<class>
//
// A message that merely fails under an extreme value (including a recovered panic inside the transaction) is not a
// violation.

import (
	"fmt"
	"math/big"
	"strings"

	sdkmath "cosmossdk.io/math"
	sdk "github.com/cosmos/cosmos-sdk/types"

	betkeeper "github.com/sge-network/sge/x/bet/keeper"
	bettypes "github.com/sge-network/sge/x/bet/types"
	housekeeper "github.com/sge-network/sge/x/house/keeper"
	housetypes "github.com/sge-network/sge/x/house/types"
	marketkeeper "github.com/sge-network/sge/x/market/keeper"
	obkeeper "github.com/sge-network/sge/x/orderbook/keeper"
	obtypes "github.com/sge-network/sge/x/orderbook/types"
)

func init() { suites["params_core"] = runParamsCore }

type corePoint struct {
	bp  bettypes.Params
	hp  housetypes.Params
	op  obtypes.Params
	tag string
}

func corePointBase() corePoint {
	return corePoint{
		bp: bettypes.Params{BatchSettlementCount: 1000, MaxBetByUidQueryCount: 10, Constraints: bettypes.Constraints{MinAmount: sdkmath.NewInt(10), Fee: sdkmath.NewInt(1)}},
		hp: housetypes.Params{MinDeposit: sdkmath.NewInt(10), HouseParticipationFee: sdkmath.LegacyMustNewDecFromStr("0.1"), MaxWithdrawalCount: 2},
		op: obtypes.Params{MaxOrderBookParticipations: 100, BatchSettlementCount: 100, RequeueThreshold: 5},
	}
}

func big2(n uint) sdkmath.Int { return sdkmath.NewIntFromBigInt(new(big.Int).Lsh(big.NewInt(1), n)) }

var (
	coreBetBatch  = []uint32{1, 2, u32max}
	coreBetMin    = []sdkmath.Int{sdkmath.NewInt(2), sdkmath.NewInt(3), sdkmath.NewInt(100), big2(100)}
	coreHouseMin  = []sdkmath.Int{sdkmath.NewInt(2), sdkmath.NewInt(100), big2(100)}
	coreHouseFee  = []string{"0", "0.000000000000000001", "0.1", "0.5", "0.999999999999999999", "1", "1.000000000000000001", "1.5", "100"}
	coreHouseMaxW = []uint64{1, 2, u64max}
	coreObMaxP    = []uint64{1, 2, u64max}
	coreObBatch   = []uint64{1, 2, u64max}
	coreObThr     = []uint64{0, 1, 1000, u64max}
)

func coreBetFees(min sdkmath.Int) []sdkmath.Int {
	return []sdkmath.Int{sdkmath.ZeroInt(), sdkmath.OneInt(), min.SubRaw(1), min, min.AddRaw(1), min.MulRaw(2), big2(100)}
}

// corePoints: every accepted lattice combination of one module with the other two at the base point
func corePoints() []corePoint {
	var pts []corePoint
	seen := map[string]bool{}
	add := func(p corePoint) {
		k := paramsLine(p)
		if !seen[k] {
			seen[k] = true
			pts = append(pts, p)
		}
	}
	for _, b := range coreBetBatch {
		for _, m := range coreBetMin {
			for _, f := range coreBetFees(m) {
				p := corePointBase()
				p.bp.BatchSettlementCount, p.bp.Constraints.MinAmount, p.bp.Constraints.Fee = b, m, f
				p.tag = "bet"
				add(p)
			}
		}
	}
	for _, m := range coreHouseMin {
		for _, f := range coreHouseFee {
			for _, w := range coreHouseMaxW {
				p := corePointBase()
				p.hp.MinDeposit, p.hp.HouseParticipationFee, p.hp.MaxWithdrawalCount = m, sdkmath.LegacyMustNewDecFromStr(f), w
				p.tag = "house"
				add(p)
			}
		}
	}
	for _, a := range coreObMaxP {
		for _, b := range coreObBatch {
			for _, t := range coreObThr {
				p := corePointBase()
				p.op = obtypes.Params{MaxOrderBookParticipations: a, BatchSettlementCount: b, RequeueThreshold: t}
				p.tag = "orderbook"
				add(p)
			}
		}
	}
	return pts
}

// randomCorePoint: a seeded combination of extremes of all three modules
func randomCorePoint(r *Rng) corePoint {
	p := corePointBase()
	p.bp.BatchSettlementCount = coreBetBatch[r.Intn(len(coreBetBatch))]
	p.bp.Constraints.MinAmount = coreBetMin[r.Intn(3)]
	fs := coreBetFees(p.bp.Constraints.MinAmount)
	p.bp.Constraints.Fee = fs[r.Intn(len(fs)-1)]
	p.hp.MinDeposit = coreHouseMin[r.Intn(2)]
	p.hp.HouseParticipationFee = sdkmath.LegacyMustNewDecFromStr(coreHouseFee[r.Intn(len(coreHouseFee))])
	p.hp.MaxWithdrawalCount = coreHouseMaxW[r.Intn(len(coreHouseMaxW))]
	p.op = obtypes.Params{MaxOrderBookParticipations: coreObMaxP[r.Intn(len(coreObMaxP))], BatchSettlementCount: coreObBatch[r.Intn(len(coreObBatch))],
		RequeueThreshold: coreObThr[r.Intn(len(coreObThr))]}
	p.tag = "combined"
	return p
}

func paramsLine(p corePoint) string {
	return fmt.Sprintf("PARAMS %d %s %s %s %s %d %d %d %d", p.bp.BatchSettlementCount, p.bp.Constraints.MinAmount, p.bp.Constraints.Fee, p.hp.MinDeposit,
		decRaw(p.hp.HouseParticipationFee), p.hp.MaxWithdrawalCount, p.op.MaxOrderBookParticipations, p.op.BatchSettlementCount, p.op.RequeueThreshold)
}

// ---------------------------------------------------------------------------------------------

type paramsScript struct {
	lastWithdrawOK bool
	*coreScript
	pt       corePoint
	monStart int
	reported map[string]bool
}

func (c *paramsScript) fail(mon, class, detail string) {
	k := mon + "|" + class
	if c.reported[k] {
		return
	}
	c.reported[k] = true
	c.out.Fail(MonFail{Property: "C17", Monitor: mon, Class: class, History: c.h,
		Detail: fmt.Sprintf("%s under accepted %s", detail, paramsLine(c.pt))})
}

// newParamsScript installs the point through the three real MsgUpdateParams handlers; false = not accepted by this tree
func newParamsScript(out *Out, h int, pt corePoint) (*paramsScript, bool) {
	e := NewEnv(1_000_000, 4)
	cs := &coreScript{e: e, ix: newCoreIx(e), out: out, h: h, nextBet: 1}
	cs.ms = marketkeeper.NewMsgServerImpl(*e.App.MarketKeeper)
	cs.hs = housekeeper.NewMsgServerImpl(*e.App.HouseKeeper)
	cs.bs = betkeeper.NewMsgServerImpl(*e.App.BetKeeper)
	c := &paramsScript{coreScript: cs, pt: pt, monStart: len(out.Mon), reported: map[string]bool{}}
	out.Op("N %d", h)
	out.Impl("n %d", h)
	err, _ := e.Tx(func(ctx sdk.Context) error {
		bm := &bettypes.MsgUpdateParams{Authority: govAuthority, Params: pt.bp}
		if err := bm.ValidateBasic(); err != nil {
			return err
		}
		if _, err := cs.bs.UpdateParams(sdk.WrapSDKContext(ctx), bm); err != nil {
			return err
		}
		hm := &housetypes.MsgUpdateParams{Authority: govAuthority, Params: pt.hp}
		if err := hm.ValidateBasic(); err != nil {
			return err
		}
		if _, err := cs.hs.UpdateParams(sdk.WrapSDKContext(ctx), hm); err != nil {
			return err
		}
		om := &obtypes.MsgUpdateParams{Authority: govAuthority, Params: pt.op}
		if err := om.ValidateBasic(); err != nil {
			return err
		}
		_, err := obkeeper.NewMsgServerImpl(*e.App.OrderbookKeeper).UpdateParams(sdk.WrapSDKContext(ctx), om)
		return err
	})
	if err != nil {
		out.Count("core.point.rejected")
		return c, false
	}
	out.Op("%s", paramsLine(pt))
	for i, a := range e.Accts {
		out.Op("BAL %d %s", i, e.Bal(a))
	}
	cs.height, cs.now = 2, BaseTime+100
	e.SetBlock(cs.height, cs.now)
	out.Op("T %d %d", cs.height, cs.now)
	coreReset(h)
	return c, true
}

// after every operation: the stored amounts
func (c *paramsScript) amounts(what string) {
	e := c.e
	neg := func(field string, v sdkmath.Int, where string) {
		if !v.IsNil() && v.IsNegative() {
			c.fail("no_negative_amount", field, fmt.Sprintf("after %s: %s = %s (%s)", what, field, v, where))
		}
	}
	d := dumpCore(e, c.ix)
	for _, p := range d.parts {
		w := fmt.Sprintf("market %d participation %d", uidN(p.OrderBookUID), p.Index)
		neg("participation.liquidity", p.Liquidity, w)
		neg("participation.fee", p.Fee, w)
		neg("participation.current_round_liquidity", p.CurrentRoundLiquidity, w)
		neg("participation.total_bet_amount", p.TotalBetAmount, w)
		neg("participation.current_round_total_bet_amount", p.CurrentRoundTotalBetAmount, w)
		neg("participation.returned_amount", p.ReturnedAmount, w)
		neg("participation.reimbursed_fee", p.ReimbursedFee, w)
	}
	for _, x := range append(append([]obtypes.ParticipationExposure{}, d.pexps...), d.hist...) {
		w := fmt.Sprintf("market %d participation %d outcome %d round %d", uidN(x.OrderBookUID), x.ParticipationIndex, uidN(x.OddsUID), x.Round)
		neg("exposure.exposure", x.Exposure, w)
		neg("exposure.bet_amount", x.BetAmount, w)
	}
	for _, b := range d.bets {
		w := fmt.Sprintf("bet %d", uidN(b.UID))
		neg("bet.amount", b.Amount, w)
		neg("bet.fee", b.Fee, w)
		for _, f := range b.BetFulfillment {
			neg("bet.fulfilment.bet_amount", f.BetAmount, w)
			neg("bet.fulfilment.payout_profit", f.PayoutProfit, w)
		}
	}
	deps, _ := e.App.HouseKeeper.GetAllDeposits(e.Ctx)
	for _, x := range deps {
		w := fmt.Sprintf("deposit %d of market %d", x.ParticipationIndex, uidN(x.MarketUID))
		neg("deposit.amount", x.Amount, w)
		neg("deposit.total_withdrawal_amount", x.TotalWithdrawalAmount, w)
	}
	wds, _ := e.App.HouseKeeper.GetAllWithdrawals(e.Ctx)
	for _, x := range wds {
		neg("withdrawal.amount", x.Amount, fmt.Sprintf("withdrawal %d of market %d participation %d", x.ID, uidN(x.MarketUID), x.ParticipationIndex))
	}
	neg("balance.pool", d.pool, "module account")
	neg("balance.bet_fee_collector", d.betFee, "module account")
	neg("balance.house_fee_collector", d.hFee, "module account")
}

func (c *paramsScript) txDone(what string, err error) {
	if err != nil && strings.Contains(err.Error(), "division by zero") {
		c.fail("no_zero_divisor", what, fmt.Sprintf("%s panicked: %s", what, trunc(err.Error(), 200)))
	}
	c.finish(err)
	c.amounts(what)
}

func (c *paramsScript) depositI(m *coreMarket, who int, amount sdkmath.Int) {
	tk := c.e.Ticket(0, map[string]interface{}{"kyc_data": kycIgnore()})
	c.out.Op("HD %d 1 1 0 999999 %d %s 0", who, m.n, amount)
	feeBefore := c.e.ModBal(housetypes.HouseFeeCollectorFunder{}.GetModuleAcc())
	err, _ := c.e.Tx(func(ctx sdk.Context) error {
		msg := &housetypes.MsgDeposit{Creator: c.e.Accts[who].String(), MarketUID: m.uid, Amount: amount, Ticket: tk}
		if err := msg.ValidateBasic(); err != nil {
			return err
		}
		_, err := c.hs.Deposit(sdk.WrapSDKContext(ctx), msg)
		return err
	})
	c.out.Count("op.deposit")
	if err == nil {
		c.out.Count("op.deposit.ok")
		fee := c.e.ModBal(housetypes.HouseFeeCollectorFunder{}.GetModuleAcc()).Sub(feeBefore)
		if fee.GT(amount) || fee.IsNegative() {
			c.fail("fee_le_amount", "house-fee-exceeds-deposit-amount", fmt.Sprintf("deposit of %s paid a participation fee of %s", amount, fee))
		}
		if fee.Equal(amount) {
			c.out.Count("diag.deposit.fee_eq_amount") // liquidity 0: allowed by the property (fee ≤ amount)
		}
	}
	c.txDone("deposit", err)
}

func (c *paramsScript) withdrawI(m *coreMarket, who int, idx uint64, mode int, amount sdkmath.Int) {
	tk := c.e.Ticket(0, map[string]interface{}{"kyc_data": kycIgnore()})
	c.out.Op("HW %d 1 1 0 999999 %d %d %d %s 0", who, m.n, idx, mode, amount)
	pre := captureHouse(c.e, 0, who, 1, m.uid, idx)
	defer func() {
		// the C09 monitors of a successful withdrawal (payee, bound, exact partial amount, count): feed ledgers_sound
		if c.lastWithdrawOK {
			withdrawMonitor(c.out, c.h, c.e, c.ix, pre, who, 0, m.uid, idx)
		}
	}()
	c.lastWithdrawOK = false
	err, _ := c.e.Tx(func(ctx sdk.Context) error {
		msg := &housetypes.MsgWithdraw{Creator: c.e.Accts[who].String(), MarketUID: m.uid, ParticipationIndex: idx,
			Mode: housetypes.WithdrawalMode(mode), Amount: amount, Ticket: tk}
		if err := msg.ValidateBasic(); err != nil {
			return err
		}
		_, err := c.hs.Withdraw(sdk.WrapSDKContext(ctx), msg)
		return err
	})
	c.out.Count("op.withdraw")
	if err == nil {
		c.out.Count("op.withdraw.ok")
		c.lastWithdrawOK = true
	}
	c.txDone("withdraw", err)
}

func (c *paramsScript) wagerI(m *coreMarket, who, outcome int, oddsDec string, amount sdkmath.Int) {
	ov := sdkmath.LegacyMustNewDecFromStr(oddsDec)
	var all []map[string]interface{}
	var allOp []string
	for _, o := range m.odds {
		all = append(all, map[string]interface{}{"uid": o, "max_loss_multiplier": "1"})
		allOp = append(allOp, fmt.Sprintf("%d 1000000000000000000", uidN(o)))
	}
	sel := m.odds[outcome]
	tk := c.e.Ticket(0, map[string]interface{}{
		"selected_odds": map[string]interface{}{"uid": sel, "market_uid": m.uid, "value": oddsDec, "max_loss_multiplier": "1"},
		"kyc_data":      kycIgnore(), "all_odds": all,
		"meta": map[string]interface{}{"selected_odds_type": 1, "selected_odds_value": oddsDec, "is_main_market": false},
	})
	bn := c.nextBet
	c.out.Op("W %d 1 1 0 999999 %d %s %d %d %s 1000000000000000000 1 %d %s", who, bn, amount, m.n, uidN(sel), decRaw(ov), len(allOp), strings.Join(allOp, " "))
	feeBefore := c.e.ModBal(bettypes.BetFeeCollectorFunder{}.GetModuleAcc())
	balBefore := c.e.Bal(c.e.Accts[who])
	err, _ := c.e.Tx(func(ctx sdk.Context) error {
		msg := &bettypes.MsgWager{Creator: c.e.Accts[who].String(), Props: &bettypes.WagerProps{UID: UID(clsBet, bn), Amount: amount, Ticket: tk}}
		if err := msg.ValidateBasic(); err != nil {
			return err
		}
		_, err := c.bs.Wager(sdk.WrapSDKContext(ctx), msg)
		return err
	})
	c.out.Count("op.wager")
	if err == nil {
		c.out.Count("op.wager.ok")
		c.nextBet++
		coreSeen.request[UID(clsBet, bn)] = amount.Sub(c.pt.bp.Constraints.Fee)
		fee := c.e.ModBal(bettypes.BetFeeCollectorFunder{}.GetModuleAcc()).Sub(feeBefore)
		paid := balBefore.Sub(c.e.Bal(c.e.Accts[who]))
		if fee.GT(amount) || fee.IsNegative() {
			c.fail("fee_le_amount", "bet-fee-exceeds-wager-amount", fmt.Sprintf("a wager of %s was charged a betting fee of %s (bettor paid %s in total)", amount, fee, paid))
		}
		if fee.Equal(amount) {
			c.out.Count("diag.wager.fee_eq_amount")
		}
	}
	c.txDone("wager", err)
}

// changeBetFee: an accepted MsgUpdateParams moves the wager fee (another value below the minimum amount) while bets are
// pending; every bet keeps the fee recorded on it
func (c *paramsScript) changeBetFee() {
	bp := c.pt.bp
	minA := bp.Constraints.MinAmount
	nf := bp.Constraints.Fee.AddRaw(1)
	if !nf.LT(minA) {
		nf = sdkmath.ZeroInt()
	}
	if nf.Equal(bp.Constraints.Fee) {
		return
	}
	bp.Constraints.Fee = nf
	err, _ := c.e.Tx(func(ctx sdk.Context) error {
		bm := &bettypes.MsgUpdateParams{Authority: govAuthority, Params: bp}
		if err := bm.ValidateBasic(); err != nil {
			return err
		}
		_, err := c.bs.UpdateParams(sdk.WrapSDKContext(ctx), bm)
		return err
	})
	if err != nil {
		c.out.Count("core.feechange.rejected")
		return
	}
	c.pt.bp = bp
	c.fee = nf.Int64()
	c.out.Op("%s", paramsLine(c.pt))
	c.out.Count("core.feechange.ok")
}

func (c *paramsScript) endBlockC17() {
	before := len(c.out.Mon)
	c.endBlock()
	for _, mf := range c.out.Mon[before:] {
		if mf.Property == "C05" && mf.Monitor == "endblock_no_halt" {
			c.fail("no_halt", "endblock/"+mf.Class, mf.Detail)
			if strings.Contains(mf.Detail, "division by zero") {
				c.fail("no_zero_divisor", "endblock", mf.Detail)
			}
		}
	}
	c.amounts("end-block")
}

// ledgers: any monitor of another property that fired in this history
func (c *paramsScript) ledgers() {
	// a bet whose stake is zero (amount = fee, possible when Fee = MinAmount) leaves a fulfilment of amount 0 behind;
	// the C04 monitor of the core suite takes "a fulfilment names the participation" for "the participation received
	// stake", the code and the property ask for stake > 0: its fee-routing alarm is not a ledger fault in that corner
	zeroStake := false
	for _, b := range dumpCore(c.e, c.ix).bets {
		for _, f := range b.BetFulfillment {
			if f.BetAmount.IsZero() {
				zeroStake = true
			}
		}
	}
	for _, mf := range c.out.Mon[c.monStart:] {
		if mf.Property == "C04" && mf.Monitor == "payout_amounts" && zeroStake {
			c.out.Count("diag.ledgers.c04-fee-routing-of-zero-stake-fulfilment")
			continue
		}
		if mf.Property != "C17" {
			cls := mf.Class
			if mf.Property == "C03" && (mf.Monitor == "taken_le_requested" || mf.Monitor == "profit_exact") &&
				c.pt.bp.Constraints.Fee.GT(c.pt.bp.Constraints.MinAmount) {
				cls = "requested-stake-negative-bet-fee-exceeds-amount" // amount − fee < 0: the C03 monitors' own class names another cause
			}
			c.fail("ledgers_sound", mf.Property+"/"+mf.Monitor+"/"+cls, mf.Detail)
		}
	}
}

func maxInt(a, b sdkmath.Int) sdkmath.Int {
	if a.GT(b) {
		return a
	}
	return b
}

func paramsCoreHistory(out *Out, h int, pt corePoint) {
	c, ok := newParamsScript(out, h, pt)
	if !ok {
		return
	}
	out.Count("core.point." + pt.tag)
	minDep, minBet, fee := pt.hp.MinDeposit, pt.bp.Constraints.MinAmount, pt.bp.Constraints.Fee
	d1 := maxInt(minDep, sdkmath.NewInt(1000))
	m := c.market(2)
	c.depositI(m, 1, d1)
	c.depositI(m, 2, minDep)           // exactly the minimum: the fee is taken from the smallest accepted amount
	c.depositI(m, 3, minDep.SubRaw(1)) // below the minimum
	c.depositI(m, 4, d1)               // third participation (MaxOrderBookParticipations 1, 2)
	c.wagerI(m, 6, 0, "2", minBet)     // exactly the minimum: fee vs amount
	c.wagerI(m, 7, 1, "1.5", minBet.Add(fee).AddRaw(10))
	c.wagerI(m, 8, 0, "3", minBet.SubRaw(1)) // below the minimum
	m2 := c.market(2)                        // a market nobody provides liquidity for
	c.wagerI(m2, 9, 0, "1.000000000000000001", minBet)
	c.wagerI(m2, 10, 1, "2", minBet)
	c.wagerI(m, 6, 1, "1.000000000000000001", minBet) // needs no liquidity either
	for i := 0; i < 3; i++ {
		c.withdrawI(m, 1, 1, 2, sdkmath.OneInt()) // MaxWithdrawalCount
	}
	c.withdrawI(m, 2, 2, 1, sdkmath.ZeroInt())
	c.withdrawI(m, 1, 1, 1, sdkmath.ZeroInt()) // full-mode withdrawal after partial ones by the same depositor (needs MaxWithdrawalCount >= 2)
	c.endBlockC17()
	c.changeBetFee() // the fee moves while the bets of both markets are pending: one market is declared, one cancelled
	c.resolve(m, 5, 0)
	c.resolve(m2, 3, 0)
	for i := 0; i < 7; i++ {
		c.endBlockC17()
	}
	c.ledgers()
	out.Count("core.history.complete")
}

func runParamsCore(seed uint64, n int, out *Out) {
	pts := corePoints()
	out.Stats["core.lattice.points"] = int64(len(pts))
	for h := 0; h < n; h++ {
		if skipHist(h) {
			continue
		}
		var pt corePoint
		if h < len(pts) {
			pt = pts[h]
		} else {
			pt = randomCorePoint(NewRng(seed*1_000_003 + uint64(h)))
		}
		paramsCoreHistory(out, h, pt)
	}
}
