package harness

// Correspondence suite + C12 monitors for x/reward.
//
// Every history drives the REAL message servers of x/reward (CreatePromoter, SetPromoterConf, CreateCampaign,
// UpdateCampaign, WithdrawFunds, GrantReward) with real EdDSA JWT tickets, the real authz keeper (grants are
// written with SaveGrant / DeleteGrant), the real subaccount keeper (auto-created subaccounts, TopUp with locks),
// bets written into the real bet store (x/bet is an external parameter of this slice) and the real bank message
// server. After every operation the complete canonical reward state is written (see rewardState) and the C12
// monitors are evaluated on the implementation state.

import (
	"fmt"
	"github.com/cosmos/gogoproto/proto"
	"github.com/sge-network/sge/app"
	"math/big"
	"sort"
	"strconv"
	"strings"
	"time"

	sdkmath "cosmossdk.io/math"
	sdk "github.com/cosmos/cosmos-sdk/types"
	"github.com/cosmos/cosmos-sdk/x/authz"
	bankkeeper "github.com/cosmos/cosmos-sdk/x/bank/keeper"
	banktypes "github.com/cosmos/cosmos-sdk/x/bank/types"

	"github.com/sge-network/sge/app/params"
	bettypes "github.com/sge-network/sge/x/bet/types"
	rewardkeeper "github.com/sge-network/sge/x/reward/keeper"
	rewardtypes "github.com/sge-network/sge/x/reward/types"
	subaccounttypes "github.com/sge-network/sge/x/subaccount/types"
)

func init() { suites["reward"] = runReward }

const (
	rwPool    = 500  // model address id of the reward pool module account
	rwSubBase = 1000 // model address id of the subaccount of account i is rwSubBase+i
	rwFarExp  = 10_000_000
)

// optional Int / Dec of a ticket payload: nil pointer = the key is absent (nil after decoding)
type oInt = *int64

func oi(v int64) oInt { return &v }
func oiStr(v oInt) string {
	if v == nil {
		return "-"
	}
	return strconv.FormatInt(*v, 10)
}
func oiInt(v oInt) sdkmath.Int {
	if v == nil {
		return sdkmath.Int{}
	}
	return sdkmath.NewInt(*v)
}
func rawDecStr(raw int64) string { return decFromRaw(big.NewInt(raw)).String() }

// rwHist is the per-history driver state (everything the generator and the monitors remember).
type rwHist struct {
	e       *Env
	r       *Rng
	out     *Out
	h       int
	srv     rewardtypes.MsgServer
	bank    banktypes.MsgServer
	idx     map[string]int // bech32 -> model address id
	poolA   sdk.AccAddress
	nextUID int
	// generator memory
	promoterIDs []int
	campaignIDs []int
	rewardIDs   []int
	betIDs      []int
	betOwner    map[int]int
	nextBetSeq  uint64
	grantKeys   map[[3]int]bool
	lastGrant   *rwGrantOp
	// monitor memory
	granted      map[int]bool
	scripted     bool   // scripted minimal reproductions: every ticket valid
	poolEqBroken string // class of the first op after which the pool equation failed
}

type rwGrantOp struct {
	campaign int
	ticket   string
	tv       bool
	receiver int
	kyc      string
	srcOk    bool
	referee  int
	bet      int
}

func (s *rwHist) addr(i int) sdk.AccAddress {
	if i >= rwSubBase {
		sub, _ := s.e.App.SubaccountKeeper.GetSubaccountByOwner(s.e.Ctx, s.addr(i-rwSubBase))
		return sub
	}
	if i == rwPool {
		return s.poolA
	}
	return s.e.Accts[i]
}

// owners lists every address id that may own a subaccount in a history: the plain accounts and the reward pool
// itself (a grant whose ticket names the pool address as receiver)
func owners() []int {
	var os []int
	for i := 0; i < NAcct; i++ {
		os = append(os, i)
	}
	return append(os, rwPool)
}
func (s *rwHist) addrStr(i int) string { return s.addr(i).String() }

func (s *rwHist) aid(bech string) int {
	if i, ok := s.idx[bech]; ok {
		return i
	}
	a, err := sdk.AccAddressFromBech32(bech)
	if err == nil {
		if owner, ok := s.e.App.SubaccountKeeper.GetSubaccountOwner(s.e.Ctx, a); ok {
			return rwSubBase + s.idx[owner.String()]
		}
	}
	return 999999
}

func rwUID(n int) string { return UID(0x12, n) }
func rwUIDNum(u string) int {
	if len(u) != 36 {
		return 0
	}
	n, err := strconv.ParseInt(u[24:], 16, 64)
	if err != nil {
		return 0
	}
	return int(n)
}

// ticket signs claims; valid tickets are signed by the leader key and expire far in the future.
// mode 0 = valid, 1 = signed by a non-leader key, 2 = exp == block time (expired), 3 = exp < block time
func (s *rwHist) ticket(mode int, claims map[string]interface{}) (string, bool) {
	c := map[string]interface{}{}
	for k, v := range claims {
		c[k] = v
	}
	key := 0
	c["exp"] = s.e.Time + rwFarExp
	switch mode {
	case 1:
		key = 1
	case 2:
		c["exp"] = s.e.Time
	case 3:
		c["exp"] = s.e.Time - 1 - int64(s.r.Intn(50))
	}
	return s.e.Ticket(key, c), mode == 0
}

func (s *rwHist) ticketMode() int {
	if s.scripted {
		return 0
	}
	if s.r.Chance(93) {
		return 0
	}
	return 1 + s.r.Intn(3)
}

// ---------------------------------------------------------------------------------------------
// error classification (result class compared with the model)

func rwHas(msg string, subs ...string) bool {
	for _, x := range subs {
		if strings.Contains(msg, x) {
			return true
		}
	}
	return false
}

func rwAuthzClass(msg string) string {
	switch {
	case rwHas(msg, "no authorization found"):
		return "authz-notfound"
	case rwHas(msg, "authorization not accepted"):
		return "authz-rejected"
	case rwHas(msg, "expiration must be after"):
		return "authz-save"
	}
	return ""
}

func rwClassify(kind string, err error, panicked bool) string {
	if err == nil {
		return "ok"
	}
	if panicked {
		return "err panic"
	}
	msg := err.Error()
	tag := ""
	switch kind {
	case "CP":
		switch {
		case rwHas(msg, "ticket verification failed"):
			tag = "ticket"
		case rwHas(msg, "already exists", "is already registered for the promoter"):
			tag = "exists"
		default:
			tag = "validate"
		}
	case "SC":
		switch {
		case rwHas(msg, "promoter does not exist"):
			tag = "notfound"
		case rwHas(msg, "creator should be one of stored addresses"):
			tag = "notowner"
		case rwHas(msg, "ticket verification failed"):
			tag = "ticket"
		default:
			tag = "validate"
		}
	case "CC":
		switch {
		case rwHas(msg, "already exists"):
			tag = "exists"
		case rwHas(msg, "ticket verification failed"):
			tag = "ticket"
		case rwHas(msg, "promoter with the address"):
			tag = "nopromoter"
		case rwAuthzClass(msg) != "":
			tag = rwAuthzClass(msg)
		case rwHas(msg, "start timestamp can not be after end time", "campaign is expired", "reward category is not compatible",
			"unknown category reward", "reward percentage is not allowed", "reward amount should be set",
			"reward amount is not allowed", "reward percentage should be set", "unsupported reward amount type",
			"sub account should have unlock period", "can not be negative"):
			tag = "validate"
		case rwHas(msg, "is more than total funds"):
			tag = "funds-lt-reward"
		case rwHas(msg, "defined reward percentage is equal or more"):
			tag = "pct"
		case rwHas(msg, "unknown reward type"):
			tag = "type"
		case rwHas(msg, "wrong reward category", "wrong amount for account type", "wrong reward amount type", "missing constraints"):
			tag = "vcampaign"
		case rwHas(msg, "error in funding the campaign pool"):
			tag = "fund"
		}
	case "UC":
		switch {
		case rwHas(msg, "ticket verification failed"):
			tag = "ticket"
		case rwHas(msg, "campaign is expired"):
			tag = "validate"
		case rwHas(msg, "does not exist"):
			tag = "notfound"
		case rwHas(msg, "inactive campaign"):
			tag = "inactive"
		case rwAuthzClass(msg) != "":
			tag = rwAuthzClass(msg)
		case rwHas(msg, "error in funding the campaign pool"):
			tag = "fund"
		}
	case "WF":
		switch {
		case rwHas(msg, "ticket verification failed"):
			tag = "ticket"
		case rwHas(msg, "campaign not found"):
			tag = "notfound"
		case rwHas(msg, "promoter should be the same"):
			tag = "mismatch"
		case rwAuthzClass(msg) != "":
			tag = rwAuthzClass(msg)
		case rwHas(msg, "pool amount should be positive"):
			tag = "nopool"
		case rwHas(msg, "not enough withdrawable balance"):
			tag = "avail"
		case rwHas(msg, "error in withdrawing from the campaign pool"):
			tag = "refund"
		}
	case "GR":
		switch {
		case rwHas(msg, "distribution calculation failed"):
			switch {
			case rwHas(msg, "ticket verification failed"):
				tag = "calc-ticket"
			case rwHas(msg, "KYC Validation failed"):
				tag = "calc-kyc"
			case rwHas(msg, "source address is invalid"):
				tag = "calc-src"
			case rwHas(msg, "claim record", "promoter with the address"):
				tag = "calc-noref"
			case rwHas(msg, "receiver account can not be sub account"):
				tag = "calc-issub"
			case rwHas(msg, "bet id not found", "bet not found", "main market bets only", "bet should be winner or loser"):
				tag = "calc-bet"
			}
		case rwHas(msg, "reward grant with uid"):
			tag = "exists"
		case rwHas(msg, "campaign with the uid") && rwHas(msg, "not found"):
			tag = "notfound"
		case rwHas(msg, "not active"):
			tag = "inactive"
		case rwHas(msg, "campaign validity period is ended"):
			tag = "ended"
		case rwHas(msg, "not started yet"):
			tag = "notstarted"
		case rwHas(msg, "maximum count cap"):
			tag = "cap"
		case rwHas(msg, "promoter with the"):
			tag = "nopromoter"
		case rwHas(msg, "maximum rewards claimed"):
			tag = "catcap"
		case rwHas(msg, "insufficient campaign pool balance"):
			tag = "pool"
		case rwHas(msg, "reward distribution failed"):
			tag = "distribute"
		}
	case "SEND":
		switch {
		case rwHas(msg, "is not allowed to receive funds"):
			tag = "blocked"
		case rwHas(msg, "insufficient funds"):
			tag = "insufficient"
		}
	}
	if tag == "" {
		tag = "unknown:" + strings.ReplaceAll(msg, " ", "_")
	}
	return "err " + tag
}

// ---------------------------------------------------------------------------------------------
// canonical state

type rwCamp struct {
	c  rewardtypes.Campaign
	id int
}

func (s *rwHist) campaigns() []rwCamp {
	var cs []rwCamp
	for _, c := range s.e.App.RewardKeeper.GetAllCampaign(s.e.Ctx) {
		cs = append(cs, rwCamp{c, rwUIDNum(c.UID)})
	}
	sort.Slice(cs, func(i, j int) bool { return cs[i].id < cs[j].id })
	return cs
}

func rwAvail(p rewardtypes.Pool) sdkmath.Int { return p.Total.Sub(p.Spent).Sub(p.Withdrawn) }

func (s *rwHist) booked() sdkmath.Int {
	t := sdkmath.ZeroInt()
	for _, c := range s.campaigns() {
		t = t.Add(rwAvail(c.c.Pool))
	}
	return t
}

func rwAmtStr(a *rewardtypes.RewardAmount) string {
	if a == nil {
		return "0 0 0 0 0"
	}
	return fmt.Sprintf("%s %s %d %s %s", intStr(a.MainAccountAmount), intStr(a.SubaccountAmount), a.UnlockPeriod,
		decRaw(a.MainAccountPercentage), decRaw(a.SubaccountPercentage))
}

type rwGrantRec struct {
	granter, grantee, kind int
	limit                  sdkmath.Int
	exp                    string
	expUnix                int64
	hasExp                 bool
}

func (s *rwHist) grants() []rwGrantRec {
	var gs []rwGrantRec
	s.e.App.AuthzKeeper.IterateGrants(s.e.Ctx, func(granter, grantee sdk.AccAddress, g authz.Grant) bool {
		a, err := g.GetAuthorization()
		if err != nil {
			return false
		}
		rec := rwGrantRec{granter: s.aid(granter.String()), grantee: s.aid(grantee.String()), exp: "-"}
		switch v := a.(type) {
		case *rewardtypes.CreateCampaignAuthorization:
			rec.kind, rec.limit = 0, v.SpendLimit
		case *rewardtypes.UpdateCampaignAuthorization:
			rec.kind, rec.limit = 1, v.SpendLimit
		case *rewardtypes.WithdrawCampaignAuthorization:
			rec.kind, rec.limit = 2, v.WithdrawLimit
		default:
			return false
		}
		if g.Expiration != nil {
			rec.exp = strconv.FormatInt(g.Expiration.Unix(), 10)
			rec.expUnix, rec.hasExp = g.Expiration.Unix(), true
		}
		gs = append(gs, rec)
		return false
	})
	sort.Slice(gs, func(i, j int) bool {
		a, b := gs[i], gs[j]
		if a.granter != b.granter {
			return a.granter < b.granter
		}
		if a.grantee != b.grantee {
			return a.grantee < b.grantee
		}
		return a.kind < b.kind
	})
	return gs
}

// rewardState writes the complete canonical state of the slice (same lines as Driver/Reward.lean showState).
func (s *rwHist) rewardState() {
	e, k, out := s.e, s.e.App.RewardKeeper, s.out
	out.Impl("t %d", e.Time)
	ps := k.GetAllPromoter(e.Ctx)
	sort.Slice(ps, func(i, j int) bool { return rwUIDNum(ps[i].UID) < rwUIDNum(ps[j].UID) })
	for _, p := range ps {
		var as, cf []string
		for _, a := range p.Addresses {
			as = append(as, strconv.Itoa(s.aid(a)))
		}
		for _, c := range p.Conf.CategoryCap {
			cf = append(cf, fmt.Sprintf("%d:%d", int32(c.Category), c.CapPerAcc))
		}
		out.Impl("P %d %d [%s] [%s]", rwUIDNum(p.UID), s.aid(p.Creator), strings.Join(as, ","), strings.Join(cf, ","))
	}
	for i := 0; i < NAcct; i++ {
		if pa, ok := k.GetPromoterByAddress(e.Ctx, e.Accts[i].String()); ok {
			out.Impl("A %d %d", i, rwUIDNum(pa.PromoterUID))
		}
	}
	cs := s.campaigns()
	for _, cc := range cs {
		c := cc.c
		mb := "x"
		if c.Constraints != nil {
			mb = intStr(c.Constraints.MaxBetAmount)
		}
		out.Impl("C %d %d %d %d %d %d %d %d %s %s %s %s %d %d %s", cc.id, s.aid(c.Creator), s.aid(c.Promoter), c.StartTS, c.EndTS,
			int32(c.RewardCategory), int32(c.RewardType), int32(c.RewardAmountType), rwAmtStr(c.RewardAmount),
			intStr(c.Pool.Total), intStr(c.Pool.Spent), intStr(c.Pool.Withdrawn), b2i(c.IsActive), c.CapCount, mb)
	}
	rs := k.GetAllRewards(e.Ctx)
	sort.Slice(rs, func(i, j int) bool { return rwUIDNum(rs[i].UID) < rwUIDNum(rs[j].UID) })
	for _, r := range rs {
		out.Impl("R %d %d %d %d %s", rwUIDNum(r.UID), s.aid(r.Creator), s.aid(r.Receiver), rwUIDNum(r.CampaignUID), rwAmtStr(r.RewardAmount))
	}
	// the by-category index is keyed by (promoter uid, receiver, category, reward uid); the promoter uid is only in the key
	var xs [][4]int
	for _, p := range ps {
		for _, i := range owners() {
			for cat := int32(0); cat <= 7; cat++ {
				l, _ := k.GetRewardsOfReceiverByPromoterAndCategory(e.Ctx, p.UID, s.addrStr(i), rewardtypes.RewardCategory(cat))
				for _, x := range l {
					xs = append(xs, [4]int{rwUIDNum(p.UID), s.aid(x.Addr), int(x.RewardCategory), rwUIDNum(x.UID)})
				}
			}
		}
	}
	if n := len(k.GetAllRewardsOfReceiverByPromoterAndCategory(e.Ctx)); n != len(xs) {
		out.Impl("X-unreached %d", n-len(xs))
	}
	sort.Slice(xs, func(i, j int) bool {
		for q := 0; q < 4; q++ {
			if xs[i][q] != xs[j][q] {
				return xs[i][q] < xs[j][q]
			}
		}
		return false
	})
	for _, x := range xs {
		out.Impl("X %d %d %d %d", x[0], x[1], x[2], x[3])
	}
	ys := k.GetAllRewardsByCampaign(e.Ctx)
	sort.Slice(ys, func(i, j int) bool {
		a, b := rwUIDNum(ys[i].CampaignUID), rwUIDNum(ys[j].CampaignUID)
		if a != b {
			return a < b
		}
		return rwUIDNum(ys[i].UID) < rwUIDNum(ys[j].UID)
	})
	for _, y := range ys {
		out.Impl("Y %d %d", rwUIDNum(y.CampaignUID), rwUIDNum(y.UID))
	}
	for _, cc := range cs {
		for _, i := range owners() {
			if n, ok := k.GetRewardGrantsStats(e.Ctx, cc.c.UID, s.addrStr(i)); ok {
				out.Impl("S %d %d %d", cc.id, i, n)
			}
		}
	}
	for _, g := range s.grants() {
		out.Impl("G %d %d %d %s %s", g.granter, g.grantee, g.kind, intStr(g.limit), g.exp)
	}
	for _, i := range owners() {
		sub, ok := e.App.SubaccountKeeper.GetSubaccountByOwner(e.Ctx, s.addr(i))
		if !ok {
			continue
		}
		sum, _ := e.App.SubaccountKeeper.GetAccountSummary(e.Ctx, sub)
		lbs, _ := e.App.SubaccountKeeper.GetBalances(e.Ctx, sub, subaccounttypes.LockedBalanceStatus_LOCKED_BALANCE_STATUS_UNSPECIFIED)
		var ls []string
		for _, lb := range lbs {
			ls = append(ls, fmt.Sprintf("%d:%s", lb.UnlockTS, intStr(lb.Amount)))
		}
		out.Impl("U %d %s %s [%s]", i, e.Bal(sub), intStr(sum.DepositedAmount), strings.Join(ls, ","))
	}
	var bs []string
	bs = append(bs, e.Bal(s.poolA).String())
	for i := 0; i < NAcct; i++ {
		bs = append(bs, e.Bal(e.Accts[i]).String())
	}
	out.Impl("B %s", strings.Join(bs, " "))
}

// ---------------------------------------------------------------------------------------------
// monitors (property C12, evaluated on the implementation state)

type rwSnap struct {
	pool   sdkmath.Int
	booked sdkmath.Int
	bal    map[int]sdkmath.Int
}

func (s *rwHist) snap() rwSnap {
	sn := rwSnap{pool: s.e.Bal(s.poolA), booked: s.booked(), bal: map[int]sdkmath.Int{}}
	for _, i := range owners() {
		sn.bal[i] = s.e.Bal(s.addr(i))
		if sub, ok := s.e.App.SubaccountKeeper.GetSubaccountByOwner(s.e.Ctx, s.addr(i)); ok {
			sn.bal[rwSubBase+i] = s.e.Bal(sub)
		} else {
			sn.bal[rwSubBase+i] = sdkmath.ZeroInt()
		}
	}
	return sn
}

func (s *rwHist) fail(mon, class, detail string) {
	s.out.Fail(MonFail{Property: "C12", Monitor: mon, Class: class, History: s.h, Detail: detail})
}

func rwNegComponent(c rewardtypes.Campaign) bool {
	a := c.RewardAmount
	return a != nil && (a.MainAccountAmount.IsNegative() || a.SubaccountAmount.IsNegative() ||
		a.MainAccountPercentage.IsNegative() || a.SubaccountPercentage.IsNegative())
}

// monAfter: checks that hold after every operation. `class` describes the operation (call site + input shape).
func (s *rwHist) monAfter(before rwSnap, class string) rwSnap {
	after := s.snap()
	// every coin entering or leaving the pool is booked
	dPool, dBooked := after.pool.Sub(before.pool), after.booked.Sub(before.booked)
	if !dPool.Equal(dBooked) {
		s.fail("pool_delta_booked", class, fmt.Sprintf("pool balance changed by %s, booked amounts (sum total-spent-withdrawn) by %s", dPool, dBooked))
		if s.poolEqBroken == "" {
			s.poolEqBroken = class
		}
	}
	if !after.pool.Equal(after.booked) {
		cl := s.poolEqBroken
		if cl == "" {
			cl = class
		}
		s.fail("pool_eq", cl, fmt.Sprintf("reward pool balance %s != sum over campaigns of total-spent-withdrawn %s", after.pool, after.booked))
	}
	for _, cc := range s.campaigns() {
		if rwAvail(cc.c.Pool).IsNegative() {
			s.fail("available_nonneg", class, fmt.Sprintf("campaign %d available %s", cc.id, rwAvail(cc.c.Pool)))
		}
	}
	return after
}

// ---------------------------------------------------------------------------------------------
// operations

func (s *rwHist) emit(kind string, err error, panicked bool) string {
	res := rwClassify(kind, err, panicked)
	// only success / failure is compared with the model; the kind of error (derived from the wording of the Go error)
	// goes into the statistics
	if res == "ok" {
		s.out.Impl("r ok")
	} else {
		s.out.Impl("r err")
	}
	s.out.Count("op." + kind + "." + strings.Fields(res + " ")[0])
	if res != "ok" {
		s.out.Count("err." + kind + "." + strings.TrimPrefix(res, "err "))
	}
	s.rewardState()
	return res
}

func (s *rwHist) opTime(t int64) {
	before := s.snap()
	s.out.Op("T %d", t)
	s.e.SetBlock(s.e.Height+1, t)
	s.emit("T", nil, false)
	s.monAfter(before, "time")
}

func confClaims(conf [][2]int64) (map[string]interface{}, string) {
	var cc []map[string]interface{}
	var sb strings.Builder
	fmt.Fprintf(&sb, "%d", len(conf))
	for _, c := range conf {
		cc = append(cc, map[string]interface{}{"category": c[0], "cap_per_acc": c[1]})
		fmt.Fprintf(&sb, " %d %d", c[0], c[1])
	}
	if cc == nil {
		cc = []map[string]interface{}{}
	}
	return map[string]interface{}{"category_cap": cc}, sb.String()
}

func (s *rwHist) genConf() [][2]int64 {
	var conf [][2]int64
	n := s.r.Intn(4)
	cats := []int64{1, 1, 2, 3, 6, 5}
	for i := 0; i < n; i++ {
		cap := s.r.Pick([]int64{1, 1, 2, 2, 3, 5})
		if s.r.Chance(4) {
			cap = s.r.Pick([]int64{0, -1})
		}
		conf = append(conf, [2]int64{s.r.Pick(cats), cap})
	}
	return conf
}

func (s *rwHist) opCreatePromoter(creator int, clean bool) {
	before := s.snap()
	uid := s.nextUID
	s.nextUID++
	uidStr, uidOk := rwUID(uid), true
	if s.r.Chance(3) {
		uid, uidStr, uidOk = 0, "not a uid", false
	} else if len(s.promoterIDs) > 0 && s.r.Chance(6) {
		uid = s.promoterIDs[s.r.Intn(len(s.promoterIDs))]
		uidStr = rwUID(uid)
	}
	conf := s.genConf()
	mode := s.ticketMode()
	if clean {
		// the opening promoter of a history: valid ticket, well-formed configuration
		mode, uid, uidStr, uidOk = 0, s.nextUID-1, rwUID(s.nextUID-1), true
		seen := map[int64]bool{}
		var cf [][2]int64
		for _, c := range conf {
			if !seen[c[0]] && c[1] > 0 {
				seen[c[0]] = true
				cf = append(cf, c)
			}
		}
		conf = cf
	}
	cm, cs := confClaims(conf)
	tk, tv := s.ticket(mode, map[string]interface{}{"uid": uidStr, "conf": cm})
	s.out.Op("CP %d %d %d %d %s", creator, b2i(tv), uid, b2i(uidOk), cs)
	msg := &rewardtypes.MsgCreatePromoter{Creator: s.addrStr(creator), Ticket: tk}
	err, p := s.e.Tx(func(ctx sdk.Context) error {
		if err := msg.ValidateBasic(); err != nil {
			return err
		}
		_, err := s.srv.CreatePromoter(sdk.WrapSDKContext(ctx), msg)
		return err
	})
	if s.emit("CP", err, p) == "ok" {
		s.promoterIDs = append(s.promoterIDs, uid)
	}
	s.monAfter(before, "create-promoter")
}

func (s *rwHist) opSetConf(creator, uid int) {
	before := s.snap()
	conf := s.genConf()
	cm, cs := confClaims(conf)
	tk, tv := s.ticket(s.ticketMode(), map[string]interface{}{"conf": cm})
	s.out.Op("SC %d %d %d %s", creator, uid, b2i(tv), cs)
	msg := &rewardtypes.MsgSetPromoterConf{Creator: s.addrStr(creator), Uid: rwUID(uid), Ticket: tk}
	err, p := s.e.Tx(func(ctx sdk.Context) error {
		if err := msg.ValidateBasic(); err != nil {
			return err
		}
		_, err := s.srv.SetPromoterConf(sdk.WrapSDKContext(ctx), msg)
		return err
	})
	s.emit("SC", err, p)
	s.monAfter(before, "set-promoter-conf")
}

type rwCreate struct {
	creator, uid         int
	funds                oInt
	promoter             int
	start, end           int64
	cat, rtype, amtType  int64
	hasRA                bool
	main, sub            oInt
	unlock               int64
	mainPct, subPct      oInt // raw 18-digit
	active               bool
	capCount             int64
	consPresent, consNil bool
	cons                 int64
}

func (s *rwHist) opCreateCampaign(m rwCreate) {
	before := s.snap()
	claims := map[string]interface{}{
		"promoter": s.addrStr(m.promoter), "start_ts": m.start, "end_ts": m.end, "category": m.cat,
		"reward_type": m.rtype, "reward_amount_type": m.amtType, "is_active": m.active, "meta": "campaign",
		"cap_count": m.capCount,
	}
	if m.hasRA {
		ra := map[string]interface{}{"unlock_period": m.unlock}
		if m.main != nil {
			ra["main_account_amount"] = strconv.FormatInt(*m.main, 10)
		}
		if m.sub != nil {
			ra["subaccount_amount"] = strconv.FormatInt(*m.sub, 10)
		}
		if m.mainPct != nil {
			ra["main_account_percentage"] = rawDecStr(*m.mainPct)
		}
		if m.subPct != nil {
			ra["subaccount_percentage"] = rawDecStr(*m.subPct)
		}
		claims["reward_amount"] = ra
	}
	cons := "x"
	if m.consPresent {
		if m.consNil {
			claims["constraints"] = map[string]interface{}{}
			cons = "-"
		} else {
			claims["constraints"] = map[string]interface{}{"max_bet_amount": strconv.FormatInt(m.cons, 10)}
			cons = strconv.FormatInt(m.cons, 10)
		}
	}
	tk, tv := s.ticket(s.ticketMode(), claims)
	s.out.Op("CC %d %d %s %d %d %d %d %d %d %d %d %s %s %d %s %s %d %d %s", m.creator, m.uid, oiStr(m.funds), b2i(tv), m.promoter,
		m.start, m.end, m.cat, m.rtype, m.amtType, b2i(m.hasRA), oiStr(m.main), oiStr(m.sub), m.unlock, oiStr(m.mainPct), oiStr(m.subPct),
		b2i(m.active), m.capCount, cons)
	msg := &rewardtypes.MsgCreateCampaign{Creator: s.addrStr(m.creator), Uid: rwUID(m.uid), Ticket: tk, TotalFunds: oiInt(m.funds)}
	err, p := s.e.Tx(func(ctx sdk.Context) error {
		if err := msg.ValidateBasic(); err != nil {
			return fmt.Errorf("basic: %w", err)
		}
		_, err := s.srv.CreateCampaign(sdk.WrapSDKContext(ctx), msg)
		return err
	})
	res := ""
	if err != nil && strings.HasPrefix(err.Error(), "basic: ") {
		s.out.Impl("r err")
		s.out.Count("op.CC.err")
		s.out.Count("err.CC.basic")
		s.rewardState()
	} else {
		res = s.emit("CC", err, p)
	}
	class := "create-campaign"
	if res == "ok" {
		s.campaignIDs = append(s.campaignIDs, m.uid)
		c, _ := s.e.App.RewardKeeper.GetCampaign(s.e.Ctx, rwUID(m.uid))
		if m.creator != m.promoter {
			s.out.Count("create.grantee")
		}
		if rwNegComponent(c) {
			s.out.Count("campaign.negative-component")
		}
		s.out.Count(fmt.Sprintf("campaign.type.%d", m.rtype))
		// creation moves exactly TotalFunds from the promoter into the pool
		after := s.snap()
		if !after.pool.Sub(before.pool).Equal(*msgFunds(m.funds)) || !before.bal[m.promoter].Sub(after.bal[m.promoter]).Equal(*msgFunds(m.funds)) {
			s.fail("create_funds", class, fmt.Sprintf("campaign %d funds %s: pool delta %s promoter delta %s", m.uid, oiStr(m.funds),
				after.pool.Sub(before.pool), after.bal[m.promoter].Sub(before.bal[m.promoter])))
		}
	}
	s.monAfter(before, class)
}

func msgFunds(v oInt) *sdkmath.Int {
	x := sdkmath.ZeroInt()
	if v != nil {
		x = sdkmath.NewInt(*v)
	}
	return &x
}

// authorised reports whether `creator` may act for `promoter` with message kind `kind` consuming `amount`
// according to the authz state before the operation.
func (s *rwHist) authorised(gs []rwGrantRec, promoter, creator, kind int, amount sdkmath.Int) bool {
	if creator == promoter {
		return true
	}
	for _, g := range gs {
		if g.granter == promoter && g.grantee == creator && g.kind == kind {
			if g.hasExp && g.expUnix < s.e.Time {
				return false
			}
			return !amount.IsPositive() || amount.LTE(g.limit)
		}
	}
	return false
}

func (s *rwHist) opUpdateCampaign(creator, uid int, topup oInt, end int64, active bool) {
	before := s.snap()
	gsBefore := s.grants()
	cBefore, found := s.e.App.RewardKeeper.GetCampaign(s.e.Ctx, rwUID(uid))
	tk, tv := s.ticket(s.ticketMode(), map[string]interface{}{"end_ts": end, "is_active": active})
	s.out.Op("UC %d %d %s %d %d %d", creator, uid, oiStr(topup), b2i(tv), end, b2i(active))
	msg := &rewardtypes.MsgUpdateCampaign{Creator: s.addrStr(creator), Uid: rwUID(uid), Ticket: tk, TopupFunds: oiInt(topup)}
	err, p := s.e.Tx(func(ctx sdk.Context) error {
		if err := msg.ValidateBasic(); err != nil {
			return err
		}
		_, err := s.srv.UpdateCampaign(sdk.WrapSDKContext(ctx), msg)
		return err
	})
	res := s.emit("UC", err, p)
	class := "update-campaign"
	if res == "ok" && found {
		prom := s.aid(cBefore.Promoter)
		amt := *msgFunds(topup)
		if !s.authorised(gsBefore, prom, creator, 1, amt) {
			s.fail("promoter_only", class, fmt.Sprintf("campaign %d of promoter %d updated by %d (topup %s) without being promoter or grantee", uid, prom, creator, oiStr(topup)))
		}
		if creator == prom {
			s.out.Count("update.own")
		} else {
			s.out.Count("update.grantee")
		}
		want := sdkmath.ZeroInt()
		if amt.IsPositive() {
			want = amt
			s.out.Count("update.topup")
		}
		after := s.snap()
		if !after.pool.Sub(before.pool).Equal(want) || !before.bal[prom].Sub(after.bal[prom]).Equal(want) {
			s.fail("topup_funds", class, fmt.Sprintf("campaign %d topup %s: pool delta %s promoter delta %s", uid, oiStr(topup),
				after.pool.Sub(before.pool), after.bal[prom].Sub(before.bal[prom])))
		}
	}
	s.monAfter(before, class)
}

func (s *rwHist) opWithdraw(creator, uid int, amount oInt, payloadPromoter int) {
	before := s.snap()
	gsBefore := s.grants()
	cBefore, found := s.e.App.RewardKeeper.GetCampaign(s.e.Ctx, rwUID(uid))
	tk, tv := s.ticket(s.ticketMode(), map[string]interface{}{"promoter": s.addrStr(payloadPromoter)})
	s.out.Op("WF %d %d %s %d %d", creator, uid, oiStr(amount), b2i(tv), payloadPromoter)
	msg := &rewardtypes.MsgWithdrawFunds{Creator: s.addrStr(creator), Uid: rwUID(uid), Ticket: tk, Amount: oiInt(amount)}
	err, p := s.e.Tx(func(ctx sdk.Context) error {
		if err := msg.ValidateBasic(); err != nil {
			return err
		}
		_, err := s.srv.WithdrawFunds(sdk.WrapSDKContext(ctx), msg)
		return err
	})
	res := s.emit("WF", err, p)
	class := "withdraw-funds"
	if res == "ok" && found {
		prom := s.aid(cBefore.Promoter)
		amt := *msgFunds(amount)
		if !s.authorised(gsBefore, prom, creator, 2, amt) {
			s.fail("promoter_only", class, fmt.Sprintf("campaign %d of promoter %d withdrawn by %d (amount %s) without being promoter or grantee within limit", uid, prom, creator, oiStr(amount)))
		}
		if creator == prom {
			s.out.Count("withdraw.own")
		} else {
			s.out.Count("withdraw.grantee")
		}
		availBefore := rwAvail(cBefore.Pool)
		if amt.GT(availBefore) || amt.IsNegative() {
			s.fail("withdraw_le_available", class, fmt.Sprintf("campaign %d withdrew %s of available %s", uid, amt, availBefore))
		}
		after := s.snap()
		if !before.pool.Sub(after.pool).Equal(amt) || !after.bal[prom].Sub(before.bal[prom]).Equal(amt) {
			s.fail("withdraw_funds", class, fmt.Sprintf("campaign %d withdraw %s: pool delta %s promoter delta %s", uid, amt,
				after.pool.Sub(before.pool), after.bal[prom].Sub(before.bal[prom])))
		}
	}
	s.monAfter(before, class)
}

func (s *rwHist) grantClaims(g *rwGrantOp) map[string]interface{} {
	rcv := s.addrStr(g.receiver)
	common := map[string]interface{}{"receiver": rcv, "meta": "grant"}
	if g.srcOk {
		common["source_uid"] = s.addrStr(11)
	} else {
		common["source_uid"] = rwUID(77)
	}
	if g.kyc != "x" {
		id := rcv
		if g.kyc[2] == '0' {
			id = s.addrStr((g.receiver%rwSubBase + 1) % NAcct)
		}
		common["kyc_data"] = map[string]interface{}{"ignore": g.kyc[0] == '1', "approved": g.kyc[1] == '1', "id": id}
	}
	return map[string]interface{}{"common": common, "referee": s.addrStr(g.referee), "affiliatee": s.addrStr(g.referee),
		"bet_uid": UID(0x13, g.bet)}
}

func (s *rwHist) opGrant(creator, uid int, g *rwGrantOp, replay bool) {
	before := s.snap()
	cBefore, found := s.e.App.RewardKeeper.GetCampaign(s.e.Ctx, rwUID(g.campaign))
	if !replay {
		tk, tv := s.ticket(s.ticketMode(), s.grantClaims(g))
		g.ticket, g.tv = tk, tv
	}
	s.out.Op("GR %d %d %d %d %d %s %d %d %d", creator, uid, g.campaign, b2i(g.tv), g.receiver, g.kyc, b2i(g.srcOk), g.referee, g.bet)
	msg := &rewardtypes.MsgGrantReward{Creator: s.addrStr(creator), Uid: rwUID(uid), CampaignUid: rwUID(g.campaign), Ticket: g.ticket}
	err, p := s.e.Tx(func(ctx sdk.Context) error {
		if err := msg.ValidateBasic(); err != nil {
			return err
		}
		_, err := s.srv.GrantReward(sdk.WrapSDKContext(ctx), msg)
		return err
	})
	res := s.emit("GR", err, p)
	if replay {
		s.out.Count("grant.replay." + strings.Fields(res)[0])
	}
	class := "grant"
	if found {
		class = fmt.Sprintf("grant:type-%d", int32(cBefore.RewardType))
		if rwNegComponent(cBefore) {
			// one input shape, whatever the reward type: the campaign was accepted with a negative component
			class = "grant:negative-component"
		}
	}
	if res == "ok" && found {
		s.lastGrant = g
		s.rewardIDs = append(s.rewardIDs, uid)
		s.out.Count(fmt.Sprintf("grant.ok.type.%d", int32(cBefore.RewardType)))
		k := s.e.App.RewardKeeper
		t := uint64(s.e.Time)
		// granted at most once per reward uid
		if s.granted[uid] {
			s.fail("grant_once", class, fmt.Sprintf("reward uid %d granted a second time", uid))
		}
		s.granted[uid] = true
		// only from an active campaign inside its window, with a verified ticket and valid KYC
		if !cBefore.IsActive || t < cBefore.StartTS || t > cBefore.EndTS {
			s.fail("grant_conditions", class+":window", fmt.Sprintf("campaign %d active=%v window [%d,%d] block time %d", g.campaign, cBefore.IsActive, cBefore.StartTS, cBefore.EndTS, t))
		}
		kycValid := g.kyc != "x" && (g.kyc[0] == '1' || (g.kyc[1] == '1' && g.kyc[2] == '1'))
		if !g.tv || !kycValid {
			s.fail("grant_conditions", class+":ticket", fmt.Sprintf("grant accepted with ticket valid=%v kyc=%s", g.tv, g.kyc))
		}
		// to the receiver named on the ticket, for exactly the amounts the campaign defines
		rw, _ := k.GetReward(s.e.Ctx, rwUID(uid))
		if s.aid(rw.Receiver) != g.receiver {
			s.fail("grant_receiver", class, fmt.Sprintf("reward %d booked for %d, ticket names %d", uid, s.aid(rw.Receiver), g.receiver))
		}
		defMain, defSub := cBefore.RewardAmount.MainAccountAmount, cBefore.RewardAmount.SubaccountAmount
		if cBefore.RewardType == rewardtypes.RewardType_REWARD_TYPE_BET_DISCOUNT {
			if bet, ok := s.betOf(g.bet, g.receiver); ok {
				eff := bet.Amount
				if cBefore.Constraints != nil && cBefore.Constraints.MaxBetAmount.IsPositive() {
					eff = sdkmath.MinInt(cBefore.Constraints.MaxBetAmount, bet.Amount)
				}
				defMain = sdkmath.LegacyNewDecFromInt(eff).Mul(cBefore.RewardAmount.MainAccountPercentage).TruncateInt()
				defSub = sdkmath.LegacyNewDecFromInt(eff).Mul(cBefore.RewardAmount.SubaccountPercentage).TruncateInt()
			}
		}
		after := s.snap()
		gotMain := after.bal[g.receiver].Sub(before.bal[g.receiver])
		gotSub := after.bal[rwSubBase+g.receiver].Sub(before.bal[rwSubBase+g.receiver])
		if g.receiver == rwPool {
			// degenerate ticket naming the pool itself: its own balance also pays the subaccount part
			gotMain = defMain
		}
		if !gotMain.Equal(defMain) || !gotSub.Equal(defSub) {
			s.fail("grant_amounts", class, fmt.Sprintf("campaign %d defines main %s sub %s, receiver %d got main %s sub %s", g.campaign, defMain, defSub, g.receiver, gotMain, gotSub))
		}
		// with enough available funds: what left the pool was available in this campaign
		moved := before.pool.Sub(after.pool)
		if moved.GT(rwAvail(cBefore.Pool)) {
			s.fail("grant_funds", class, fmt.Sprintf("campaign %d available %s, grant moved %s out of the pool", g.campaign, rwAvail(cBefore.Pool), moved))
		}
		// per-account cap
		if cBefore.CapCount > 0 {
			n := uint64(0)
			for _, r := range k.GetAllRewards(s.e.Ctx) {
				if r.CampaignUID == cBefore.UID && r.Receiver == rw.Receiver {
					n++
				}
			}
			if n > cBefore.CapCount {
				s.fail("cap_account", class, fmt.Sprintf("campaign %d cap %d, receiver %d now has %d rewards", g.campaign, cBefore.CapCount, g.receiver, n))
			}
			if n == cBefore.CapCount {
				s.out.Count("grant.at-account-cap")
			}
		}
		// per-category cap of the promoter
		if pa, ok := k.GetPromoterByAddress(s.e.Ctx, cBefore.Promoter); ok {
			if pr, ok := k.GetPromoter(s.e.Ctx, pa.PromoterUID); ok {
				l, _ := k.GetRewardsOfReceiverByPromoterAndCategory(s.e.Ctx, pr.UID, rw.Receiver, cBefore.RewardCategory)
				for _, cc := range pr.Conf.CategoryCap {
					if cc.Category == cBefore.RewardCategory {
						if len(l) > int(cc.CapPerAcc) {
							s.fail("cap_category", class, fmt.Sprintf("promoter %d category %d cap %d, receiver %d has %d rewards", rwUIDNum(pr.UID), int32(cc.Category), cc.CapPerAcc, g.receiver, len(l)))
						}
						if len(l) == int(cc.CapPerAcc) {
							s.out.Count("grant.at-category-cap")
						}
					}
				}
			}
		}
	}
	s.monAfter(before, class)
}

func (s *rwHist) betOf(betID, receiver int) (bettypes.Bet, bool) {
	u, ok := s.e.App.BetKeeper.GetBetID(s.e.Ctx, UID(0x13, betID))
	if !ok {
		return bettypes.Bet{}, false
	}
	return s.e.App.BetKeeper.GetBet(s.e.Ctx, s.addrStr(receiver), u.ID)
}

func (s *rwHist) opAuthzGrant(granter, grantee, kind int, limit oInt, exp int64) {
	before := s.snap()
	es := "-"
	var ex *time.Time
	if exp >= 0 {
		es = strconv.FormatInt(exp, 10)
		t := time.Unix(exp, 0).UTC()
		ex = &t
	}
	s.out.Op("AG %d %d %d %s %s", granter, grantee, kind, oiStr(limit), es)
	var a authz.Authorization
	switch kind {
	case 0:
		a = rewardtypes.NewCreateCampaignAuthorization(oiInt(limit))
	case 1:
		a = rewardtypes.NewUpdateCampaignAuthorization(oiInt(limit))
	default:
		a = rewardtypes.NewWithdrawAuthorization(oiInt(limit))
	}
	// the grant travels as a real MsgGrant: encoded and decoded with the application codec (what the transaction
	// decoder does), ValidateBasic, then the authz message server
	tag := ""
	err, p := s.e.Tx(func(ctx sdk.Context) error {
		tag = "basic"
		msg, err := authz.NewMsgGrant(s.addr(granter), s.addr(grantee), a, ex)
		if err != nil {
			return err
		}
		tag = "codec"
		bz, err := s.e.App.AppCodec().Marshal(msg)
		if err != nil {
			return err
		}
		var dec authz.MsgGrant
		if err := s.e.App.AppCodec().Unmarshal(bz, &dec); err != nil {
			return err
		}
		tag = "basic"
		if err := dec.ValidateBasic(); err != nil {
			return err
		}
		tag = "authz-save"
		_, err = s.e.App.AuthzKeeper.Grant(sdk.WrapSDKContext(ctx), &dec)
		if err != nil && !strings.Contains(err.Error(), "expiration must be after") {
			tag = "unknown:" + strings.ReplaceAll(err.Error(), " ", "_")
		}
		return err
	})
	if err == nil {
		s.out.Impl("r ok")
		s.out.Count("op.AG.ok")
		s.grantKeys[[3]int{granter, grantee, kind}] = true
	} else if p {
		s.out.Impl("r err")
	} else {
		s.out.Impl("r err")
		if tag == "codec" {
			s.out.Count("diag.authz-grant-undecodable.kind" + strconv.Itoa(kind))
		}
	}
	s.out.Count("op.AG")
	s.rewardState()
	s.monAfter(before, "authz-grant")
}

func (s *rwHist) opAuthzRevoke(granter, grantee, kind int) {
	before := s.snap()
	s.out.Op("AR %d %d %d", granter, grantee, kind)
	url := []string{sdk.MsgTypeURL(&rewardtypes.MsgCreateCampaign{}), sdk.MsgTypeURL(&rewardtypes.MsgUpdateCampaign{}), sdk.MsgTypeURL(&rewardtypes.MsgWithdrawFunds{})}[kind]
	err, _ := s.e.Tx(func(ctx sdk.Context) error {
		msg := authz.NewMsgRevoke(s.addr(granter), s.addr(grantee), url)
		if err := msg.ValidateBasic(); err != nil {
			return err
		}
		_, err := s.e.App.AuthzKeeper.Revoke(sdk.WrapSDKContext(ctx), &msg)
		return err
	})
	if err == nil {
		s.out.Impl("r ok")
	} else {
		s.out.Impl("r err")
	}
	s.out.Count("op.AR")
	s.rewardState()
	s.monAfter(before, "authz-revoke")
}

func (s *rwHist) opBet(uid, owner int, amount int64, result int, isMain bool) {
	before := s.snap()
	s.out.Op("BET %d %d %d %d %d", uid, owner, amount, result, b2i(isMain))
	id := s.nextBetSeq
	// a re-used bet uid gets a fresh id: the uid->id map then points to the new record only
	s.nextBetSeq++
	s.e.App.BetKeeper.SetBet(s.e.Ctx, bettypes.Bet{UID: UID(0x13, uid), Creator: s.addrStr(owner), Amount: sdkmath.NewInt(amount),
		Fee: sdkmath.ZeroInt(), Result: bettypes.Bet_Result(result), Meta: bettypes.MetaData{IsMainMarket: isMain},
		MaxLossMultiplier: sdkmath.LegacyOneDec()}, id)
	s.betOwner[uid] = owner
	s.out.Impl("r ok")
	s.out.Count("op.BET")
	s.rewardState()
	s.monAfter(before, "bet")
}

func (s *rwHist) opCreateSub(owner int) {
	before := s.snap()
	s.out.Op("SUBC %d", owner)
	err, _ := s.e.Tx(func(ctx sdk.Context) error {
		_, err := s.e.App.SubaccountKeeper.CreateSubaccount(ctx, s.addrStr(owner), s.addrStr(owner), []subaccounttypes.LockedBalance{})
		return err
	})
	if err == nil {
		s.out.Impl("r ok")
	} else {
		s.out.Impl("r err")
	}
	s.out.Count("op.SUBC")
	s.rewardState()
	s.monAfter(before, "subaccount-create")
}

func (s *rwHist) opSend(from, to int, amt int64) {
	before := s.snap()
	s.out.Op("SEND %d %d %d", from, to, amt)
	toA := s.poolA
	if to != rwPool {
		toA = s.addr(to)
	}
	msg := &banktypes.MsgSend{FromAddress: s.addrStr(from), ToAddress: toA.String(),
		Amount: sdk.Coins{sdk.Coin{Denom: params.DefaultBondDenom, Amount: sdkmath.NewInt(amt)}}}
	basic := false
	err, p := s.e.Tx(func(ctx sdk.Context) error {
		if err := msg.ValidateBasic(); err != nil {
			basic = true
			return err
		}
		_, err := s.bank.Send(sdk.WrapSDKContext(ctx), msg)
		return err
	})
	if basic {
		s.out.Impl("r err")
		s.rewardState()
	} else if to == rwPool && err != nil && !p {
		s.out.Impl("r err")
		s.rewardState()
		if !strings.Contains(err.Error(), "not allowed to receive") {
			s.out.Impl("unexpected %s", err)
		}
	} else {
		s.emit("SEND", err, p)
	}
	s.out.Count("op.SEND")
	s.monAfter(before, "bank-send")
}

// ---------------------------------------------------------------------------------------------
// generator

func (s *rwHist) pickCampaign() (int, bool) {
	if len(s.campaignIDs) == 0 || s.r.Chance(4) {
		return 900 + s.r.Intn(3), false
	}
	return s.campaignIDs[s.r.Intn(len(s.campaignIDs))], true
}

// granteeFor returns a grantee holding a grant of the given kind from the promoter (if any).
func (s *rwHist) granteeFor(promoter, kind int) (int, bool) {
	for _, g := range s.grants() {
		if g.granter == promoter && g.kind == kind {
			return g.grantee, true
		}
	}
	return 0, false
}

func (s *rwHist) promoterAccts() []int {
	var ps []int
	for i := 0; i < NAcct; i++ {
		if s.e.App.RewardKeeper.IsPromoter(s.e.Ctx, s.e.Accts[i].String()) {
			ps = append(ps, i)
		}
	}
	return ps
}

func (s *rwHist) genCreate() rwCreate {
	r := s.r
	now := s.e.Time
	m := rwCreate{uid: s.nextUID, hasRA: true, active: !r.Chance(8)}
	s.nextUID++
	if len(s.campaignIDs) > 0 && r.Chance(4) {
		m.uid = s.campaignIDs[r.Intn(len(s.campaignIDs))]
	}
	ps := s.promoterAccts()
	if len(ps) > 0 && !r.Chance(6) {
		m.promoter = ps[r.Intn(len(ps))]
	} else {
		m.promoter = r.Intn(NAcct)
	}
	m.creator = m.promoter
	if r.Chance(25) {
		m.creator = 3 + r.Intn(2)
	}
	switch r.Intn(20) {
	case 0:
		m.funds = nil
	case 1:
		m.funds = oi(r.Pick([]int64{0, -5, 1}))
	case 2:
		m.funds = oi(10_000_000)
	default:
		m.funds = oi(r.Pick([]int64{50, 100, 150, 300, 500, 1000, 2000}))
	}
	m.start = now + r.Pick([]int64{-50, -1, 0, 0, 0, 1, 20})
	m.end = now + r.Pick([]int64{1, 30, 100, 100, 400, 400, 1000})
	if r.Chance(5) {
		m.end = r.Pick([]int64{m.start, now, now - 5, m.start - 1})
	}
	m.capCount = r.Pick([]int64{0, 0, 1, 2, 3})
	m.unlock = r.Pick([]int64{1, 10, 10, 100, 100, 0})
	// reward type and matching category / amount type
	types := []int64{1, 1, 1, 2, 3, 4, 5, 8, 8}
	m.rtype = types[r.Intn(len(types))]
	m.cat = map[int64]int64{1: 1, 2: 1, 3: 1, 4: 2, 5: 3, 8: 6}[m.rtype]
	m.amtType = 1
	if m.rtype == 8 {
		m.amtType = 3
	}
	if r.Chance(6) {
		switch r.Intn(4) {
		case 0:
			m.rtype, m.cat = 7, 5 // milestone: category accepted, no factory
		case 1:
			m.cat = r.Pick([]int64{0, 1, 2, 3, 4, 5, 6, 7})
		case 2:
			m.amtType = r.Pick([]int64{0, 1, 2, 3})
		case 3:
			m.rtype = r.Pick([]int64{0, 6, 9})
		}
	}
	small := func() int64 { return r.Pick([]int64{5, 10, 20, 40, 50, 75, 100, 200}) }
	if m.rtype == 8 {
		pcts := []int64{0, 100000000000000000, 250000000000000000, 500000000000000000, 333333333333333333, 1}
		m.mainPct, m.subPct = oi(r.Pick(pcts)), oi(r.Pick(pcts))
		switch r.Intn(12) {
		case 0:
			m.mainPct = nil
		case 1:
			m.subPct = nil
		case 2, 3:
			m.mainPct = oi(-r.Pick(pcts[1:])) // accepted by validation
		case 4:
			m.subPct = oi(-r.Pick(pcts[1:]))
		case 5:
			m.mainPct, m.subPct = oi(600000000000000000), oi(400000000000000000) // sum = 1
		}
		switch r.Intn(6) {
		case 0:
			m.main, m.sub = oi(0), oi(0)
		case 1:
			m.main = oi(-small())
		case 2:
			m.sub = oi(small())
		}
		m.consPresent = !r.Chance(6)
		m.consNil = r.Chance(6)
		m.cons = r.Pick([]int64{0, 50, 100, 1000, -1})
	} else {
		// fixed amounts
		if m.rtype == 5 {
			m.main, m.sub = oi(small()), oi(0)
			switch r.Intn(10) {
			case 0:
				m.sub = nil
			case 1, 2:
				m.sub = oi(-small()) // accepted by validation
			case 3:
				m.sub = oi(small())
			case 4:
				m.main = oi(0)
			case 5:
				m.main = nil
			}
		} else {
			m.sub = oi(small())
			switch r.Intn(10) {
			case 0, 1, 2:
				m.main = nil
			case 3:
				m.main = oi(0)
			case 4, 5:
				m.main = oi(small())
			case 6, 7:
				m.main = oi(-small()) // accepted by validation
			case 8:
				m.main, m.sub = oi(small()), oi(r.Pick([]int64{0, -5}))
			case 9:
				m.sub = nil
			}
		}
		switch r.Intn(14) {
		case 0:
			m.mainPct = oi(0)
		case 1:
			m.subPct = oi(-100000000000000000)
		case 2:
			m.mainPct = oi(100000000000000000)
		}
		if r.Chance(30) {
			m.consPresent, m.consNil, m.cons = true, r.Chance(30), r.Pick([]int64{0, 100})
		}
	}
	if r.Chance(2) {
		m.hasRA = false
	}
	if r.Chance(55) {
		// mostly well-formed campaign: keeps the component shapes drawn above (nil / zero / negative parts that
		// validation accepts) but repairs everything that would only produce a validation error
		m.hasRA = true
		if len(ps) > 0 {
			m.promoter = ps[r.Intn(len(ps))]
		}
		m.creator = m.promoter
		if r.Chance(20) {
			m.creator = 3 + r.Intn(2)
		}
		if ge, ok := s.granteeFor(m.promoter, 0); ok && r.Chance(30) {
			m.creator = ge
		}
		m.funds = oi(r.Pick([]int64{60, 100, 150, 300, 500, 1000, 2000}))
		m.start = now + r.Pick([]int64{-50, -1, 0, 0, 0, 3})
		m.end = now + r.Pick([]int64{60, 200, 400, 1000})
		if m.unlock == 0 {
			m.unlock = 10
		}
		if m.rtype != 1 && m.rtype != 2 && m.rtype != 3 && m.rtype != 4 && m.rtype != 5 && m.rtype != 8 {
			m.rtype = 1
		}
		m.cat = map[int64]int64{1: 1, 2: 1, 3: 1, 4: 2, 5: 3, 8: 6}[m.rtype]
		if m.rtype == 8 {
			m.amtType = 3
			m.main, m.sub = nil, nil
			if m.mainPct == nil {
				m.mainPct = oi(0)
			}
			if m.subPct == nil {
				m.subPct = oi(250000000000000000)
			}
			if *m.mainPct <= 0 && *m.subPct <= 0 {
				m.subPct = oi(100000000000000000)
			}
			if *m.mainPct+*m.subPct >= 1000000000000000000 {
				m.mainPct = oi(0)
			}
			m.consPresent, m.consNil = true, false
		} else {
			m.amtType = 1
			m.mainPct, m.subPct = nil, nil
			if m.rtype == 5 {
				if m.main == nil || *m.main <= 0 {
					m.main = oi(small())
				}
				if m.sub == nil || *m.sub > 0 {
					m.sub = oi(0)
				}
			} else if m.sub == nil || *m.sub <= 0 {
				m.sub = oi(small())
			}
		}
	}
	return m
}

func (s *rwHist) genGrant() (int, int, *rwGrantOp, bool) {
	r := s.r
	creator := r.Intn(NAcct)
	uid := s.nextUID
	s.nextUID++
	if len(s.rewardIDs) > 0 && r.Chance(8) {
		uid = s.rewardIDs[r.Intn(len(s.rewardIDs))] // same reward id again
	}
	if s.lastGrant != nil && r.Chance(14) {
		return creator, uid, s.lastGrant, true // replayed ticket (fresh or used reward id)
	}
	g := &rwGrantOp{}
	g.campaign, _ = s.pickCampaign()
	if r.Chance(65) {
		// prefer a campaign that is active and inside its window
		var live []int
		for _, c := range s.campaigns() {
			if c.c.IsActive && int64(c.c.StartTS) <= s.e.Time && s.e.Time <= int64(c.c.EndTS) {
				live = append(live, c.id)
			}
		}
		if len(live) > 0 {
			g.campaign = live[r.Intn(len(live))]
		}
	}
	g.receiver = 5 + r.Intn(4)
	if r.Chance(8) {
		g.receiver = r.Intn(NAcct)
	}
	if r.Chance(2) {
		g.receiver = rwPool // the ticket names the reward pool itself
	}
	if r.Chance(3) {
		// the subaccount address of an account as receiver
		for i := 0; i < NAcct; i++ {
			if _, ok := s.e.App.SubaccountKeeper.GetSubaccountByOwner(s.e.Ctx, s.e.Accts[i]); ok {
				g.receiver = rwSubBase + i
				break
			}
		}
	}
	switch r.Intn(20) {
	case 0:
		g.kyc = "x" // no KYC data
	case 1:
		g.kyc = "010" // approved, id of somebody else
	case 2:
		g.kyc = "001" // not approved
	case 3, 4, 5:
		g.kyc = "100" // ignore
	case 6:
		g.kyc = "111"
	default:
		g.kyc = "011"
	}
	g.srcOk = !r.Chance(8)
	g.referee = 5 + r.Intn(4)
	if r.Chance(10) {
		g.referee = r.Intn(NAcct)
	} else if r.Chance(70) {
		// somebody who already holds a reward (so that referrer / affiliator grants can succeed)
		if rs := s.e.App.RewardKeeper.GetAllRewards(s.e.Ctx); len(rs) > 0 {
			g.referee = s.aid(rs[r.Intn(len(rs))].Receiver)
			if g.referee >= NAcct {
				g.referee = 5
			}
		}
	}
	g.bet = 9999
	if len(s.betIDs) > 0 && !r.Chance(5) {
		// prefer a bet of the receiver
		var own []int
		for _, b := range s.betIDs {
			if s.betOwner[b] == g.receiver {
				own = append(own, b)
			}
		}
		if len(own) > 0 && !r.Chance(10) {
			g.bet = own[r.Intn(len(own))]
		} else {
			g.bet = s.betIDs[r.Intn(len(s.betIDs))]
		}
	}
	return creator, uid, g, false
}

// boundaryTimes collects the instants at which a comparison of the module flips: campaign windows and grant expiries.
func (s *rwHist) boundaryTimes() []int64 {
	var ts []int64
	for _, c := range s.campaigns() {
		for _, t := range []int64{int64(c.c.StartTS) - 1, int64(c.c.StartTS), int64(c.c.EndTS), int64(c.c.EndTS) + 1} {
			if t > s.e.Time {
				ts = append(ts, t)
			}
		}
	}
	for _, g := range s.grants() {
		if g.hasExp {
			for _, t := range []int64{g.expUnix - 1, g.expUnix, g.expUnix + 1} {
				if t > s.e.Time {
					ts = append(ts, t)
				}
			}
		}
	}
	return ts
}

func (s *rwHist) stepOnce() {
	r := s.r
	now := s.e.Time
	x := r.Intn(100)
	switch {
	case x < 10: // block time moves
		t := now + r.Pick([]int64{0, 1, 1, 5, 10, 30, 100})
		if bt := s.boundaryTimes(); len(bt) > 0 && r.Chance(35) {
			t = bt[r.Intn(len(bt))]
		}
		s.opTime(t)
	case x < 15:
		s.opCreatePromoter(r.Intn(3), false)
	case x < 19:
		uid := 901
		if len(s.promoterIDs) > 0 && !r.Chance(5) {
			uid = s.promoterIDs[r.Intn(len(s.promoterIDs))]
		}
		creator := r.Intn(3)
		if p, ok := s.e.App.RewardKeeper.GetPromoter(s.e.Ctx, rwUID(uid)); ok && !r.Chance(15) {
			creator = s.aid(p.Creator)
		}
		s.opSetConf(creator, uid)
	case x < 33:
		s.opCreateCampaign(s.genCreate())
	case x < 41:
		uid, found := s.pickCampaign()
		creator := r.Intn(NAcct)
		if found {
			c, _ := s.e.App.RewardKeeper.GetCampaign(s.e.Ctx, rwUID(uid))
			creator = s.aid(c.Promoter)
			if ge, ok := s.granteeFor(creator, 1); ok && r.Chance(50) {
				creator = ge
			} else if r.Chance(15) {
				creator = 3 + r.Intn(2)
			} else if r.Chance(5) {
				creator = r.Intn(NAcct)
			}
		}
		var topup oInt
		switch r.Intn(10) {
		case 0:
			topup = nil
		case 1:
			topup = oi(0)
		case 2:
			topup = oi(-7)
		case 3:
			topup = oi(10_000_000)
		default:
			topup = oi(r.Pick([]int64{1, 20, 100, 150, 400}))
		}
		end := now + r.Pick([]int64{0, 1, 50, 200, 200, 600})
		if r.Chance(5) {
			end = now - 1
		}
		s.opUpdateCampaign(creator, uid, topup, end, !r.Chance(6))
	case x < 50:
		uid, found := s.pickCampaign()
		creator, prom := r.Intn(NAcct), r.Intn(NAcct)
		var amount oInt = oi(r.Pick([]int64{1, 10, 50, 100, 101, 400}))
		if found {
			c, _ := s.e.App.RewardKeeper.GetCampaign(s.e.Ctx, rwUID(uid))
			prom = s.aid(c.Promoter)
			creator = prom
			if ge, ok := s.granteeFor(prom, 2); ok && r.Chance(60) {
				creator = ge
			} else if r.Chance(20) {
				creator = 3 + r.Intn(2)
			} else if r.Chance(5) {
				creator = r.Intn(NAcct)
			}
			av := rwAvail(c.Pool).Int64()
			switch r.Intn(10) {
			case 0:
				amount = oi(av)
			case 1:
				amount = oi(av + 1)
			case 2:
				amount = oi(av - 1)
			case 3:
				amount = oi(av / 2)
			}
			if r.Chance(5) {
				prom = r.Intn(NAcct)
			}
		}
		switch r.Intn(40) {
		case 0:
			amount = nil
		case 1:
			amount = oi(0)
		case 2:
			amount = oi(-3)
		}
		s.opWithdraw(creator, uid, amount, prom)
	case x < 84:
		if len(s.campaignIDs) == 0 && r.Chance(85) {
			s.opCreateCampaign(s.genCreate())
			return
		}
		creator, uid, g, replay := s.genGrant()
		if replay {
			cp := *g
			g = &cp
		}
		s.opGrant(creator, uid, g, replay)
	case x < 90:
		granter := r.Intn(3)
		if ps := s.promoterAccts(); len(ps) > 0 {
			granter = ps[r.Intn(len(ps))]
		}
		grantee := 3 + r.Intn(2)
		if r.Chance(4) {
			grantee = granter
		}
		kind := r.Intn(3)
		var limit oInt
		if kind == 2 {
			limit = oi(r.Pick([]int64{100, 100, 50, 10, 1, 101, 0}))
		} else {
			limit = oi(r.Pick([]int64{100, 300, 500, 1000, 5000, 99, 0}))
		}
		if r.Chance(3) {
			limit = nil
		}
		exp := int64(-1)
		if r.Chance(60) {
			exp = now + r.Pick([]int64{0, 1, 5, 30, 100, 1000})
		}
		s.opAuthzGrant(granter, grantee, kind, limit, exp)
	case x < 91:
		var keys [][3]int
		for k := range s.grantKeys {
			keys = append(keys, k)
		}
		sort.Slice(keys, func(i, j int) bool {
			for q := 0; q < 3; q++ {
				if keys[i][q] != keys[j][q] {
					return keys[i][q] < keys[j][q]
				}
			}
			return false
		})
		if len(keys) > 0 {
			k := keys[r.Intn(len(keys))]
			s.opAuthzRevoke(k[0], k[1], k[2])
		} else {
			s.opAuthzRevoke(0, 3, 0)
		}
	case x < 96:
		uid := len(s.betIDs) + 1
		if len(s.betIDs) > 0 && r.Chance(5) {
			uid = s.betIDs[r.Intn(len(s.betIDs))]
		} else {
			s.betIDs = append(s.betIDs, uid)
		}
		s.opBet(uid, 5+r.Intn(4), r.Pick([]int64{0, 1, 7, 10, 77, 100, 333, 1000, 2500}), int(r.Pick([]int64{1, 2, 2, 3, 3, 4})), !r.Chance(12))
	case x < 98:
		s.opCreateSub(5 + r.Intn(5))
	default:
		to := r.Intn(NAcct)
		if r.Chance(40) {
			to = rwPool
		}
		s.opSend(r.Intn(NAcct), to, r.Pick([]int64{0, 1, 50, 500, 100_000_000}))
	}
}

// runReward: VERIF_REWARD_FIXED=1 tells the model driver to run the variant with the patched validation
// (repo_patches/reward_negative_components.diff); use it together with a patched repository.
func runReward(seed uint64, n int, out *Out) {
	out.Op("CFG fixed %d", b2i(rewardFixedVariant()))
	out.Op("CFG codec %d", b2i(rewardCodecVariant()))
	out.Op("CFG promoter %d", b2i(rewardPromoterVariant()))
	steps := int(envInt("VERIF_REWARD_STEPS", 60))
	script := envStr("VERIF_REWARD_SCRIPT", "")
	for h := 0; h < n; h++ {
		if skipHist(h) {
			continue
		}
		// NewRng(k) and NewRng(k+1) are the same splitmix stream shifted by one draw; re-seed from the mixed output
		r := NewRng(NewRng(seed*1_000_003 + uint64(h)).U64())
		bal := r.Pick([]int64{600, 3000, 20000, 1_000_000})
		if script != "" {
			bal = 5000
		}
		e := NewEnv(bal, 4)
		s := &rwHist{e: e, r: r, out: out, h: h, srv: rewardkeeper.NewMsgServerImpl(*e.App.RewardKeeper),
			bank: bankkeeper.NewMsgServerImpl(e.App.BankKeeper), idx: map[string]int{}, nextUID: 1,
			betOwner: map[int]int{}, grantKeys: map[[3]int]bool{}, granted: map[int]bool{}, nextBetSeq: 1}
		for i, a := range e.Accts {
			s.idx[a.String()] = i
		}
		s.poolA = e.App.AccountKeeper.GetModuleAddress("reward_pool")
		s.idx[s.poolA.String()] = rwPool
		out.Op("N %d", h)
		out.Impl("n %d", h)
		out.Op("INIT %d", bal)
		if script != "" {
			s.scripted = true
			s.runScript(script, h)
			continue
		}
		s.opTime(BaseTime + 100)
		s.opCreatePromoter(0, true)
		if r.Chance(60) {
			s.opCreatePromoter(1, r.Chance(80))
		}
		for i := 0; i < steps; i++ {
			s.stepOnce()
		}
	}
}

// runScript plays the minimal reproductions of the findings on the real message servers (suite "reward_cex"):
//
//	history 0  SgeProofs/Properties/C12.lean `cexOps`: an honest campaign of 1000, a signup campaign with components
//	           main = -50 / sub = 100 funded with 50, one grant from it: 100 leave the pool, 50 are booked
//	history 1  affiliator campaign main = 10 / sub = -50: every grant pays 10 and books -40 (available grows)
//	history 2  bet-bonus campaign with percentages main = -0.5 / sub = 0.25 on a bet of 100
//	history 3  the promoter grants a withdraw authorization: MsgGrant cannot be decoded on the code as it is
func (s *rwHist) runScript(name string, h int) {
	now := BaseTime + 100
	s.opTime(now)
	s.opCreatePromoter(1, true)
	honest := rwCreate{creator: 1, uid: 20, funds: oi(1000), promoter: 1, start: now, end: now + 100, cat: 1, rtype: 1, amtType: 1,
		hasRA: true, sub: oi(100), unlock: 10, active: true}
	s.nextUID = 30
	grant := func(uid, campaign, receiver int, referee, bet int) {
		s.opGrant(2, uid, &rwGrantOp{campaign: campaign, receiver: receiver, kyc: "011", srcOk: true, referee: referee, bet: bet}, false)
	}
	switch h % 4 {
	case 0:
		s.opCreateCampaign(honest)
		bad := honest
		bad.uid, bad.funds, bad.main = 21, oi(50), oi(-50)
		s.opCreateCampaign(bad)
		grant(30, 21, 3, 0, 0)
	case 1:
		s.opCreateCampaign(honest)
		grant(30, 20, 3, 0, 0) // account 3 signs up
		bad := rwCreate{creator: 1, uid: 21, funds: oi(50), promoter: 1, start: now, end: now + 100, cat: 3, rtype: 5, amtType: 1,
			hasRA: true, main: oi(10), sub: oi(-50), unlock: 10, active: true}
		s.opCreateCampaign(bad)
		grant(31, 21, 4, 3, 0)
		grant(32, 21, 4, 3, 0)
	case 2:
		s.opCreateCampaign(honest)
		s.betIDs = append(s.betIDs, 1)
		s.opBet(1, 3, 100, 2, true)
		bad := rwCreate{creator: 1, uid: 21, funds: oi(50), promoter: 1, start: now, end: now + 100, cat: 6, rtype: 8, amtType: 3,
			hasRA: true, mainPct: oi(-500000000000000000), subPct: oi(250000000000000000), unlock: 10, active: true,
			consPresent: true, cons: 0}
		s.opCreateCampaign(bad)
		grant(30, 21, 3, 0, 1)
	case 3:
		s.opCreateCampaign(honest)
		s.opAuthzGrant(1, 4, 2, oi(100), -1)
		s.opWithdraw(4, 20, oi(40), 1)
	}
}

// rewardFixedVariant tells which model variant matches the tree: the real CreateCampaignPayload.Validate is probed
// with a payload whose only irregularity is a negative main-account amount (VERIF_REWARD_FIXED=0|1 overrides).
func rewardFixedVariant() bool {
	if v := envStr("VERIF_REWARD_FIXED", ""); v != "" {
		return v == "1"
	}
	mk := func(mainAmt int64) error {
		p := rewardtypes.CreateCampaignPayload{
			Promoter: detAddr(0).String(), StartTs: 100, EndTs: 200,
			Category: rewardtypes.RewardCategory_REWARD_CATEGORY_SIGNUP, RewardType: rewardtypes.RewardType_REWARD_TYPE_SIGNUP,
			RewardAmountType: rewardtypes.RewardAmountType_REWARD_AMOUNT_TYPE_FIXED,
			RewardAmount:     &rewardtypes.RewardAmount{MainAccountAmount: sdkmath.NewInt(mainAmt), SubaccountAmount: sdkmath.NewInt(100), UnlockPeriod: 10},
			IsActive:         true, Meta: "probe",
		}
		return p.Validate(50)
	}
	return mk(50) == nil && mk(-50) != nil
}

// rewardPromoterVariant: does CreatePromoter refuse an address that already belongs to a promoter? (probed on the real
// message server of a scratch chain: two CreatePromoter messages of one creator with two uids)
func rewardPromoterVariant() bool {
	if v := envStr("VERIF_REWARD_PROMOTER", ""); v != "" {
		return v == "1"
	}
	e := NewEnv(1_000_000, 4)
	srv := rewardkeeper.NewMsgServerImpl(*e.App.RewardKeeper)
	send := func(n int) error {
		tk := e.Ticket(0, map[string]interface{}{"uid": UID(clsPromoter, n), "conf": rewardtypes.PromoterConf{CategoryCap: []rewardtypes.CategoryCap{{Category: rewardtypes.RewardCategory_REWARD_CATEGORY_SIGNUP, CapPerAcc: 3}}}})
		err, _ := e.Tx(func(ctx sdk.Context) error {
			_, err := srv.CreatePromoter(sdk.WrapSDKContext(ctx), &rewardtypes.MsgCreatePromoter{Creator: e.Accts[1].String(), Ticket: tk})
			return err
		})
		return err
	}
	if err := send(1); err != nil {
		panic(fmt.Sprintf("reward probe: the first promoter is refused: %v", err))
	}
	return send(2) != nil
}

// rewardCodecVariant: is WithdrawCampaignAuthorization registered as an authz.Authorization in this tree?
func rewardCodecVariant() bool {
	if v := envStr("VERIF_REWARD_CODEC", ""); v != "" {
		return v == "1"
	}
	reg := app.MakeEncodingConfig().InterfaceRegistry
	_, err := reg.Resolve("/" + proto.MessageName(&rewardtypes.WithdrawCampaignAuthorization{}))
	return err == nil
}
