package harness

// World of the ticket (C06) suite: one prepared chain state in which one valid message of each of the 17
// ticket-bearing message types succeeds, the descriptions of those 17 messages (which ticket they carry, how the
// keys are selected, whose KYC data they check), real key rotations, and the raw state hash over all custom
// module stores + bank + authz + auth.

import (
	"crypto/sha256"
	"encoding/binary"
	"fmt"
	"strings"
	"time"

	sdkmath "cosmossdk.io/math"
	sdk "github.com/cosmos/cosmos-sdk/types"
	"github.com/cosmos/cosmos-sdk/x/authz"

	betkeeper "github.com/sge-network/sge/x/bet/keeper"
	bettypes "github.com/sge-network/sge/x/bet/types"
	housekeeper "github.com/sge-network/sge/x/house/keeper"
	housetypes "github.com/sge-network/sge/x/house/types"
	marketkeeper "github.com/sge-network/sge/x/market/keeper"
	markettypes "github.com/sge-network/sge/x/market/types"
	"github.com/sge-network/sge/x/ovm"
	ovmkeeper "github.com/sge-network/sge/x/ovm/keeper"
	ovmtypes "github.com/sge-network/sge/x/ovm/types"
	rewardkeeper "github.com/sge-network/sge/x/reward/keeper"
	rewardtypes "github.com/sge-network/sge/x/reward/types"
	subkeeper "github.com/sge-network/sge/x/subaccount/keeper"
	subtypes "github.com/sge-network/sge/x/subaccount/types"
)

// stores whose every key/value enters the state hash
var tkStores = []string{"bet", "house", "market", "orderbook", "ovm", "reward", "subaccount", "mint", "bank", "authz", "acc"}

// stateHash hashes every raw key/value of the listed stores as seen through ctx (cache layers included).
func stateHash(e *Env, ctx sdk.Context) [32]byte {
	h := sha256.New()
	var lb [8]byte
	put := func(b []byte) {
		binary.BigEndian.PutUint64(lb[:], uint64(len(b)))
		h.Write(lb[:])
		h.Write(b)
	}
	for _, name := range tkStores {
		key := e.App.GetKey(name)
		if key == nil {
			panic("ticket suite: no store key " + name)
		}
		put([]byte(name))
		it := ctx.KVStore(key).Iterator(nil, nil)
		for ; it.Valid(); it.Next() {
			put(it.Key())
			put(it.Value())
		}
		it.Close()
	}
	var out [32]byte
	copy(out[:], h.Sum(nil))
	return out
}

// accounts of the world (indices into Env.Accts)
const (
	tkOperator  = 0 // signs market messages and proposals
	tkDepositor = 1
	tkSubOwner  = 2
	tkPromoter  = 3
	tkReceiver  = 4
	tkBettor    = 5
	tkNewPromo  = 6
	tkFunder    = 7
	tkStranger  = 8 // named in KYC data that does not belong to the actor
	tkDelegate  = 9 // holds authz grants of the depositor
)

const (
	modeLeader = 0
	modeIndex  = 1
	modeAny    = 2
)

type kycVar struct {
	name     string
	absent   bool
	ignore   bool
	approved bool
	who      int // account named by `id`; -1: empty string; -2: the actor of the message
}

// tkHandler describes one ticket-bearing message type (or, for the subaccount wager, one of its two tickets).
type tkHandler struct {
	name   string
	mode   int
	idx    int // voter index (modeIndex)
	kyc    bool
	actor  int
	claims func(kv kycVar) map[string]interface{} // claims of the ticket under test (kv.who resolved by the caller)
	misfit map[string]interface{}
	alt    func() map[string]interface{}
	// a second, valid, leader-signed ticket travels with the message (subaccount wager)
	companion  bool
	newPayload func() interface{}                      // target of the keeper-level VerifyTicketUnmarshal probe (leader mode)
	run        func(ctx sdk.Context, tok string) error // ValidateBasic + the real message server
	onlyValid  bool                                    // run only the unmutated token (index out of range)
}

type tkWorld struct {
	diverged bool // the chain's vault differs from what an approved proposal dictated (C06 failure already reported)
	stop     bool // no further rotation possible in this history
	e    *Env
	pool *ovmPool
	out  *Out
	r    *Rng
	h    int

	now    int64 // ctx.BlockTime().Unix()
	nanos  int64
	height int64

	vault   []string // exact vault strings
	vkeys   []int    // pool key of every vault position
	removed int
	everIn  map[int]bool
	foreign int
	nextKey int // next unused pool key

	msrv markettypes.MsgServer
	hsrv housetypes.MsgServer
	bsrv bettypes.MsgServer
	osrv ovmtypes.MsgServer
	rsrv rewardtypes.MsgServer
	ssrv subtypes.MsgServer

	m1       string
	m1odds   []string
	promoUID string
	campUID  string
	propID   uint64
	phase    int
}

func (w *tkWorld) addr(i int) string { return w.e.Accts[i].String() }

func (w *tkWorld) kycMap(kv kycVar, actor int) map[string]interface{} {
	id := ""
	who := kv.who
	if who == -2 {
		who = actor
	}
	if who >= 0 {
		id = w.addr(who)
	}
	return map[string]interface{}{"ignore": kv.ignore, "approved": kv.approved, "id": id}
}

// validTok signs claims with the current leader key in the canonical shape (exp = now + 1000).
func (w *tkWorld) validTok(claims map[string]interface{}) string {
	tok, _ := forgeValid(w.fctx(w.vkeys[0], 0), claims)
	return tok
}

func (w *tkWorld) fctx(good int, pos int) forgeCtx {
	fc := forgeCtx{pool: w.pool, now: w.now, good: good, goodPEM: w.vault[pos], removed: w.removed, foreign: w.foreign}
	for j, k := range w.vkeys {
		if j != pos && k != good {
			fc.others = append(fc.others, k)
		}
	}
	return fc
}

func (w *tkWorld) setTime(now, nanos int64) {
	w.now, w.nanos = now, nanos
	w.e.Height, w.e.Time = w.height, now
	w.e.Ctx = w.e.Ctx.WithBlockHeight(w.height).WithBlockTime(time.Unix(now, nanos).UTC())
}

func (w *tkWorld) mustTx(what string, f func(ctx sdk.Context) error) {
	err, _ := w.e.Tx(f)
	if err != nil {
		panic(fmt.Sprintf("ticket suite: setup step %q failed: %v", what, err))
	}
}

func (w *tkWorld) readVault() {
	kv, found := w.e.App.OVMKeeper.GetKeyVault(w.e.Ctx)
	if !found {
		panic("ticket suite: no key vault")
	}
	w.vault = kv.PublicKeys
	w.vkeys = nil
	for _, s := range w.vault {
		id := w.pool.ID(s)
		if id < 0 || id%ovmVariants >= 4 {
			panic("ticket suite: unexpected vault string")
		}
		w.vkeys = append(w.vkeys, id/ovmVariants)
	}
}

func (w *tkWorld) betClaims(kv kycVar, bettor int, oddsIdx int) map[string]interface{} {
	one := sdkmath.LegacyOneDec()
	var all []*bettypes.BetOddsCompact
	for _, u := range w.m1odds {
		all = append(all, &bettypes.BetOddsCompact{UID: u, MaxLossMultiplier: one})
	}
	c := map[string]interface{}{
		"selected_odds": &bettypes.BetOdds{UID: w.m1odds[oddsIdx], MarketUID: w.m1, Value: "1.5", MaxLossMultiplier: one},
		"all_odds":      all,
		"meta":          map[string]interface{}{"selected_odds_type": 1, "selected_odds_value": "1.5", "is_main_market": false},
	}
	if !kv.absent {
		c["kyc_data"] = w.kycMap(kv, bettor)
	}
	return c
}

func (w *tkWorld) houseClaimsFor(kv kycVar, actor int) map[string]interface{} {
	c := w.houseClaims(kv, actor)
	c["depositor_address"] = w.addr(actor)
	return c
}

func (w *tkWorld) houseClaims(kv kycVar, actor int) map[string]interface{} {
	c := map[string]interface{}{}
	if !kv.absent {
		c["kyc_data"] = w.kycMap(kv, actor)
	}
	return c
}

func (w *tkWorld) campaignClaims(endDelta int64) map[string]interface{} {
	return map[string]interface{}{
		"promoter": w.addr(tkPromoter), "start_ts": uint64(w.now - 10), "end_ts": uint64(w.now + 100000 + endDelta),
		"category": rewardtypes.RewardCategory_REWARD_CATEGORY_SIGNUP, "reward_type": rewardtypes.RewardType_REWARD_TYPE_SIGNUP,
		"reward_amount_type": rewardtypes.RewardAmountType_REWARD_AMOUNT_TYPE_FIXED,
		"reward_amount":      rewardtypes.RewardAmount{SubaccountAmount: sdkmath.NewInt(100), UnlockPeriod: 1000},
		"is_active":          true, "meta": "campaign", "cap_count": 0,
	}
}

func (w *tkWorld) marketAddClaims(n int) map[string]interface{} {
	var odds []map[string]interface{}
	for k := 1; k <= 2; k++ {
		odds = append(odds, map[string]interface{}{"uid": UID(clsOdds, n*10+k), "meta": "o"})
	}
	return map[string]interface{}{"uid": UID(clsMarket, n), "start_ts": uint64(w.now - 50), "end_ts": uint64(w.now + 1_000_000),
		"odds": odds, "status": 1, "meta": "m"}
}

func (w *tkWorld) proposalClaims(keys []int, leader int) map[string]interface{} {
	var ss []string
	for _, k := range keys {
		ss = append(ss, w.pool.str[k][0])
	}
	return map[string]interface{}{"public_keys": ss, "leader_index": leader}
}

// newTkWorld prepares the state on the current cache context of e.
func newTkWorld(e *Env, pool *ovmPool, out *Out, r *Rng, h int) *tkWorld {
	w := &tkWorld{e: e, pool: pool, out: out, r: r, h: h, removed: -1, everIn: map[int]bool{}, foreign: ovmPoolKeys - 1, height: e.Height + 1}
	w.msrv = marketkeeper.NewMsgServerImpl(*e.App.MarketKeeper)
	w.hsrv = housekeeper.NewMsgServerImpl(*e.App.HouseKeeper)
	w.bsrv = betkeeper.NewMsgServerImpl(*e.App.BetKeeper)
	w.osrv = ovmkeeper.NewMsgServerImpl(*e.App.OVMKeeper)
	w.rsrv = rewardkeeper.NewMsgServerImpl(*e.App.RewardKeeper)
	w.ssrv = subkeeper.NewMsgServerImpl(*e.App.SubaccountKeeper)
	w.setTime(BaseTime+100+r.Range(0, 50), 0)

	// genesis vault: 4 or 5 different keys, each in one of its parsable textual encodings
	n := 4 + r.Intn(2)
	var vault []string
	for k := 0; k < n; k++ {
		vault = append(vault, pool.str[k][r.Intn(4)])
	}
	w.nextKey = n
	e.App.OVMKeeper.SetKeyVault(e.Ctx, ovmtypes.KeyVault{PublicKeys: vault})
	w.readVault()

	// parameters
	bp := e.App.BetKeeper.GetParams(e.Ctx)
	bp.Constraints.MinAmount = sdkmath.NewInt(5)
	bp.Constraints.Fee = sdkmath.NewInt(1)
	e.App.BetKeeper.SetParams(e.Ctx, bp)
	hp := e.App.HouseKeeper.GetParams(e.Ctx)
	hp.MinDeposit = sdkmath.NewInt(100)
	hp.HouseParticipationFee = sdkmath.LegacyMustNewDecFromStr("0.1")
	hp.MaxWithdrawalCount = 3
	e.App.HouseKeeper.SetParams(e.Ctx, hp)
	e.App.SubaccountKeeper.SetParams(e.Ctx, subtypes.Params{WagerEnabled: true, DepositEnabled: true})

	// market 1
	w.m1 = UID(clsMarket, 1)
	w.m1odds = []string{UID(clsOdds, 11), UID(clsOdds, 12)}
	w.mustTx("market add", func(ctx sdk.Context) error {
		_, err := w.msrv.Add(sdk.WrapSDKContext(ctx), &markettypes.MsgAdd{Creator: w.addr(tkOperator), Ticket: w.validTok(w.marketAddClaims(1))})
		return err
	})
	// liquidity: participation 1 belongs to the depositor
	w.mustTx("house deposit", func(ctx sdk.Context) error {
		_, err := w.hsrv.Deposit(sdk.WrapSDKContext(ctx), &housetypes.MsgDeposit{Creator: w.addr(tkDepositor), MarketUID: w.m1,
			Amount: sdkmath.NewInt(200_000), Ticket: w.validTok(w.houseClaims(kycActor(), tkDepositor))})
		return err
	})
	// the depositor lets the delegate deposit and withdraw on its behalf
	for _, a := range []authz.Authorization{&housetypes.DepositAuthorization{SpendLimit: sdkmath.NewInt(1_000_000)},
		&housetypes.WithdrawAuthorization{WithdrawLimit: sdkmath.NewInt(1_000_000)}} {
		exp := time.Unix(w.now+1_000_000, 0).UTC()
		must(e.App.AuthzKeeper.SaveGrant(e.Ctx, e.Accts[tkDelegate], e.Accts[tkDepositor], a, &exp))
	}
	// subaccounts of the subaccount owner and of the reward receiver
	for _, o := range []int{tkSubOwner, tkReceiver} {
		owner := o
		w.mustTx("subaccount create", func(ctx sdk.Context) error {
			_, err := w.ssrv.Create(sdk.WrapSDKContext(ctx), &subtypes.MsgCreate{Creator: w.addr(tkFunder), Owner: w.addr(owner),
				LockedBalances: []subtypes.LockedBalance{{UnlockTS: uint64(w.now + 1_000_000), Amount: sdkmath.NewInt(500_000)}}})
			return err
		})
	}
	// participation 2 belongs to the subaccount of the subaccount owner
	w.mustTx("subaccount house deposit", func(ctx sdk.Context) error {
		_, err := w.ssrv.HouseDeposit(sdk.WrapSDKContext(ctx), &subtypes.MsgHouseDeposit{Msg: &housetypes.MsgDeposit{Creator: w.addr(tkSubOwner),
			MarketUID: w.m1, Amount: sdkmath.NewInt(50_000), Ticket: w.validTok(w.houseClaims(kycActor(), tkSubOwner))}})
		return err
	})
	// promoter + campaign
	w.promoUID = UID(0xd0, 1)
	w.mustTx("create promoter", func(ctx sdk.Context) error {
		_, err := w.rsrv.CreatePromoter(sdk.WrapSDKContext(ctx), &rewardtypes.MsgCreatePromoter{Creator: w.addr(tkPromoter),
			Ticket: w.validTok(map[string]interface{}{"uid": w.promoUID, "conf": w.promoConf(50)})})
		return err
	})
	w.campUID = UID(0xd1, 1)
	w.mustTx("create campaign", func(ctx sdk.Context) error {
		_, err := w.rsrv.CreateCampaign(sdk.WrapSDKContext(ctx), &rewardtypes.MsgCreateCampaign{Creator: w.addr(tkPromoter), Uid: w.campUID,
			TotalFunds: sdkmath.NewInt(100_000), Ticket: w.validTok(w.campaignClaims(0))})
		return err
	})
	// an active proposal to vote on (never voted in the committed state)
	w.mustTx("proposal", func(ctx sdk.Context) error {
		_, err := w.osrv.SubmitPubkeysChangeProposal(sdk.WrapSDKContext(ctx), &ovmtypes.MsgSubmitPubkeysChangeProposalRequest{
			Creator: w.addr(tkOperator), Ticket: w.validTok(w.proposalClaims([]int{0, 1, 2, 3}, 0))})
		return err
	})
	w.propID = e.App.OVMKeeper.GetProposalStats(e.Ctx).PubkeysChangeCount
	return w
}

func kycActor() kycVar { return kycVar{name: "kyc-approved-actor", approved: true, who: -2} }

func (w *tkWorld) promoConf(cap int32) rewardtypes.PromoterConf {
	return rewardtypes.PromoterConf{CategoryCap: []rewardtypes.CategoryCap{{Category: rewardtypes.RewardCategory_REWARD_CATEGORY_SIGNUP, CapPerAcc: cap}}}
}

// rotate drives a real key-change proposal to approval: the current leader string is dropped, a fresh key joins,
// the new leader is one of the remaining old keys or the fresh one; the kept keys are re-submitted in a random
// textual encoding. `exotic`: the new list additionally holds a second encoding of one of its keys (the tree as it
// is accepts that, see C14); if the tree refuses it the plain list is proposed instead. Returns false if the vault
// did not become the proposed one.
func (w *tkWorld) rotate() (ok bool) {
	ok = true
	old := append([]int{}, w.vkeys...)
	keys := append([]int{}, old[1:]...)
	keys = append(keys, w.nextKey)
	w.nextKey++
	if w.nextKey > w.foreign-2 {
		panic("ticket suite: key pool exhausted (at most two rotations per history)")
	}
	variants := []int{0, 1, 2, 3}
	var strs []string
	seen := map[int]bool{}
	var uniq []int
	for _, k := range keys {
		if seen[k] {
			continue // a key that was registered twice is kept once
		}
		seen[k] = true
		uniq = append(uniq, k)
		strs = append(strs, w.pool.str[k][variants[w.r.Intn(4)]])
	}
	keys = uniq
	leader := w.r.Intn(len(keys))
	submit := func(ss []string) error {
		proposer := w.r.Intn(len(old))
		tok, _ := forgeValid(w.fctx(old[proposer], proposer), map[string]interface{}{"public_keys": ss, "leader_index": leader})
		err, _ := w.e.Tx(func(ctx sdk.Context) error {
			_, err := w.osrv.SubmitPubkeysChangeProposal(sdk.WrapSDKContext(ctx), &ovmtypes.MsgSubmitPubkeysChangeProposalRequest{
				Creator: w.addr(tkOperator), Ticket: tok})
			return err
		})
		return err
	}
	want := append([]int{}, keys...)
	submitted := false
	if len(strs) < ovmtypes.MaxPubKeysCount && w.r.Chance(40) {
		d := w.r.Intn(len(keys))
		cur := w.pool.ID(strings.TrimSpace(strs[d])) % ovmVariants
		v := []int{0, 2, 3}[w.r.Intn(3)]
		if v == cur {
			v = []int{2, 3, 0}[w.r.Intn(3)]
		}
		if v != cur {
			exotic := append(append([]string{}, strs...), w.pool.str[keys[d]][v])
			if submit(exotic) == nil {
				submitted = true
				want = append(want, keys[d])
				w.out.Count("rotation.two-encodings-of-one-key")
			}
		}
	}
	if !submitted {
		if err := submit(strs); err != nil {
			if w.diverged {
				// the chain's vault already differs from the one the approved proposal dictated (reported above):
				// the keys the suite signs with are not the chain's any more; this history ends here
				w.stop = true
				return false
			}
			panic(fmt.Sprintf("ticket suite: rotation proposal refused: %v", err))
		}
	}
	pid := w.e.App.OVMKeeper.GetProposalStats(w.e.Ctx).PubkeysChangeCount
	for i := range old {
		idx := i
		vt, _ := forgeValid(w.fctx(old[idx], idx), map[string]interface{}{"proposal_id": pid, "vote": ovmtypes.ProposalVote_PROPOSAL_VOTE_YES})
		// (a second vote of a key registered under two encodings may be refused by a patched tree: not required)
		_, _ = w.e.Tx(func(ctx sdk.Context) error {
			_, err := w.osrv.VotePubkeysChange(sdk.WrapSDKContext(ctx), &ovmtypes.MsgVotePubkeysChangeRequest{
				Creator: w.addr(tkOperator), Ticket: vt, VoterKeyIndex: uint32(idx)})
			return err
		})
	}
	halt, what := w.e.Block(func(ctx sdk.Context) { ovm.EndBlocker(ctx, *w.e.App.OVMKeeper) })
	if halt {
		panic("ticket suite: ovm end-blocker panicked: " + what)
	}
	w.readVault()
	// the vault the signed and approved proposal dictates: its leader first, the other keys in the signed order
	exp := []int{keys[leader]}
	for i, k := range want {
		if i != leader {
			exp = append(exp, k)
		}
	}
	same := len(w.vkeys) == len(exp)
	for i := 0; same && i < len(exp); i++ {
		same = w.vkeys[i] == exp[i]
	}
	if !same {
		// C06: the effect of a ticket-bearing message is exactly the signed payload. Go on with the vault the payload
		// dictates: tickets of its leader must be accepted from here on and tickets of every other key refused.
		w.fail("rotation_installs_signed_vault", "vault-differs-from-approved-proposal",
			"approved proposal %d signed keys %v with leader index %d (expected vault %v, leader first); the chain's vault is %v", pid, want, leader, exp, w.vkeys)
		w.vkeys = exp
		w.diverged = true
		ok = false
	}
	for _, k := range old {
		w.everIn[k] = true
	}
	// a key that was registered once and is not any more
	w.removed = -1
	in := map[int]bool{}
	for _, k := range w.vkeys {
		in[k] = true
	}
	for k := 0; k < ovmPoolKeys; k++ {
		if w.everIn[k] && !in[k] {
			w.removed = k
		}
	}
	return ok
}

// handlers lists the 17 ticket-bearing message types as they can be sent in the current state.
func (w *tkWorld) handlers() []*tkHandler {
	e := w.e
	wrap := sdk.WrapSDKContext
	var hs []*tkHandler
	add := func(h *tkHandler) { hs = append(hs, h) }
	plain := func(c map[string]interface{}) func(kycVar) map[string]interface{} {
		return func(kycVar) map[string]interface{} { return c }
	}

	// ---- market
	add(&tkHandler{name: "market.Add", claims: plain(w.marketAddClaims(2)), misfit: map[string]interface{}{"uid": 5},
		alt:        func() map[string]interface{} { return w.marketAddClaims(3) },
		newPayload: func() interface{} { return &markettypes.MarketAddTicketPayload{} },
		run: func(ctx sdk.Context, tok string) error {
			msg := &markettypes.MsgAdd{Creator: w.addr(tkOperator), Ticket: tok}
			if err := msg.ValidateBasic(); err != nil {
				return err
			}
			_, err := w.msrv.Add(wrap(ctx), msg)
			return err
		}})
	upd := func(d int64) map[string]interface{} {
		return map[string]interface{}{"uid": w.m1, "start_ts": uint64(w.now - 40), "end_ts": uint64(w.now + 2_000_000 + d), "status": 1}
	}
	add(&tkHandler{name: "market.Update", claims: plain(upd(0)), misfit: map[string]interface{}{"uid": w.m1, "end_ts": "later"},
		alt:        func() map[string]interface{} { return upd(1) },
		newPayload: func() interface{} { return &markettypes.MarketUpdateTicketPayload{} },
		run: func(ctx sdk.Context, tok string) error {
			msg := &markettypes.MsgUpdate{Creator: w.addr(tkOperator), Ticket: tok}
			if err := msg.ValidateBasic(); err != nil {
				return err
			}
			_, err := w.msrv.Update(wrap(ctx), msg)
			return err
		}})
	res := func(win int) map[string]interface{} {
		return map[string]interface{}{"uid": w.m1, "resolution_ts": uint64(w.now), "winner_odds_uids": []string{w.m1odds[win]},
			"status": markettypes.MarketStatus_MARKET_STATUS_RESULT_DECLARED}
	}
	add(&tkHandler{name: "market.Resolve", claims: plain(res(0)), misfit: map[string]interface{}{"uid": w.m1, "winner_odds_uids": "first"},
		alt:        func() map[string]interface{} { return res(1) },
		newPayload: func() interface{} { return &markettypes.MarketResolutionTicketPayload{} },
		run: func(ctx sdk.Context, tok string) error {
			msg := &markettypes.MsgResolve{Creator: w.addr(tkOperator), Ticket: tok}
			if err := msg.ValidateBasic(); err != nil {
				return err
			}
			_, err := w.msrv.Resolve(wrap(ctx), msg)
			return err
		}})

	// ---- house
	add(&tkHandler{name: "house.Deposit", kyc: true, actor: tkDepositor,
		claims:     func(kv kycVar) map[string]interface{} { return w.houseClaims(kv, tkDepositor) },
		misfit:     map[string]interface{}{"kyc_data": "approved"},
		newPayload: func() interface{} { return &housetypes.DepositTicketPayload{} },
		run: func(ctx sdk.Context, tok string) error {
			msg := &housetypes.MsgDeposit{Creator: w.addr(tkDepositor), MarketUID: w.m1, Amount: sdkmath.NewInt(1000), Ticket: tok}
			if err := msg.ValidateBasic(); err != nil {
				return err
			}
			_, err := w.hsrv.Deposit(wrap(ctx), msg)
			return err
		}})
	add(&tkHandler{name: "house.Withdraw", kyc: true, actor: tkDepositor,
		claims:     func(kv kycVar) map[string]interface{} { return w.houseClaims(kv, tkDepositor) },
		misfit:     map[string]interface{}{"kyc_data": "approved"},
		newPayload: func() interface{} { return &housetypes.WithdrawTicketPayload{} },
		run: func(ctx sdk.Context, tok string) error {
			msg := &housetypes.MsgWithdraw{Creator: w.addr(tkDepositor), MarketUID: w.m1, ParticipationIndex: 1,
				Mode: housetypes.WithdrawalMode_WITHDRAWAL_MODE_PARTIAL, Amount: sdkmath.NewInt(10), Ticket: tok}
			if err := msg.ValidateBasic(); err != nil {
				return err
			}
			_, err := w.hsrv.Withdraw(wrap(ctx), msg)
			return err
		}})

	// on behalf of the depositor (authz grant): the KYC data must name the depositor of the payload, not the signer
	add(&tkHandler{name: "house.Deposit#on-behalf", kyc: true, actor: tkDepositor,
		claims:     func(kv kycVar) map[string]interface{} { return w.houseClaimsFor(kv, tkDepositor) },
		misfit:     map[string]interface{}{"kyc_data": "approved"},
		newPayload: func() interface{} { return &housetypes.DepositTicketPayload{} },
		run: func(ctx sdk.Context, tok string) error {
			msg := &housetypes.MsgDeposit{Creator: w.addr(tkDelegate), MarketUID: w.m1, Amount: sdkmath.NewInt(1000), Ticket: tok}
			if err := msg.ValidateBasic(); err != nil {
				return err
			}
			_, err := w.hsrv.Deposit(wrap(ctx), msg)
			return err
		}})
	add(&tkHandler{name: "house.Withdraw#on-behalf", kyc: true, actor: tkDepositor,
		claims:     func(kv kycVar) map[string]interface{} { return w.houseClaimsFor(kv, tkDepositor) },
		misfit:     map[string]interface{}{"kyc_data": "approved"},
		newPayload: func() interface{} { return &housetypes.WithdrawTicketPayload{} },
		run: func(ctx sdk.Context, tok string) error {
			msg := &housetypes.MsgWithdraw{Creator: w.addr(tkDelegate), MarketUID: w.m1, ParticipationIndex: 1,
				Mode: housetypes.WithdrawalMode_WITHDRAWAL_MODE_PARTIAL, Amount: sdkmath.NewInt(10), Ticket: tok}
			if err := msg.ValidateBasic(); err != nil {
				return err
			}
			_, err := w.hsrv.Withdraw(wrap(ctx), msg)
			return err
		}})

	// ---- bet
	add(&tkHandler{name: "bet.Wager", kyc: true, actor: tkBettor,
		claims:     func(kv kycVar) map[string]interface{} { return w.betClaims(kv, tkBettor, 0) },
		misfit:     map[string]interface{}{"selected_odds": "first", "kyc_data": w.kycMap(kycActor(), tkBettor)},
		alt:        func() map[string]interface{} { return w.betClaims(kycActor(), tkBettor, 1) },
		newPayload: func() interface{} { return &bettypes.WagerTicketPayload{} },
		run: func(ctx sdk.Context, tok string) error {
			msg := &bettypes.MsgWager{Creator: w.addr(tkBettor), Props: &bettypes.WagerProps{UID: UID(clsBet, 1), Amount: sdkmath.NewInt(1000), Ticket: tok}}
			if err := msg.ValidateBasic(); err != nil {
				return err
			}
			_, err := w.bsrv.Wager(wrap(ctx), msg)
			return err
		}})

	// ---- ovm
	propKeys := []int{}
	for _, k := range w.vkeys {
		dup := false
		for _, q := range propKeys {
			dup = dup || q == k
		}
		if !dup && len(propKeys) < 3 {
			propKeys = append(propKeys, k)
		}
	}
	propKeys = append(propKeys, w.foreign-1)
	add(&tkHandler{name: "ovm.SubmitPubkeysChangeProposal", mode: modeAny,
		claims: plain(w.proposalClaims(propKeys, 0)), misfit: map[string]interface{}{"public_keys": "all", "leader_index": 0},
		alt: func() map[string]interface{} { return w.proposalClaims(propKeys, 1) },
		run: func(ctx sdk.Context, tok string) error {
			msg := &ovmtypes.MsgSubmitPubkeysChangeProposalRequest{Creator: w.addr(tkOperator), Ticket: tok}
			if err := msg.ValidateBasic(); err != nil {
				return err
			}
			_, err := w.osrv.SubmitPubkeysChangeProposal(wrap(ctx), msg)
			return err
		}})
	voteClaims := func(v ovmtypes.ProposalVote) map[string]interface{} {
		return map[string]interface{}{"proposal_id": w.propID, "vote": v}
	}
	voteRun := func(idx int) func(ctx sdk.Context, tok string) error {
		return func(ctx sdk.Context, tok string) error {
			msg := &ovmtypes.MsgVotePubkeysChangeRequest{Creator: w.addr(tkOperator), Ticket: tok, VoterKeyIndex: uint32(idx)}
			if err := msg.ValidateBasic(); err != nil {
				return err
			}
			_, err := w.osrv.VotePubkeysChange(wrap(ctx), msg)
			return err
		}
	}
	vi := w.r.Intn(len(w.vault))
	add(&tkHandler{name: "ovm.VotePubkeysChange", mode: modeIndex, idx: vi,
		claims: plain(voteClaims(ovmtypes.ProposalVote_PROPOSAL_VOTE_YES)), misfit: map[string]interface{}{"proposal_id": "first", "vote": 2},
		alt: func() map[string]interface{} { return voteClaims(ovmtypes.ProposalVote_PROPOSAL_VOTE_NO) },
		run: voteRun(vi)})
	add(&tkHandler{name: "ovm.VotePubkeysChange#index-out-of-range", mode: modeIndex, idx: len(w.vault), onlyValid: true,
		claims: plain(voteClaims(ovmtypes.ProposalVote_PROPOSAL_VOTE_YES)), run: voteRun(len(w.vault))})

	// ---- reward
	add(&tkHandler{name: "reward.CreatePromoter",
		claims: plain(map[string]interface{}{"uid": UID(0xd0, 2), "conf": w.promoConf(3)}), misfit: map[string]interface{}{"uid": UID(0xd0, 2), "conf": "invalid"},
		alt: func() map[string]interface{} {
			return map[string]interface{}{"uid": UID(0xd0, 3), "conf": w.promoConf(3)}
		},
		newPayload: func() interface{} { return &rewardtypes.CreatePromoterPayload{} },
		run: func(ctx sdk.Context, tok string) error {
			msg := &rewardtypes.MsgCreatePromoter{Creator: w.addr(tkNewPromo), Ticket: tok}
			if err := msg.ValidateBasic(); err != nil {
				return err
			}
			_, err := w.rsrv.CreatePromoter(wrap(ctx), msg)
			return err
		}})
	add(&tkHandler{name: "reward.SetPromoterConf",
		claims: plain(map[string]interface{}{"conf": w.promoConf(7)}), misfit: map[string]interface{}{"conf": "invalid"},
		alt:        func() map[string]interface{} { return map[string]interface{}{"conf": w.promoConf(8)} },
		newPayload: func() interface{} { return &rewardtypes.SetPromoterConfPayload{} },
		run: func(ctx sdk.Context, tok string) error {
			msg := &rewardtypes.MsgSetPromoterConf{Creator: w.addr(tkPromoter), Uid: w.promoUID, Ticket: tok}
			if err := msg.ValidateBasic(); err != nil {
				return err
			}
			_, err := w.rsrv.SetPromoterConf(wrap(ctx), msg)
			return err
		}})
	add(&tkHandler{name: "reward.CreateCampaign",
		claims: plain(w.campaignClaims(0)), misfit: map[string]interface{}{"promoter": 5},
		alt:        func() map[string]interface{} { return w.campaignClaims(1) },
		newPayload: func() interface{} { return &rewardtypes.CreateCampaignPayload{} },
		run: func(ctx sdk.Context, tok string) error {
			msg := &rewardtypes.MsgCreateCampaign{Creator: w.addr(tkPromoter), Uid: UID(0xd1, 2), TotalFunds: sdkmath.NewInt(5000), Ticket: tok}
			if err := msg.ValidateBasic(); err != nil {
				return err
			}
			_, err := w.rsrv.CreateCampaign(wrap(ctx), msg)
			return err
		}})
	updc := func(d int64) map[string]interface{} {
		return map[string]interface{}{"end_ts": uint64(w.now + 200000 + d), "is_active": true}
	}
	add(&tkHandler{name: "reward.UpdateCampaign",
		claims: plain(updc(0)), misfit: map[string]interface{}{"end_ts": "later"},
		alt:        func() map[string]interface{} { return updc(1) },
		newPayload: func() interface{} { return &rewardtypes.UpdateCampaignPayload{} },
		run: func(ctx sdk.Context, tok string) error {
			msg := &rewardtypes.MsgUpdateCampaign{Creator: w.addr(tkPromoter), Uid: w.campUID, TopupFunds: sdkmath.NewInt(100), Ticket: tok}
			if err := msg.ValidateBasic(); err != nil {
				return err
			}
			_, err := w.rsrv.UpdateCampaign(wrap(ctx), msg)
			return err
		}})
	add(&tkHandler{name: "reward.WithdrawFunds",
		claims: plain(map[string]interface{}{"promoter": w.addr(tkPromoter)}), misfit: map[string]interface{}{"promoter": 5},
		alt:        func() map[string]interface{} { return map[string]interface{}{"promoter": w.addr(tkStranger)} },
		newPayload: func() interface{} { return &rewardtypes.WithdrawFundsPayload{} },
		run: func(ctx sdk.Context, tok string) error {
			msg := &rewardtypes.MsgWithdrawFunds{Creator: w.addr(tkPromoter), Uid: w.campUID, Amount: sdkmath.NewInt(500), Ticket: tok}
			if err := msg.ValidateBasic(); err != nil {
				return err
			}
			_, err := w.rsrv.WithdrawFunds(wrap(ctx), msg)
			return err
		}})
	grant := func(kv kycVar, receiver int) map[string]interface{} {
		common := map[string]interface{}{"receiver": w.addr(receiver), "source_uid": "", "meta": "signup"}
		if !kv.absent {
			common["kyc_data"] = w.kycMap(kv, receiver)
		}
		return map[string]interface{}{"common": common}
	}
	add(&tkHandler{name: "reward.GrantReward", kyc: true, actor: tkReceiver,
		claims:     func(kv kycVar) map[string]interface{} { return grant(kv, tkReceiver) },
		misfit:     map[string]interface{}{"common": "invalid"},
		newPayload: func() interface{} { return &rewardtypes.GrantSignupRewardPayload{} },
		run: func(ctx sdk.Context, tok string) error {
			msg := &rewardtypes.MsgGrantReward{Creator: w.addr(tkPromoter), Uid: UID(0xd2, 1), CampaignUid: w.campUID, Ticket: tok}
			if err := msg.ValidateBasic(); err != nil {
				return err
			}
			_, err := w.rsrv.GrantReward(wrap(ctx), msg)
			return err
		}})

	// ---- subaccount
	add(&tkHandler{name: "subaccount.HouseDeposit", kyc: true, actor: tkSubOwner,
		claims:     func(kv kycVar) map[string]interface{} { return w.houseClaims(kv, tkSubOwner) },
		misfit:     map[string]interface{}{"kyc_data": "approved"},
		newPayload: func() interface{} { return &housetypes.DepositTicketPayload{} },
		run: func(ctx sdk.Context, tok string) error {
			msg := &subtypes.MsgHouseDeposit{Msg: &housetypes.MsgDeposit{Creator: w.addr(tkSubOwner), MarketUID: w.m1, Amount: sdkmath.NewInt(1000), Ticket: tok}}
			if err := msg.ValidateBasic(); err != nil {
				return err
			}
			_, err := w.ssrv.HouseDeposit(wrap(ctx), msg)
			return err
		}})
	add(&tkHandler{name: "subaccount.HouseWithdraw", kyc: true, actor: tkSubOwner,
		claims:     func(kv kycVar) map[string]interface{} { return w.houseClaims(kv, tkSubOwner) },
		misfit:     map[string]interface{}{"kyc_data": "approved"},
		newPayload: func() interface{} { return &housetypes.WithdrawTicketPayload{} },
		run: func(ctx sdk.Context, tok string) error {
			msg := &subtypes.MsgHouseWithdraw{Msg: &housetypes.MsgWithdraw{Creator: w.addr(tkSubOwner), MarketUID: w.m1, ParticipationIndex: 2,
				Mode: housetypes.WithdrawalMode_WITHDRAWAL_MODE_PARTIAL, Amount: sdkmath.NewInt(10), Ticket: tok}}
			if err := msg.ValidateBasic(); err != nil {
				return err
			}
			_, err := w.ssrv.HouseWithdraw(wrap(ctx), msg)
			return err
		}})
	innerMsg := func(innerTok string) bettypes.MsgWager {
		return bettypes.MsgWager{Creator: w.addr(tkSubOwner), Props: &bettypes.WagerProps{UID: UID(clsBet, 2), Amount: sdkmath.NewInt(1000), Ticket: innerTok}}
	}
	outer := func(innerTok string, sub int64) map[string]interface{} {
		return map[string]interface{}{"msg": innerMsg(innerTok), "mainacc_deduct_amount": sdkmath.NewInt(1000 - sub), "subacc_deduct_amount": sdkmath.NewInt(sub)}
	}
	subWagerRun := func(ctx sdk.Context, outerTok string) error {
		msg := &subtypes.MsgWager{Creator: w.addr(tkSubOwner), Ticket: outerTok}
		if err := msg.ValidateBasic(); err != nil {
			return err
		}
		_, err := w.ssrv.Wager(wrap(ctx), msg)
		return err
	}
	// the outer ticket (signed wrapper of the bet message) is the one under test; the KYC data lives in the inner one
	add(&tkHandler{name: "subaccount.Wager", kyc: true, actor: tkSubOwner, companion: true,
		claims: func(kv kycVar) map[string]interface{} { return outer(w.validTok(w.betClaims(kv, tkSubOwner, 0)), 1000) },
		misfit: map[string]interface{}{"msg": "bet", "mainacc_deduct_amount": "0", "subacc_deduct_amount": "1000"},
		alt: func() map[string]interface{} {
			return outer(w.validTok(w.betClaims(kycActor(), tkSubOwner, 0)), 400)
		},
		newPayload: func() interface{} { return &subtypes.SubAccWagerTicketPayload{} },
		run:        subWagerRun})
	// the inner ticket (the bet module's own) under test inside a valid wrapper
	add(&tkHandler{name: "subaccount.Wager#inner-bet-ticket", kyc: true, actor: tkSubOwner, companion: true,
		claims:     func(kv kycVar) map[string]interface{} { return w.betClaims(kv, tkSubOwner, 0) },
		misfit:     map[string]interface{}{"selected_odds": "first", "kyc_data": w.kycMap(kycActor(), tkSubOwner)},
		alt:        func() map[string]interface{} { return w.betClaims(kycActor(), tkSubOwner, 1) },
		newPayload: func() interface{} { return &bettypes.WagerTicketPayload{} },
		run: func(ctx sdk.Context, innerTok string) error {
			return subWagerRun(ctx, w.validTok(outer(innerTok, 1000)))
		}})
	_ = e
	return hs
}
