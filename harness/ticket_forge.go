package harness

// Forger of the ticket (C06) suite: builds byte strings of every mutation class around one payload and records,
// from HOW each string was made (never by parsing it back), the abstract record of lean/Sge/Ticket.lean
// (`Presented`). Keys, key-string numbering and base64 helper are those of ovm_helpers.go.

import (
	"crypto/ecdsa"
	"crypto/ed25519"
	"crypto/elliptic"
	"crypto/hmac"
	"crypto/rand"
	"crypto/rsa"
	"crypto/sha256"
	"crypto/sha512"
	"encoding/base64"
	"encoding/json"
	"fmt"
	"strings"

	"github.com/golang-jwt/jwt/v4"
)

// algorithm codes of the line protocol (lean/Driver/Ticket.lean)
const (
	algEdDSA = 0
	algNone  = 1
	algHS    = 2
	algES    = 3
	algRS    = 4
	algOther = 5
)

// absTk is the abstract record of a presented string (lean/Sge/Ticket.lean `Presented`).
type absTk struct {
	Parts    int
	HdrOk    bool
	Alg      int
	ClaimsOk bool
	Exp      *int64 // floor of the exp claim
	SigB64   bool
	SigKey   int // pool key under which segment 2 is a valid Ed25519 signature of seg0.seg1; -1 none
	Fits     bool
	Canon    bool
	Nbf, Iat *int64
}

func optI(p *int64) string {
	if p == nil {
		return "-"
	}
	return fmt.Sprint(*p)
}

func (a absTk) String() string {
	return fmt.Sprintf("%d %d %d %d %s %d %d %d %d %s %s", a.Parts, b2i(a.HdrOk), a.Alg, b2i(a.ClaimsOk), optI(a.Exp),
		b2i(a.SigB64), a.SigKey, b2i(a.Fits), b2i(a.Canon), optI(a.Nbf), optI(a.Iat))
}

// forged is one presented string.
type forged struct {
	Class string
	Tok   string
	Abs   absTk
	// what the property's notion of "authentic and unexpired" needs (stated by construction, for the monitors):
	EdDSA       bool  // readable header naming EdDSA
	SignedBy    int   // pool key with a valid Ed25519 signature over the token's own header.payload, -1 none
	ExpSec      int64 // expiry second; noExp if the token has no readable expiry
	NoExp       bool
	SamePayload bool // the signed payload has the same content as the handler's reference payload (effect_is_payload)
}

// forgeCtx is the situation a token is forged for.
type forgeCtx struct {
	pool    *ovmPool
	now     int64  // ctx.BlockTime().Unix()
	good    int    // pool key that makes the ticket valid for the mode under test
	goodPEM string // the exact vault string of that key (HMAC confusion)
	others  []int  // keys at the other vault positions
	removed int    // key removed by a rotation (-1: none yet)
	foreign int    // key never registered
}

var (
	tkECKey  *ecdsa.PrivateKey
	tkRSAKey *rsa.PrivateKey
)

func tkAltKeys() {
	if tkECKey == nil {
		var err error
		tkECKey, err = ecdsa.GenerateKey(elliptic.P256(), rand.Reader)
		must(err)
		tkRSAKey, err = rsa.GenerateKey(rand.Reader, 2048)
		must(err)
	}
}

func i64p(v int64) *int64 { return &v }

func cloneClaims(c map[string]interface{}) map[string]interface{} {
	o := map[string]interface{}{}
	for k, v := range c {
		o[k] = v
	}
	return o
}

func mustJSON(v interface{}) []byte {
	b, err := json.Marshal(v)
	must(err)
	return b
}

const hdrStd = `{"alg":"EdDSA","typ":"JWT"}`

func hdrAlg(alg string) string { return fmt.Sprintf(`{"alg":%q,"typ":"JWT"}`, alg) }

// aliasLastChar returns a different base64url string that decodes (non-strictly) to the same bytes: the last
// character of an unpadded encoding of 64 bytes carries 4 unused bits.
func aliasLastChar(seg string) string {
	const abc = "ABCDEFGHIJKLMNOPQRSTUVWXYZabcdefghijklmnopqrstuvwxyz0123456789-_"
	last := strings.IndexByte(abc, seg[len(seg)-1])
	return seg[:len(seg)-1] + string(abc[last|1])
}

// forgeValid builds the canonical valid token (class "valid" of forgeAll) and its record.
func forgeValid(fc forgeCtx, claims map[string]interface{}) (string, forged) {
	cl := cloneClaims(claims)
	stdExp, stdIat := fc.now+1000, fc.now-10
	cl["exp"], cl["iat"] = stdExp, stdIat
	in := b64u([]byte(hdrStd)) + "." + b64u(mustJSON(cl))
	tok := in + "." + b64u(ed25519.Sign(fc.pool.priv[fc.good], []byte(in)))
	return tok, forged{Class: "valid", Tok: tok,
		Abs: absTk{Parts: 3, HdrOk: true, Alg: algEdDSA, ClaimsOk: true, Exp: i64p(stdExp), SigB64: true, SigKey: fc.good,
			Fits: true, Canon: true, Iat: i64p(stdIat)},
		EdDSA: true, SignedBy: fc.good, ExpSec: stdExp, SamePayload: true}
}

// forgeAll builds every mutation class around `claims` (which must not contain exp / iat / nbf). `misfit` are
// claims that do not fit the message's payload type; `alt` is a second valid payload with other content (nil: none).
func forgeAll(fc forgeCtx, claims, misfit, alt map[string]interface{}) []forged {
	tkAltKeys()
	p := fc.pool
	now := fc.now
	var out []forged

	edSig := func(key int, input string) []byte { return ed25519.Sign(p.priv[key], []byte(input)) }
	payload := func(c map[string]interface{}, exp interface{}, iat interface{}) []byte {
		cl := cloneClaims(c)
		if exp != nil {
			cl["exp"] = exp
		}
		if iat != nil {
			cl["iat"] = iat
		}
		return mustJSON(cl)
	}
	stdExp := now + 1000
	stdIat := now - 10
	stdPl := b64u(payload(claims, stdExp, stdIat))
	stdH := b64u([]byte(hdrStd))
	stdIn := stdH + "." + stdPl
	stdSig := b64u(edSig(fc.good, stdIn))

	base := func() forged {
		return forged{
			Abs: absTk{Parts: 3, HdrOk: true, Alg: algEdDSA, ClaimsOk: true, Exp: i64p(stdExp), SigB64: true, SigKey: fc.good,
				Fits: true, Canon: true, Iat: i64p(stdIat)},
			EdDSA: true, SignedBy: fc.good, ExpSec: stdExp, SamePayload: true,
		}
	}
	add := func(class, tok string, f forged) {
		f.Class, f.Tok = class, tok
		out = append(out, f)
	}
	// signed(hdrSeg, plSeg, key): a token whose signature is a real Ed25519 signature by `key` over hdrSeg.plSeg
	signed := func(hSeg, plSeg string, key int) string {
		in := hSeg + "." + plSeg
		return in + "." + b64u(edSig(key, in))
	}

	// ---------------- accepted shapes
	add("valid", stdIn+"."+stdSig, base())
	{
		f := base()
		add("valid-hdr-variant", signed(b64u([]byte(`{"typ":"JWT","kid":"oracle-1","alg":"EdDSA"}`)), stdPl, fc.good), f)
	}
	{
		cl := cloneClaims(claims)
		cl["exp"], cl["iat"] = stdExp, stdIat
		bs, err := json.MarshalIndent(cl, " ", "\t")
		must(err)
		add("valid-payload-respaced", signed(stdH, b64u(bs), fc.good), base())
	}
	{
		f := base()
		far := now + 1_000_000_000
		f.Abs.Exp, f.ExpSec = i64p(far), far
		add("valid-far-exp", signed(stdH, b64u(payload(claims, far, stdIat)), fc.good), f)
	}
	{
		f := base()
		f.Abs.Parts = 4
		add("valid-4parts", stdIn+"."+stdSig+".extra", f)
		f.Abs.Parts = 5
		add("valid-5parts", stdIn+"."+stdSig+"."+stdPl+"."+stdSig, f)
		f.Abs.Parts = 4
		add("valid-trailing-dot", stdIn+"."+stdSig+".", f)
	}
	{
		f := base()
		f.Abs.Canon = false
		add("valid-sig-noncanonical-bits", stdIn+"."+aliasLastChar(stdSig), f)
		add("valid-sig-newline", stdIn+"."+stdSig[:40]+"\n"+stdSig[40:]+"\r\n", f)
	}
	{
		pl := stdPl[:12] + "\n" + stdPl[12:]
		add("valid-payload-newline", signed(stdH, pl, fc.good), base())
	}
	{
		f := base()
		cl := cloneClaims(claims)
		cl["nbf"] = now + 5000
		fut := now + 5000
		f.Abs.Nbf, f.Abs.Iat = i64p(fut), i64p(fut)
		add("valid-nbf-iat-future", signed(stdH, b64u(payload(cl, stdExp, fut)), fc.good), f)
	}
	{
		f := base()
		f.Abs.Exp, f.ExpSec = i64p(now+1), now+1
		add("exp-plus1", signed(stdH, b64u(payload(claims, now+1, stdIat)), fc.good), f)
		add("exp-plus1.5", signed(stdH, b64u(payload(claims, float64(now)+1.5, stdIat)), fc.good), f)
		f.Abs.Exp, f.ExpSec = i64p(stdExp), stdExp
		add("exp-as-numeric-string", signed(stdH, b64u(payload(claims, fmt.Sprint(stdExp), stdIat)), fc.good), f)
	}

	// ---------------- expiry
	{
		f := base()
		f.Abs.Exp, f.ExpSec = i64p(now), now
		add("exp-eq-blocktime", signed(stdH, b64u(payload(claims, now, stdIat)), fc.good), f)
		add("exp-plus0.5", signed(stdH, b64u(payload(claims, float64(now)+0.5, stdIat)), fc.good), f)
		f.Abs.Exp, f.ExpSec = i64p(now-1), now-1
		add("exp-minus1", signed(stdH, b64u(payload(claims, now-1, stdIat)), fc.good), f)
		f.Abs.Exp, f.ExpSec = i64p(0), 0
		add("exp-zero", signed(stdH, b64u(payload(claims, 0, stdIat)), fc.good), f)
		f.Abs.Exp, f.NoExp = nil, true
		add("exp-missing", signed(stdH, b64u(payload(claims, nil, stdIat)), fc.good), f)
		cl := cloneClaims(claims)
		cl["exp"] = nil
		add("exp-null", signed(stdH, b64u(payload(cl, nil, stdIat)), fc.good), f)
		f.Abs.ClaimsOk = false
		add("exp-not-a-number", signed(stdH, b64u(payload(claims, "tomorrow", stdIat)), fc.good), f)
	}
	{
		f := base()
		f.Abs.ClaimsOk = false
		add("claims-iat-not-a-number", signed(stdH, b64u(payload(claims, stdExp, "yesterday")), fc.good), f)
		cl := cloneClaims(claims)
		cl["aud"] = 7
		add("claims-aud-not-a-string", signed(stdH, b64u(payload(cl, stdExp, stdIat)), fc.good), f)
	}

	// ---------------- signer
	for j, k := range fc.others {
		f := base()
		f.Abs.SigKey, f.SignedBy = k, k
		add(fmt.Sprintf("signed-by-other-registered-key-%d", j), signed(stdH, stdPl, k), f)
	}
	if fc.removed >= 0 {
		f := base()
		f.Abs.SigKey, f.SignedBy = fc.removed, fc.removed
		add("signed-by-removed-key", signed(stdH, stdPl, fc.removed), f)
	}
	{
		f := base()
		f.Abs.SigKey, f.SignedBy = fc.foreign, fc.foreign
		add("signed-by-foreign-key", signed(stdH, stdPl, fc.foreign), f)
	}

	// ---------------- algorithm
	algCase := func(class, alg string, code int, sig func(input string) []byte, edKey int) {
		f := base()
		f.Abs.Alg, f.EdDSA = code, false
		f.Abs.SigKey, f.SignedBy = edKey, edKey
		h := b64u([]byte(hdrAlg(alg)))
		in := h + "." + stdPl
		add(class, in+"."+b64u(sig(in)), f)
	}
	algCase("alg-none-empty-sig", "none", algNone, func(string) []byte { return nil }, -1)
	algCase("alg-none-ed25519-sig", "none", algNone, func(in string) []byte { return edSig(fc.good, in) }, fc.good)
	algCase("alg-HS256-keyed-with-vault-pem", "HS256", algHS, func(in string) []byte {
		m := hmac.New(sha256.New, []byte(fc.goodPEM))
		m.Write([]byte(in))
		return m.Sum(nil)
	}, -1)
	algCase("alg-HS256-keyed-with-trimmed-pem", "HS256", algHS, func(in string) []byte {
		m := hmac.New(sha256.New, []byte(strings.TrimSpace(fc.goodPEM)))
		m.Write([]byte(in))
		return m.Sum(nil)
	}, -1)
	algCase("alg-HS256-keyed-with-raw-pubkey", "HS256", algHS, func(in string) []byte {
		m := hmac.New(sha256.New, []byte(p.pub[fc.good]))
		m.Write([]byte(in))
		return m.Sum(nil)
	}, -1)
	algCase("alg-HS512-keyed-with-vault-pem", "HS512", algHS, func(in string) []byte {
		m := hmac.New(sha512.New, []byte(fc.goodPEM))
		m.Write([]byte(in))
		return m.Sum(nil)
	}, -1)
	algCase("alg-HS256-ed25519-sig", "HS256", algHS, func(in string) []byte { return edSig(fc.good, in) }, fc.good)
	algCase("alg-ES256-ecdsa-sig", "ES256", algES, func(in string) []byte {
		s, err := jwt.SigningMethodES256.Sign(in, tkECKey)
		must(err)
		b, err := base64.RawURLEncoding.DecodeString(s)
		must(err)
		return b
	}, -1)
	algCase("alg-ES256-ed25519-sig", "ES256", algES, func(in string) []byte { return edSig(fc.good, in) }, fc.good)
	algCase("alg-RS256-rsa-sig", "RS256", algRS, func(in string) []byte {
		s, err := jwt.SigningMethodRS256.Sign(in, tkRSAKey)
		must(err)
		b, err := base64.RawURLEncoding.DecodeString(s)
		must(err)
		return b
	}, -1)
	algCase("alg-PS256-ed25519-sig", "PS256", algRS, func(in string) []byte { return edSig(fc.good, in) }, fc.good)
	algCase("alg-unknown-name-ed25519-sig", "Ed25519", algOther, func(in string) []byte { return edSig(fc.good, in) }, fc.good)
	algCase("alg-lowercase-eddsa", "eddsa", algOther, func(in string) []byte { return edSig(fc.good, in) }, fc.good)
	{
		f := base()
		f.Abs.Alg, f.EdDSA = algOther, false
		add("alg-missing", signed(b64u([]byte(`{"typ":"JWT"}`)), stdPl, fc.good), f)
		add("alg-not-a-string", signed(b64u([]byte(`{"alg":1,"typ":"JWT"}`)), stdPl, fc.good), f)
	}

	// ---------------- header
	{
		f := base()
		f.Abs.SigKey, f.SignedBy = -1, -1
		add("hdr-tampered-old-sig", b64u([]byte(`{"alg":"EdDSA","typ":"JWT","kid":"x"}`))+"."+stdPl+"."+stdSig, f)
		g := base()
		g.Abs.HdrOk, g.EdDSA = false, false
		g.Abs.Alg = algOther
		add("hdr-not-base64-signed", signed("%%%"+stdH, stdPl, fc.good), g)
		add("hdr-not-json-signed", signed(b64u([]byte("alg=EdDSA")), stdPl, fc.good), g)
		add("hdr-json-array-signed", signed(b64u([]byte(`["EdDSA"]`)), stdPl, fc.good), g)
		add("hdr-empty-signed", signed("", stdPl, fc.good), g)
	}

	// ---------------- payload
	{
		f := base()
		f.Abs.SigKey, f.SignedBy = -1, -1
		f.SamePayload = false
		cl := cloneClaims(claims)
		cl["tampered"] = true
		add("payload-extra-claim-old-sig", stdH+"."+b64u(payload(cl, stdExp, stdIat))+"."+stdSig, f)
		ext := stdExp + 100000
		f.Abs.Exp, f.ExpSec = i64p(ext), ext
		add("payload-exp-extended-old-sig", stdH+"."+b64u(payload(claims, ext, stdIat))+"."+stdSig, f)
		f.Abs.Exp, f.ExpSec = i64p(stdExp), stdExp
		if alt != nil {
			add("payload-other-content-old-sig", stdH+"."+b64u(payload(alt, stdExp, stdIat))+"."+stdSig, f)
		}
		// bits of the payload segment that do not change the decoded bytes still break the signature
		if a := aliasLastChar(stdPl); a != stdPl && len(stdPl)%4 != 0 {
			add("payload-noncanonical-bits-old-sig", stdH+"."+a+"."+stdSig, f)
		}
	}
	{
		g := base()
		g.Abs.ClaimsOk, g.Abs.Fits, g.Abs.Exp, g.NoExp, g.SamePayload = false, false, nil, true, false
		add("payload-not-base64-signed", signed(stdH, "%%%"+stdPl, fc.good), g)
		add("payload-not-json-signed", signed(stdH, b64u([]byte(fmt.Sprintf("exp=%d", stdExp))), fc.good), g)
		add("payload-json-array-signed", signed(stdH, b64u([]byte(fmt.Sprintf(`[{"exp":%d}]`, stdExp))), fc.good), g)
		add("payload-empty-signed", signed(stdH, "", fc.good), g)
		g.Abs.ClaimsOk, g.Abs.Fits = true, true
		add("payload-json-null-signed", signed(stdH, b64u([]byte("null")), fc.good), g)
	}
	if misfit != nil {
		f := base()
		f.Abs.Fits, f.SamePayload = false, false
		add("payload-misfit-signed", signed(stdH, b64u(payload(misfit, stdExp, stdIat)), fc.good), f)
	}

	// ---------------- signature
	{
		f := base()
		f.Abs.SigKey, f.SignedBy = -1, -1
		raw := edSig(fc.good, stdIn)
		flip := append([]byte{}, raw...)
		flip[5] ^= 0x40
		add("sig-bit-flipped", stdIn+"."+b64u(flip), f)
		add("sig-empty", stdIn+".", f)
		add("sig-truncated", stdIn+"."+b64u(raw[:63]), f)
		add("sig-of-other-payload", stdIn+"."+b64u(edSig(fc.good, stdH+"."+b64u(payload(claims, stdExp+1, stdIat)))), f)
		add("sig-of-payload-only", stdIn+"."+b64u(edSig(fc.good, stdPl)), f)
		g := f
		g.Abs.SigB64 = false
		add("sig-not-base64", stdIn+".%%%"+stdSig, g)
		add("sig-with-padding", stdIn+"."+stdSig+"==", g)
		std := base64.RawStdEncoding.EncodeToString(raw)
		if strings.ContainsAny(std, "+/") {
			add("sig-std-alphabet", stdIn+"."+std, g)
		}
	}

	// ---------------- segments
	{
		f := base()
		f.Abs.Parts, f.Abs.SigKey, f.SignedBy = 2, -1, -1
		add("parts-2", stdIn, f)
		f.Abs.Parts = 1
		f.Abs.HdrOk, f.EdDSA, f.Abs.ClaimsOk, f.Abs.Exp, f.NoExp, f.Abs.Fits, f.SamePayload = false, false, false, nil, true, false, false
		add("parts-1", stdH+stdPl+stdSig, f)
		add("empty-string", "", f)
		// segments in the wrong order
		// (the payload object is a readable header without "alg"; the header object is a claims set without "exp")
		g := base()
		g.EdDSA, g.Abs.Alg, g.Abs.SigKey, g.SignedBy = false, algOther, -1, -1
		g.Abs.Exp, g.NoExp, g.SamePayload = nil, true, false
		add("segments-swapped", stdPl+"."+stdH+"."+stdSig, g)
	}
	return out
}
