package harness

import (
	"fmt"

	sdkmath "cosmossdk.io/math"

	bettypes "github.com/sge-network/sge/x/bet/types"
	markettypes "github.com/sge-network/sge/x/market/types"
	obtypes "github.com/sge-network/sge/x/orderbook/types"
)

// coreSeen remembers, per history, what has already been reported / observed (reset on every `N`).
type coreSeenT struct {
	h        int
	reported map[string]bool
	resolved map[string]string // market uid -> frozen "status|winners|ts"
	betSeen  map[string]bool
}

var coreSeen coreSeenT

func coreReset(h int) {
	if coreSeen.h != h || coreSeen.reported == nil {
		coreSeen = coreSeenT{h: h, reported: map[string]bool{}, resolved: map[string]string{}, betSeen: map[string]bool{}}
	}
}

func failOnce(out *Out, h int, prop, mon, class, key, detail string) {
	k := prop + "|" + mon + "|" + class + "|" + key
	if coreSeen.reported[k] {
		return
	}
	coreSeen.reported[k] = true
	out.Fail(MonFail{Property: prop, Monitor: mon, Class: class, History: h, Detail: detail})
}

func isResolvedStatus(s markettypes.MarketStatus) bool {
	return s == markettypes.MarketStatus_MARKET_STATUS_RESULT_DECLARED || s == markettypes.MarketStatus_MARKET_STATUS_CANCELED || s == markettypes.MarketStatus_MARKET_STATUS_ABORTED
}

// coreMonitors evaluates the properties C01–C04, C07, C08, C10 as stated, on the implementation state `d`.
func coreMonitors(out *Out, h int, e *Env, ix *coreIx, d *coreDump, markets []*coreMarket, atBlockEnd bool) {
	coreReset(h)
	zero := sdkmath.ZeroInt()
	mById := map[string]markettypes.Market{}
	for _, m := range d.markets {
		mById[m.UID] = m
	}
	openBet := func(b bettypes.Bet) bool { return b.Status != bettypes.Bet_STATUS_SETTLED }

	// ---- C01: custody equations (block boundaries are the stated observation points)
	owedPool, owedBetFee, owedHouseFee := zero, zero, zero
	for _, p := range d.parts {
		if !p.IsSettled {
			owedPool = owedPool.Add(p.Liquidity).Add(p.ActualProfit)
			owedHouseFee = owedHouseFee.Add(p.Fee)
		}
	}
	for _, b := range d.bets {
		if openBet(b) {
			for _, f := range b.BetFulfillment {
				owedPool = owedPool.Add(f.BetAmount)
			}
			owedBetFee = owedBetFee.Add(b.Fee)
		}
	}
	if atBlockEnd {
		if !d.pool.Equal(owedPool) {
			failOnce(out, h, "C01", "pool_eq", c01Class(d), "", fmt.Sprintf("pool balance %s, owed %s", d.pool, owedPool))
		}
		if !d.betFee.Equal(owedBetFee) {
			failOnce(out, h, "C01", "betfee_eq", "block-end", "", fmt.Sprintf("bet fee collector %s, owed %s", d.betFee, owedBetFee))
		}
		if !d.hFee.Equal(owedHouseFee) {
			failOnce(out, h, "C01", "housefee_eq", "block-end", "", fmt.Sprintf("house fee collector %s, owed %s", d.hFee, owedHouseFee))
		}
		out.Count("mon.C01.checked")
	} else if !d.pool.Equal(owedPool) {
		out.Count("diag.C01.pool_ne_midblock")
	}

	// ---- C03 (placement): parts non-negative, recorded stake = stake taken = Σ parts, profit promised exact
	for _, b := range d.bets {
		if coreSeen.betSeen[b.UID] {
			continue
		}
		coreSeen.betSeen[b.UID] = true
		sumBet, sumProfit := zero, zero
		neg := false
		for _, f := range b.BetFulfillment {
			sumBet = sumBet.Add(f.BetAmount)
			sumProfit = sumProfit.Add(f.PayoutProfit)
			if f.BetAmount.IsNegative() || f.PayoutProfit.IsNegative() {
				neg = true
			}
		}
		out.Count(fmt.Sprintf("bet.parts.%d", minInt(len(b.BetFulfillment), 5)))
		if neg {
			failOnce(out, h, "C03", "parts_nonneg", "carry-accumulation", b.UID, fmt.Sprintf("bet %d has a negative backing part: %v", uidN(b.UID), b.BetFulfillment))
		}
		if !b.Amount.Equal(sumBet) {
			cls := "residual-profit-below-one"
			if len(b.BetFulfillment) == 0 {
				cls = "zero-part-bet"
			}
			failOnce(out, h, "C03", "recorded_eq_taken", cls, b.UID, fmt.Sprintf("bet %d recorded stake %s, sum of parts %s (odds %s)", uidN(b.UID), b.Amount, sumBet, b.OddsValue))
		}
		if sumBet.GT(b.Amount) {
			failOnce(out, h, "C03", "taken_le_requested", "wager", b.UID, fmt.Sprintf("bet %d stake taken %s exceeds requested %s", uidN(b.UID), sumBet, b.Amount))
		}
		if ov, err := sdkmath.LegacyNewDecFromStr(b.OddsValue); err == nil {
			want := ov.MulInt(b.Amount).Sub(sdkmath.LegacyNewDecFromInt(b.Amount)).TruncateInt()
			if !want.Equal(sumProfit) {
				failOnce(out, h, "C03", "profit_exact", "wager", b.UID, fmt.Sprintf("bet %d promised profit %s, expected floor(stake*(odds-1)) = %s", uidN(b.UID), sumProfit, want))
			}
		}
	}

	// ---- C02: collateral of every unsettled participation for every outcome that can still be declared
	for _, bk := range d.books {
		m, ok := mById[bk.UID]
		if !ok {
			continue
		}
		var outcomes []string
		switch {
		case !isResolvedStatus(m.Status):
			for _, o := range m.Odds {
				outcomes = append(outcomes, o.UID)
			}
		case m.Status == markettypes.MarketStatus_MARKET_STATUS_RESULT_DECLARED:
			outcomes = m.WinnerOddsUIDs
		}
		for _, p := range d.parts {
			if p.OrderBookUID != bk.UID || p.IsSettled {
				continue
			}
			for _, o := range outcomes {
				lhs := p.Liquidity.Add(p.ActualProfit)
				rhs := zero
				for _, b := range d.bets {
					if b.MarketUID != bk.UID || !openBet(b) {
						continue
					}
					for _, f := range b.BetFulfillment {
						if f.ParticipationIndex != p.Index {
							continue
						}
						if b.OddsUID == o {
							rhs = rhs.Add(f.PayoutProfit)
						} else {
							lhs = lhs.Add(f.BetAmount)
						}
					}
				}
				if lhs.LT(rhs) {
					failOnce(out, h, "C02", "collateral", "over-exposed-participation", fmt.Sprintf("%s/%d", bk.UID, p.Index),
						fmt.Sprintf("market %d participation %d outcome %d: liquidity+profit+other stakes = %s < promised winnings %s", uidN(bk.UID), p.Index, uidN(o), lhs, rhs))
				}
			}
			out.Count("mon.C02.checked")
		}
	}

	// ---- C10: bets and order book agree
	if !d.indexEq {
		failOnce(out, h, "C10", "index_equal", "exposure-indexes", "", "by-odds and by-index exposure stores differ")
	}
	for _, bk := range d.books {
		cnt := uint64(0)
		for _, p := range d.parts {
			if p.OrderBookUID == bk.UID {
				cnt++
			}
		}
		if cnt != bk.ParticipationCount {
			failOnce(out, h, "C10", "participation_count", "book", bk.UID, fmt.Sprintf("book %d counter %d, participations %d", uidN(bk.UID), bk.ParticipationCount, cnt))
		}
	}
	type pk struct {
		book string
		idx  uint64
	}
	partOf := map[pk]obtypes.OrderBookParticipation{}
	for _, p := range d.parts {
		partOf[pk{p.OrderBookUID, p.Index}] = p
	}
	sumBetBy := map[pk]sdkmath.Int{}
	type pko struct {
		book string
		idx  uint64
		odds string
	}
	sumProfitBy := map[pko]sdkmath.Int{}
	for _, b := range d.bets {
		for _, f := range b.BetFulfillment {
			k := pk{b.MarketUID, f.ParticipationIndex}
			p, ok := partOf[k]
			if !ok || p.ParticipantAddress != f.ParticipantAddress {
				failOnce(out, h, "C10", "parts_wellformed", "fulfilment", b.UID, fmt.Sprintf("bet %d part names participation %d of market %d: not found or other depositor", uidN(b.UID), f.ParticipationIndex, uidN(b.MarketUID)))
				continue
			}
			if v, ok := sumBetBy[k]; ok {
				sumBetBy[k] = v.Add(f.BetAmount)
			} else {
				sumBetBy[k] = f.BetAmount
			}
			ko := pko{b.MarketUID, f.ParticipationIndex, b.OddsUID}
			if v, ok := sumProfitBy[ko]; ok {
				sumProfitBy[ko] = v.Add(f.PayoutProfit)
			} else {
				sumProfitBy[ko] = f.PayoutProfit
			}
		}
	}
	for k, p := range partOf {
		s, ok := sumBetBy[k]
		if !ok {
			s = zero
		}
		if !p.TotalBetAmount.Equal(s) {
			failOnce(out, h, "C10", "total_bet_eq", "stale-second-visit", fmt.Sprintf("%s/%d", k.book, k.idx), fmt.Sprintf("market %d participation %d reports total stake %s, bets say %s", uidN(k.book), k.idx, p.TotalBetAmount, s))
		}
	}
	expSum := map[pko]sdkmath.Int{}
	for _, x := range append(append([]obtypes.ParticipationExposure{}, d.pexps...), d.hist...) {
		ko := pko{x.OrderBookUID, x.ParticipationIndex, x.OddsUID}
		if v, ok := expSum[ko]; ok {
			expSum[ko] = v.Add(x.Exposure)
		} else {
			expSum[ko] = x.Exposure
		}
	}
	for ko, v := range expSum {
		s, ok := sumProfitBy[ko]
		if !ok {
			s = zero
		}
		if !v.Equal(s) {
			failOnce(out, h, "C10", "exposure_eq", "stale-second-visit", fmt.Sprintf("%s/%d/%s", ko.book, ko.idx, ko.odds), fmt.Sprintf("market %d participation %d outcome %d: exposures over all rounds %s, bets say %s", uidN(ko.book), ko.idx, uidN(ko.odds), v, s))
		}
	}

	// ---- C07: resolution is final; winner is an outcome of the market
	for _, m := range d.markets {
		sig := fmt.Sprintf("%d|%v|%d", m.Status, m.WinnerOddsUIDs, m.ResolutionTS)
		if old, ok := coreSeen.resolved[m.UID]; ok {
			if old != sig {
				failOnce(out, h, "C07", "resolution_final", "market", m.UID, fmt.Sprintf("market %d changed after resolution: %s -> %s", uidN(m.UID), old, sig))
			}
		} else if isResolvedStatus(m.Status) {
			coreSeen.resolved[m.UID] = sig
		}
		if m.Status == markettypes.MarketStatus_MARKET_STATUS_RESULT_DECLARED {
			for _, w := range m.WinnerOddsUIDs {
				if !m.HasOdds(w) {
					failOnce(out, h, "C07", "winner_in_market", "market", m.UID, fmt.Sprintf("market %d winner %d is not one of its outcomes", uidN(m.UID), uidN(w)))
				}
			}
		}
		if len(m.Odds) < 2 {
			failOnce(out, h, "C07", "two_outcomes", "market", m.UID, fmt.Sprintf("market %d has %d outcomes", uidN(m.UID), len(m.Odds)))
		}
	}
	// every settled bet is decided against the final resolution
	for _, b := range d.bets {
		if b.Status != bettypes.Bet_STATUS_SETTLED {
			continue
		}
		m := mById[b.MarketUID]
		want := bettypes.Bet_RESULT_REFUNDED
		if m.Status == markettypes.MarketStatus_MARKET_STATUS_RESULT_DECLARED {
			want = bettypes.Bet_RESULT_LOST
			for _, w := range m.WinnerOddsUIDs {
				if w == b.OddsUID {
					want = bettypes.Bet_RESULT_WON
				}
			}
		}
		if b.Result != want {
			failOnce(out, h, "C07", "bets_decided_by_final", "bet", b.UID, fmt.Sprintf("bet %d result %v, market says %v", uidN(b.UID), b.Result, want))
		}
	}

	// ---- C08: index invariant (count, ids, pending xor settled)
	if uint64(len(d.bets)) != e.App.BetKeeper.GetBetStats(e.Ctx).Count {
		failOnce(out, h, "C08", "count_eq", "bet-index", "", fmt.Sprintf("bet count %d, bets %d", e.App.BetKeeper.GetBetStats(e.Ctx).Count, len(d.bets)))
	}
	pend, _ := e.App.BetKeeper.GetPendingBets(e.Ctx)
	sett, _ := e.App.BetKeeper.GetSettledBets(e.Ctx)
	pc, sc := map[string]int{}, map[string]int{}
	for _, p := range pend {
		pc[p.UID]++
	}
	for _, s := range sett {
		sc[s.UID]++
	}
	for _, b := range d.bets {
		wantP, wantS := 1, 0
		if b.Status == bettypes.Bet_STATUS_SETTLED {
			wantP, wantS = 0, 1
		}
		if pc[b.UID] != wantP || sc[b.UID] != wantS {
			failOnce(out, h, "C08", "listed_once", "bet-index", b.UID, fmt.Sprintf("bet %d status %v listed pending %d settled %d", uidN(b.UID), b.Status, pc[b.UID], sc[b.UID]))
		}
	}
	if len(pend)+len(sett) != len(d.bets) {
		failOnce(out, h, "C08", "listed_once", "bet-index-total", "", fmt.Sprintf("pending %d + settled %d != bets %d", len(pend), len(sett), len(d.bets)))
	}
}

func c01Class(d *coreDump) string {
	// localise: is there a bet whose recorded stake differs from its parts?
	for _, b := range d.bets {
		s := sdkmath.ZeroInt()
		for _, f := range b.BetFulfillment {
			s = s.Add(f.BetAmount)
		}
		if !s.Equal(b.Amount) {
			return "refund-of-recorded-stake"
		}
	}
	return "other"
}

func minInt(a, b int) int {
	if a < b {
		return a
	}
	return b
}
