package harness

import (
	"fmt"

	sdkmath "cosmossdk.io/math"

	bettypes "github.com/sge-network/sge/x/bet/types"
	housetypes "github.com/sge-network/sge/x/house/types"
	markettypes "github.com/sge-network/sge/x/market/types"
	obtypes "github.com/sge-network/sge/x/orderbook/types"
)

// coreSeen remembers, per history, what has already been reported / observed (reset on every `N`).
type coreSeenT struct {
	h             int
	reported      map[string]bool
	resolved      map[string]string // market uid -> frozen "status|winners|ts"
	betSeen       map[string]bool
	request       map[string]sdkmath.Int // bet uid -> requested stake (amount on the message minus the bet fee)
	negDone       map[string]bool        // bet uid -> classified
	negCarryAny   bool                   // some bet of the history has a part the rounding-carry finding explains
	negOther      map[string]bool        // bet uid -> has a negative / over-taken part that the rounding-carry finding does not explain
	settledHeight map[string]int64       // bet uid -> height of the end-block that settled it
	grants        map[string]*liveGrant  // granter/grantee/kind -> what the harness itself granted (C09 grant_live)
	charged       map[string]sdkmath.Int // bet uid -> what the wager message debited from the bettor
	due           map[string]*settleDue  // resolved market uid -> settlement deadline in end-blocks
	ebCount       int
}

// settleDue: C05 bound for one resolved market
type settleDue struct {
	resolvedAtEB int
	bound        int
	done         bool
	b, p         uint64 // pending bets / unpaid participations ahead in the pipeline at resolution
	nb, no       uint64 // smallest batch sizes in force since the resolution (the proved bound needs a lower bound on them)
}

// noteBatchSizes: after a parameter change, the deadlines of the markets still settling use the smallest batch sizes
// that were in force since their resolution (hypothesis batchAtLeast of c05_settles_within).
func noteBatchSizes(e *Env) {
	nb64 := uint64(e.App.BetKeeper.GetParams(e.Ctx).BatchSettlementCount)
	no64 := e.App.OrderbookKeeper.GetParams(e.Ctx).BatchSettlementCount
	if nb64 == 0 {
		nb64 = 1
	}
	if no64 == 0 {
		no64 = 1
	}
	for _, du := range coreSeen.due {
		if du.done {
			continue
		}
		if nb64 < du.nb {
			du.nb = nb64
		}
		if no64 < du.no {
			du.no = no64
		}
		du.bound = int(du.b/du.nb) + int(du.p/du.no) + 1
	}
}

// liveGrant is the harness's own record of an authz grant it created: the expiry the granter chose and what is left of the limit.
type liveGrant struct {
	expiry int64
	left   sdkmath.Int
}

var coreSeen coreSeenT

func coreReset(h int) {
	if coreSeen.h != h || coreSeen.reported == nil {
		coreSeen = coreSeenT{h: h, reported: map[string]bool{}, resolved: map[string]string{}, betSeen: map[string]bool{}, request: map[string]sdkmath.Int{}, charged: map[string]sdkmath.Int{}, due: map[string]*settleDue{}, settledHeight: map[string]int64{}, negOther: map[string]bool{}, negDone: map[string]bool{}, grants: map[string]*liveGrant{}}
	}
}

func failOnce(out *Out, h int, prop, mon, class, key, detail string) {
	k := prop + "|" + mon + "|" + class + "|" + key
	if coreSeen.reported[k] {
		return
	}
	coreSeen.reported[k] = true
	out.Fail(MonFail{Property: prop, Monitor: mon, Class: class, History: h, Detail: detail})
}

func isResolvedStatus(s markettypes.MarketStatus) bool {
	return s == markettypes.MarketStatus_MARKET_STATUS_RESULT_DECLARED || s == markettypes.MarketStatus_MARKET_STATUS_CANCELED || s == markettypes.MarketStatus_MARKET_STATUS_ABORTED
}

// coreMonitors evaluates the properties C01–C04, C07, C08, C10 as stated, on the implementation state `d`.
func coreMonitors(out *Out, h int, e *Env, ix *coreIx, d *coreDump, markets []*coreMarket, atBlockEnd bool) {
	coreReset(h)
	zero := sdkmath.ZeroInt()
	mById := map[string]markettypes.Market{}
	for _, m := range d.markets {
		mById[m.UID] = m
	}
	openBet := func(b bettypes.Bet) bool { return b.Status != bettypes.Bet_STATUS_SETTLED }
	classifyNegParts(d)

	// ---- C01: custody equations (block boundaries are the stated observation points)
	owedPool, owedBetFee, owedHouseFee := zero, zero, zero
	for _, p := range d.parts {
		if !p.IsSettled {
			owedPool = owedPool.Add(p.Liquidity).Add(p.ActualProfit)
			owedHouseFee = owedHouseFee.Add(p.Fee)
		}
	}
	for _, b := range d.bets {
		if openBet(b) {
			for _, f := range b.BetFulfillment {
				owedPool = owedPool.Add(f.BetAmount)
			}
			owedBetFee = owedBetFee.Add(b.Fee)
		}
	}
	if atBlockEnd {
		if !d.pool.Equal(owedPool) {
			failOnce(out, h, "C01", "pool_eq", c01Class(d), "", fmt.Sprintf("pool balance %s, owed %s", d.pool, owedPool))
		}
		if !d.betFee.Equal(owedBetFee) {
			failOnce(out, h, "C01", "betfee_eq", "block-end", "", fmt.Sprintf("bet fee collector %s, owed %s", d.betFee, owedBetFee))
		}
		if !d.hFee.Equal(owedHouseFee) {
			failOnce(out, h, "C01", "housefee_eq", "block-end", "", fmt.Sprintf("house fee collector %s, owed %s", d.hFee, owedHouseFee))
		}
		// "every token that enters custody for a market leaves only to that market's users": what the pool owes
		// on one market (its unpaid participations and open stakes) is never negative - a negative share means
		// that market's users were paid out of tokens held for another market
		share := map[string]sdkmath.Int{}
		negPart := map[string]bool{}
		addShare := func(m string, x sdkmath.Int) {
			if v, ok := share[m]; ok {
				share[m] = v.Add(x)
			} else {
				share[m] = x
			}
		}
		for _, p := range d.parts {
			if !p.IsSettled {
				addShare(p.OrderBookUID, p.Liquidity.Add(p.ActualProfit))
			}
		}
		for _, b := range d.bets {
			for _, f := range b.BetFulfillment {
				if f.BetAmount.IsNegative() && !coreSeen.negOther[b.UID] {
					negPart[b.MarketUID] = true
				}
				if openBet(b) {
					addShare(b.MarketUID, f.BetAmount)
				}
			}
		}
		for _, m := range d.markets {
			if v, ok := share[m.UID]; ok && v.IsNegative() {
				cls := "market-overdrawn"
				if negPart[m.UID] {
					cls = "negative-stake-on-other-outcome"
				}
				failOnce(out, h, "C01", "market_share_nonneg", cls, m.UID, fmt.Sprintf("the pool owes %s on market %d: its users have been paid from tokens held for other markets", v, uidN(m.UID)))
			}
		}
		// C04 "each participation is paid exactly once when the book is settled": a settled book has no unpaid participation
		settledBook := map[string]bool{}
		for _, bk := range d.books {
			if bk.Status == obtypes.OrderBookStatus_ORDER_BOOK_STATUS_STATUS_SETTLED {
				settledBook[bk.UID] = true
			}
		}
		// C01 "once every market is fully settled the three custody accounts are empty", market by market: nothing is
		// held in custody any more for a market whose book the chain reports as settled
		for _, m := range d.markets {
			if !settledBook[m.UID] {
				continue
			}
			heldPool, heldHouseFee, heldBetFee := zero, zero, zero
			for _, p := range d.parts {
				if p.OrderBookUID == m.UID && !p.IsSettled {
					heldPool = heldPool.Add(p.Liquidity).Add(p.ActualProfit)
					heldHouseFee = heldHouseFee.Add(p.Fee)
				}
			}
			for _, b := range d.bets {
				if b.MarketUID == m.UID && openBet(b) {
					for _, f := range b.BetFulfillment {
						heldPool = heldPool.Add(f.BetAmount)
					}
					heldBetFee = heldBetFee.Add(b.Fee)
				}
			}
			if !heldPool.IsZero() || !heldHouseFee.IsZero() || !heldBetFee.IsZero() {
				failOnce(out, h, "C01", "custody_empty_when_settled", "settled-market-still-holds-custody", m.UID,
					fmt.Sprintf("market %d is reported settled but custody still holds pool %s, house fee %s, bet fee %s for it", uidN(m.UID), heldPool, heldHouseFee, heldBetFee))
			}
		}
		for _, p := range d.parts {
			if settledBook[p.OrderBookUID] && !p.IsSettled {
				failOnce(out, h, "C04", "paid_when_book_settled", "unpaid-participation-in-settled-book", fmt.Sprintf("%s#%d", p.OrderBookUID, p.Index),
					fmt.Sprintf("book of market %d is marked settled but participation %d (liquidity %s, realised profit %s, fee %s) was never paid", uidN(p.OrderBookUID), p.Index, p.Liquidity, p.ActualProfit, p.Fee))
			}
		}
		out.Count("mon.C01.checked")
	} else if !d.pool.Equal(owedPool) {
		out.Count("diag.C01.pool_ne_midblock")
	}

	// ---- C03 (placement): parts non-negative, recorded stake = stake taken = Σ parts, profit promised exact
	for _, b := range d.bets {
		if coreSeen.betSeen[b.UID] {
			continue
		}
		coreSeen.betSeen[b.UID] = true
		sumBet, sumProfit := zero, zero
		neg := false
		for _, f := range b.BetFulfillment {
			sumBet = sumBet.Add(f.BetAmount)
			sumProfit = sumProfit.Add(f.PayoutProfit)
			if f.BetAmount.IsNegative() || f.PayoutProfit.IsNegative() {
				neg = true
			}
		}
		out.Count(fmt.Sprintf("bet.parts.%d", minInt(len(b.BetFulfillment), 5)))
		explained := !coreSeen.negOther[b.UID]
		if neg {
			cls := "carry-accumulation"
			if !explained {
				cls = "negative-part-not-from-rounding-carry"
			}
			failOnce(out, h, "C03", "parts_nonneg", cls, b.UID, fmt.Sprintf("bet %d has a negative backing part: %v", uidN(b.UID), b.BetFulfillment))
		}
		if !b.Amount.Equal(sumBet) {
			cls := "residual-profit-below-one"
			if len(b.BetFulfillment) == 0 {
				cls = "zero-part-bet"
			}
			failOnce(out, h, "C03", "recorded_eq_taken", cls, b.UID, fmt.Sprintf("bet %d recorded stake %s, sum of parts %s (odds %s)", uidN(b.UID), b.Amount, sumBet, b.OddsValue))
		}
		if ch, ok := coreSeen.charged[b.UID]; ok && !ch.Equal(b.Fee.Add(sumBet)) {
			failOnce(out, h, "C03", "charged_eq_fee_plus_stake", "wager", b.UID, fmt.Sprintf("bet %d: bettor debited %s at placement, fee %s + stake taken %s", uidN(b.UID), ch, b.Fee, sumBet))
		}
		req, okReq := coreSeen.request[b.UID]
		if !okReq {
			continue
		}
		if sumBet.GT(req) {
			clsT := "carry-accumulation"
			if !explained {
				clsT = "not-from-rounding-carry"
			}
			failOnce(out, h, "C03", "taken_le_requested", clsT, b.UID, fmt.Sprintf("bet %d stake taken %s exceeds requested stake %s", uidN(b.UID), sumBet, req))
		}
		if ov, err := sdkmath.LegacyNewDecFromStr(b.OddsValue); err == nil {
			want := ov.MulInt(req).Sub(sdkmath.LegacyNewDecFromInt(req)).TruncateInt()
			if !want.Equal(sumProfit) {
				failOnce(out, h, "C03", "profit_exact", "wager", b.UID, fmt.Sprintf("bet %d promised profit %s, expected floor(stake*(odds-1)) = %s", uidN(b.UID), sumProfit, want))
			}
		}
	}

	// ---- C02: collateral of every unsettled participation for every outcome that can still be declared
	for _, bk := range d.books {
		m, ok := mById[bk.UID]
		if !ok {
			continue
		}
		var outcomes []string
		switch {
		case !isResolvedStatus(m.Status):
			for _, o := range m.Odds {
				outcomes = append(outcomes, o.UID)
			}
		case m.Status == markettypes.MarketStatus_MARKET_STATUS_RESULT_DECLARED:
			outcomes = m.WinnerOddsUIDs
		}
		for _, p := range d.parts {
			if p.OrderBookUID != bk.UID || p.IsSettled {
				continue
			}
			for _, o := range outcomes {
				lhs := p.Liquidity.Add(p.ActualProfit)
				rhs := zero
				negStake := false
				for _, b := range d.bets {
					if b.MarketUID != bk.UID || !openBet(b) {
						continue
					}
					for _, f := range b.BetFulfillment {
						if f.ParticipationIndex != p.Index {
							continue
						}
						if b.OddsUID == o {
							rhs = rhs.Add(f.PayoutProfit)
						} else {
							lhs = lhs.Add(f.BetAmount)
							if f.BetAmount.IsNegative() && !coreSeen.negOther[b.UID] {
								negStake = true
							}
						}
					}
				}
				if lhs.LT(rhs) {
					cls := "over-exposed-participation"
					if negStake {
						cls = "negative-stake-on-other-outcome"
					}
					failOnce(out, h, "C02", "collateral", cls, fmt.Sprintf("%s/%d", bk.UID, p.Index),
						fmt.Sprintf("market %d participation %d outcome %d: liquidity+profit+other stakes = %s < promised winnings %s", uidN(bk.UID), p.Index, uidN(o), lhs, rhs))
				}
			}
			out.Count("mon.C02.checked")
		}
	}

	// ---- C10: bets and order book agree
	if !d.indexEq {
		failOnce(out, h, "C10", "index_equal", "exposure-indexes", "", "by-odds and by-index exposure stores differ")
	}
	for _, bk := range d.books {
		cnt := uint64(0)
		for _, p := range d.parts {
			if p.OrderBookUID == bk.UID {
				cnt++
			}
		}
		if cnt != bk.ParticipationCount {
			failOnce(out, h, "C10", "participation_count", "book", bk.UID, fmt.Sprintf("book %d counter %d, participations %d", uidN(bk.UID), bk.ParticipationCount, cnt))
		}
	}
	type pk struct {
		book string
		idx  uint64
	}
	partOf := map[pk]obtypes.OrderBookParticipation{}
	for _, p := range d.parts {
		partOf[pk{p.OrderBookUID, p.Index}] = p
	}
	sumBetBy := map[pk]sdkmath.Int{}
	type pko struct {
		book string
		idx  uint64
		odds string
	}
	sumProfitBy := map[pko]sdkmath.Int{}
	for _, b := range d.bets {
		for _, f := range b.BetFulfillment {
			k := pk{b.MarketUID, f.ParticipationIndex}
			p, ok := partOf[k]
			if !ok || p.ParticipantAddress != f.ParticipantAddress {
				failOnce(out, h, "C10", "parts_wellformed", "fulfilment", b.UID, fmt.Sprintf("bet %d part names participation %d of market %d: not found or other depositor", uidN(b.UID), f.ParticipationIndex, uidN(b.MarketUID)))
				continue
			}
			if v, ok := sumBetBy[k]; ok {
				sumBetBy[k] = v.Add(f.BetAmount)
			} else {
				sumBetBy[k] = f.BetAmount
			}
			ko := pko{b.MarketUID, f.ParticipationIndex, b.OddsUID}
			if v, ok := sumProfitBy[ko]; ok {
				sumProfitBy[ko] = v.Add(f.PayoutProfit)
			} else {
				sumProfitBy[ko] = f.PayoutProfit
			}
		}
	}
	for k, p := range partOf {
		s, ok := sumBetBy[k]
		if !ok {
			s = zero
		}
		if !p.TotalBetAmount.Equal(s) {
			failOnce(out, h, "C10", "total_bet_eq", "stale-second-visit", fmt.Sprintf("%s/%d", k.book, k.idx), fmt.Sprintf("market %d participation %d reports total stake %s, bets say %s", uidN(k.book), k.idx, p.TotalBetAmount, s))
		}
	}
	expSum := map[pko]sdkmath.Int{}
	for _, x := range append(append([]obtypes.ParticipationExposure{}, d.pexps...), d.hist...) {
		ko := pko{x.OrderBookUID, x.ParticipationIndex, x.OddsUID}
		if v, ok := expSum[ko]; ok {
			expSum[ko] = v.Add(x.Exposure)
		} else {
			expSum[ko] = x.Exposure
		}
	}
	for ko, v := range expSum {
		s, ok := sumProfitBy[ko]
		if !ok {
			s = zero
		}
		if !v.Equal(s) {
			failOnce(out, h, "C10", "exposure_eq", "stale-second-visit", fmt.Sprintf("%s/%d/%s", ko.book, ko.idx, ko.odds), fmt.Sprintf("market %d participation %d outcome %d: exposures over all rounds %s, bets say %s", uidN(ko.book), ko.idx, uidN(ko.odds), v, s))
		}
	}

	// ---- C07: resolution is final; winner is an outcome of the market
	for _, m := range d.markets {
		sig := fmt.Sprintf("%d|%v|%d", m.Status, m.WinnerOddsUIDs, m.ResolutionTS)
		if old, ok := coreSeen.resolved[m.UID]; ok {
			if old != sig {
				failOnce(out, h, "C07", "resolution_final", "market", m.UID, fmt.Sprintf("market %d changed after resolution: %s -> %s", uidN(m.UID), old, sig))
			}
		} else if isResolvedStatus(m.Status) {
			coreSeen.resolved[m.UID] = sig
		}
		if m.Status == markettypes.MarketStatus_MARKET_STATUS_RESULT_DECLARED {
			for _, w := range m.WinnerOddsUIDs {
				if !m.HasOdds(w) {
					failOnce(out, h, "C07", "winner_in_market", "market", m.UID, fmt.Sprintf("market %d winner %d is not one of its outcomes", uidN(m.UID), uidN(w)))
				}
			}
		}
		if len(m.Odds) < 2 {
			failOnce(out, h, "C07", "two_outcomes", "market", m.UID, fmt.Sprintf("market %d has %d outcomes", uidN(m.UID), len(m.Odds)))
		}
	}
	// every settled bet is decided against the final resolution
	for _, b := range d.bets {
		if b.Status != bettypes.Bet_STATUS_SETTLED {
			continue
		}
		m := mById[b.MarketUID]
		want := bettypes.Bet_RESULT_REFUNDED
		if m.Status == markettypes.MarketStatus_MARKET_STATUS_RESULT_DECLARED {
			want = bettypes.Bet_RESULT_LOST
			for _, w := range m.WinnerOddsUIDs {
				if w == b.OddsUID {
					want = bettypes.Bet_RESULT_WON
				}
			}
		}
		if b.Result != want {
			failOnce(out, h, "C07", "bets_decided_by_final", "bet", b.UID, fmt.Sprintf("bet %d result %v, market says %v", uidN(b.UID), b.Result, want))
		}
	}

	// ---- C07: a market is active or inactive until it is resolved to declared / cancelled / aborted: no other status exists
	for _, m := range d.markets {
		switch m.Status {
		case markettypes.MarketStatus_MARKET_STATUS_ACTIVE, markettypes.MarketStatus_MARKET_STATUS_INACTIVE,
			markettypes.MarketStatus_MARKET_STATUS_RESULT_DECLARED, markettypes.MarketStatus_MARKET_STATUS_CANCELED, markettypes.MarketStatus_MARKET_STATUS_ABORTED:
		default:
			failOnce(out, h, "C07", "status_defined", "status-outside-the-life-cycle", m.UID, fmt.Sprintf("market %d has status %d (resolution ts %d, winners %v): neither open nor one of the three final statuses", uidN(m.UID), int32(m.Status), m.ResolutionTS, m.WinnerOddsUIDs))
		}
	}

	// ---- C07: a market reaches a resolved status only through a resolution message that succeeded
	for _, m := range d.markets {
		if !isResolvedStatus(m.Status) {
			continue
		}
		for _, hm := range markets {
			if hm.uid == m.UID && !hm.resolved {
				failOnce(out, h, "C07", "resolved_only_by_resolution", "status-moved-without-resolve", m.UID, fmt.Sprintf("market %d has status %v (resolution ts %d, winners %v) although no resolution message for it succeeded", uidN(m.UID), m.Status, m.ResolutionTS, m.WinnerOddsUIDs))
			}
		}
	}

	// ---- C08: index invariant (count, ids, pending xor settled)
	if uint64(len(d.bets)) != e.App.BetKeeper.GetBetStats(e.Ctx).Count {
		failOnce(out, h, "C08", "count_eq", "bet-index", "", fmt.Sprintf("bet count %d, bets %d", e.App.BetKeeper.GetBetStats(e.Ctx).Count, len(d.bets)))
	}
	pend, _ := e.App.BetKeeper.GetPendingBets(e.Ctx)
	sett, _ := e.App.BetKeeper.GetSettledBets(e.Ctx)
	pc, sc := map[string]int{}, map[string]int{}
	for _, p := range pend {
		pc[p.UID]++
	}
	for _, s := range sett {
		sc[s.UID]++
	}
	for _, b := range d.bets {
		wantP, wantS := 1, 0
		if b.Status == bettypes.Bet_STATUS_SETTLED {
			wantP, wantS = 0, 1
		}
		if pc[b.UID] != wantP || sc[b.UID] != wantS {
			failOnce(out, h, "C08", "listed_once", "bet-index", b.UID, fmt.Sprintf("bet %d status %v listed pending %d settled %d", uidN(b.UID), b.Status, pc[b.UID], sc[b.UID]))
		}
	}
	// "listed exactly once as settled at its settlement height": the settled index files the bet under the height
	// recorded on the bet, and that height is the block in which it was settled (checked when it becomes settled)
	for _, b := range d.bets {
		if b.Status != bettypes.Bet_STATUS_SETTLED {
			continue
		}
		hs := d.settledAt[b.UID]
		if len(hs) != 1 || hs[0] != b.SettlementHeight {
			failOnce(out, h, "C08", "settled_at_height", "settled-index-height", b.UID, fmt.Sprintf("bet %d records settlement height %d, settled index lists it under %v", uidN(b.UID), b.SettlementHeight, hs))
		}
		if at, ok := coreSeen.settledHeight[b.UID]; ok && at != b.SettlementHeight {
			failOnce(out, h, "C08", "settled_at_height", "recorded-height", b.UID, fmt.Sprintf("bet %d was settled by the end-block of height %d but records settlement height %d", uidN(b.UID), at, b.SettlementHeight))
		}
	}
	if len(pend)+len(sett) != len(d.bets) {
		failOnce(out, h, "C08", "listed_once", "bet-index-total", "", fmt.Sprintf("pending %d + settled %d != bets %d", len(pend), len(sett), len(d.bets)))
	}
}

func c01Class(d *coreDump) string {
	// localise: is there a bet whose recorded stake differs from its parts?
	for _, b := range d.bets {
		s := sdkmath.ZeroInt()
		for _, f := range b.BetFulfillment {
			s = s.Add(f.BetAmount)
		}
		if !s.Equal(b.Amount) {
			return "refund-of-recorded-stake"
		}
	}
	return "other"
}

func minInt(a, b int) int {
	if a < b {
		return a
	}
	return b
}

// endBlockMonitors compares the balance changes of one end-block with what the settled bets and paid
// participations entitle their owners to (C03 settlement amounts, C04 participation payout and fee routing,
// "exactly once": anything already settled must not be paid again).
func endBlockMonitors(out *Out, h int, e *Env, ix *coreIx, pre, post *coreDump, preBal, postBal map[string]sdkmath.Int) {
	coreReset(h)
	zero := sdkmath.ZeroInt()
	expect := map[string]sdkmath.Int{}
	credit := func(addr string, v sdkmath.Int) {
		if cur, ok := expect[addr]; ok {
			expect[addr] = cur.Add(v)
		} else {
			expect[addr] = v
		}
	}
	mById := map[string]markettypes.Market{}
	for _, m := range post.markets {
		mById[m.UID] = m
	}
	preBet := map[string]bettypes.Bet{}
	for _, b := range pre.bets {
		preBet[b.UID] = b
	}
	nBets, nParts := 0, 0
	for _, b := range post.bets {
		pb := preBet[b.UID]
		if pb.Status == bettypes.Bet_STATUS_SETTLED {
			if b.Status != bettypes.Bet_STATUS_SETTLED || b.Result != pb.Result {
				failOnce(out, h, "C03", "settle_once", "status-regressed", b.UID, fmt.Sprintf("bet %d was settled (%v) and is now %v/%v", uidN(b.UID), pb.Result, b.Status, b.Result))
			}
			continue
		}
		if b.Status != bettypes.Bet_STATUS_SETTLED {
			continue
		}
		nBets++
		coreSeen.settledHeight[b.UID] = e.Ctx.BlockHeight()
		if b.SettlementHeight != e.Ctx.BlockHeight() {
			failOnce(out, h, "C08", "settled_at_height", "recorded-height", b.UID, fmt.Sprintf("bet %d was settled by the end-block of height %d but records settlement height %d", uidN(b.UID), e.Ctx.BlockHeight(), b.SettlementHeight))
		}
		m := mById[b.MarketUID]
		sumBet, sumProfit := zero, zero
		for _, f := range b.BetFulfillment {
			sumBet = sumBet.Add(f.BetAmount)
			sumProfit = sumProfit.Add(f.PayoutProfit)
		}
		switch m.Status {
		case markettypes.MarketStatus_MARKET_STATUS_RESULT_DECLARED:
			won := false
			for _, w := range m.WinnerOddsUIDs {
				if w == b.OddsUID {
					won = true
				}
			}
			if won {
				credit(b.Creator, sumBet.Add(sumProfit))
			}
			credit(m.Creator, b.Fee)
		default:
			credit(b.Creator, sumBet.Add(b.Fee))
		}
	}
	prePart := map[string]obtypes.OrderBookParticipation{}
	for _, p := range pre.parts {
		prePart[fmt.Sprintf("%s/%d", p.OrderBookUID, p.Index)] = p
	}
	for _, p := range post.parts {
		pp := prePart[fmt.Sprintf("%s/%d", p.OrderBookUID, p.Index)]
		if pp.IsSettled {
			if !p.IsSettled {
				failOnce(out, h, "C04", "participation_settle_once", "status-regressed", fmt.Sprintf("%s/%d", p.OrderBookUID, p.Index), "participation was settled and is not any more")
			}
			continue
		}
		if !p.IsSettled {
			continue
		}
		nParts++
		m := mById[p.OrderBookUID]
		due := pp.Liquidity
		stake := false // "received any stake": the stakes of the parts it backed do not add up to zero
		stakeSum := sdkmath.ZeroInt()
		if m.Status == markettypes.MarketStatus_MARKET_STATUS_RESULT_DECLARED {
			for _, b := range post.bets {
				if b.MarketUID != p.OrderBookUID {
					continue
				}
				won := false
				for _, w := range m.WinnerOddsUIDs {
					if w == b.OddsUID {
						won = true
					}
				}
				for _, f := range b.BetFulfillment {
					if f.ParticipationIndex != p.Index {
						continue
					}
					stakeSum = stakeSum.Add(f.BetAmount)
					if won {
						due = due.Sub(f.PayoutProfit)
					} else {
						due = due.Add(f.BetAmount)
					}
				}
			}
			// all bets of the market must be settled before its participations are paid
			for _, b := range post.bets {
				if b.MarketUID == p.OrderBookUID && b.Status != bettypes.Bet_STATUS_SETTLED {
					failOnce(out, h, "C04", "paid_after_bets", "ordering", fmt.Sprintf("%s/%d", p.OrderBookUID, p.Index), fmt.Sprintf("participation %d of market %d paid while bet %d is unsettled", p.Index, uidN(p.OrderBookUID), uidN(b.UID)))
				}
			}
			stake = !stakeSum.IsZero()
		} else {
			stake = false
		}
		credit(p.ParticipantAddress, due)
		feeToDepositor := m.Status != markettypes.MarketStatus_MARKET_STATUS_RESULT_DECLARED || !stake
		if feeToDepositor {
			credit(p.ParticipantAddress, p.Fee)
		} else {
			credit(m.Creator, p.Fee)
		}
		if due.IsNegative() {
			failOnce(out, h, "C02", "returned_nonneg", "negative-return", fmt.Sprintf("%s/%d", p.OrderBookUID, p.Index), fmt.Sprintf("participation %d of market %d is owed %s", p.Index, uidN(p.OrderBookUID), due))
		}
	}
	out.Count(fmt.Sprintf("eb.settled.bets.%d", minInt(nBets, 4)))
	out.Count(fmt.Sprintf("eb.settled.parts.%d", minInt(nParts, 4)))
	for _, a := range e.Accts {
		k := a.String()
		want, ok := expect[k]
		if !ok {
			want = zero
		}
		got := postBal[k].Sub(preBal[k])
		if !got.Equal(want) {
			prop, mon := "C03", "settlement_amounts"
			if nParts > 0 {
				prop, mon = "C04", "payout_amounts"
			}
			failOnce(out, h, prop, mon, "endblock-payout-mismatch", k, fmt.Sprintf("account %d received %s in this end-block, entitled to %s (%d bets, %d participations settled)", ix.A(k), got, want, nBets, nParts))
			// C08: a bet that was paid out has been settled and must be listed as settled, not as pending any more
			if got.GT(want) {
				for _, b := range post.bets {
					if b.Creator == k && b.Status != bettypes.Bet_STATUS_SETTLED && isResolvedStatus(mById[b.MarketUID].Status) {
						failOnce(out, h, "C08", "settled_listed_settled", "paid-while-listed-pending", b.UID, fmt.Sprintf("bettor %d was paid %s beyond the settled records in this end-block while bet %d of resolved market %d is still recorded and listed as pending", ix.A(k), got.Sub(want), uidN(b.UID), uidN(b.MarketUID)))
						break
					}
				}
			}
		}
	}
}

func userBalances(e *Env) map[string]sdkmath.Int {
	m := map[string]sdkmath.Int{}
	for _, a := range e.Accts {
		m[a.String()] = e.Bal(a)
	}
	return m
}

// grantLimit returns the live (unexpired) house grant limit granter→grantee of the given kind (0 deposit, 1 withdraw).
func grantLimit(e *Env, granter, grantee int, kind int) (sdkmath.Int, bool) {
	url := "/sgenetwork.sge.house.MsgDeposit"
	if kind == 1 {
		url = "/sgenetwork.sge.house.MsgWithdraw"
	}
	a, _ := e.App.AuthzKeeper.GetAuthorization(e.Ctx, e.Accts[grantee], e.Accts[granter], url)
	if a == nil {
		return sdkmath.ZeroInt(), false
	}
	switch v := a.(type) {
	case *housetypes.DepositAuthorization:
		return v.SpendLimit, true
	case *housetypes.WithdrawAuthorization:
		return v.WithdrawLimit, true
	}
	return sdkmath.ZeroInt(), false
}

// The harness's own ledger of the authz grants it created (C09 "a delegated deposit or withdrawal requires an existing
// grant"): independent of what the authz store says, so a grant that outlives the expiry its granter chose, or
// covers more than its limit, is seen.
func grantKey(granter, grantee, kind int) string {
	return fmt.Sprintf("%d/%d/%d", granter, grantee, kind)
}

func noteGrant(h, granter, grantee, kind int, limit, expiry int64) {
	coreReset(h)
	coreSeen.grants[grantKey(granter, grantee, kind)] = &liveGrant{expiry: expiry, left: sdkmath.NewInt(limit)}
}

func noteRevoke(h, granter, grantee, kind int) {
	coreReset(h)
	delete(coreSeen.grants, grantKey(granter, grantee, kind))
}

// grantLiveCheck runs after a SUCCESSFUL delegated deposit/withdrawal of `amount` by grantee on behalf of granter.
func grantLiveCheck(out *Out, h int, e *Env, granter, grantee, kind int, amount sdkmath.Int, key string) {
	g := coreSeen.grants[grantKey(granter, grantee, kind)]
	now := e.Ctx.BlockTime().Unix()
	what := []string{"deposit", "withdrawal"}[kind]
	switch {
	case g == nil:
		failOnce(out, h, "C09", "grant_live", "never-granted-or-revoked", key, fmt.Sprintf("delegated %s of %s by %d for %d: no grant was given (or it was revoked / used up)", what, amount, grantee, granter))
	case g.expiry >= 0 && now > g.expiry:
		failOnce(out, h, "C09", "grant_live", "expired-grant-used", key, fmt.Sprintf("delegated %s of %s by %d for %d at block time %d: the grant expired at %d", what, amount, grantee, granter, now, g.expiry))
	case amount.GT(g.left):
		failOnce(out, h, "C09", "grant_live", "limit-exceeded", key, fmt.Sprintf("delegated %s of %s by %d for %d: only %s was left of the grant", what, amount, grantee, granter, g.left))
	}
	if g != nil {
		g.left = g.left.Sub(amount)
		if !g.left.IsPositive() {
			delete(coreSeen.grants, grantKey(granter, grantee, kind))
		}
	}
	out.Count("mon.C09.grant_live")
}

// carryExplains: are the stakes of the bet's backing parts exactly what the code as given computes from the promised
// profits (known finding: CalculateBetAmountInt doubles the rounding carry)? Every part but the last is
// round(profit/(odds-1) + carry) with carry' = carry + (profit/(odds-1) + carry - stake); the last part of a completely
// matched bet takes the rest of the requested stake. Profits must all be non-negative. A negative part that does not
// fit this recomputation has another cause and is NOT the known finding.
func carryExplains(b bettypes.Bet, requested sdkmath.Int, haveReq bool) bool {
	ov, err := sdkmath.LegacyNewDecFromStr(b.OddsValue)
	if err != nil || !ov.GT(sdkmath.LegacyOneDec()) {
		return false
	}
	den := ov.Sub(sdkmath.LegacyOneDec())
	carry := sdkmath.LegacyZeroDec()
	taken := sdkmath.ZeroInt()
	n := len(b.BetFulfillment)
	for i, f := range b.BetFulfillment {
		if f.PayoutProfit.IsNegative() {
			return false
		}
		expct := sdkmath.LegacyNewDecFromInt(f.PayoutProfit).Quo(den).Add(carry)
		st := expct.RoundInt()
		if f.BetAmount.Equal(st) {
			carry = carry.Add(expct.Sub(sdkmath.LegacyNewDecFromInt(st)))
		} else if i == n-1 && haveReq && f.BetAmount.Equal(requested.Sub(taken)) {
			// the closing part of a completely matched bet: what is left of the requested stake
		} else {
			return false
		}
		taken = taken.Add(f.BetAmount)
	}
	return true
}

// classifyNegParts decides once per bet whether a negative (or over-taken) part is the known rounding-carry finding.
func classifyNegParts(d *coreDump) {
	for _, b := range d.bets {
		if coreSeen.negDone[b.UID] {
			continue
		}
		coreSeen.negDone[b.UID] = true
		neg := false
		sum := sdkmath.ZeroInt()
		for _, f := range b.BetFulfillment {
			if f.BetAmount.IsNegative() || f.PayoutProfit.IsNegative() {
				neg = true
			}
			sum = sum.Add(f.BetAmount)
		}
		req, ok := coreSeen.request[b.UID]
		if !neg && !(ok && sum.GT(req)) {
			continue
		}
		if carryExplains(b, req, ok) {
			coreSeen.negCarryAny = true
		} else {
			coreSeen.negOther[b.UID] = true
		}
	}
}

// negClass names the cause of a negative backing part of bet b: the known rounding-carry finding, or something else.
func negCause(uid string) string {
	if coreSeen.negOther[uid] {
		return "unexplained"
	}
	return "carry"
}

type housePre struct {
	bal      map[string]sdkmath.Int
	pool     sdkmath.Int
	hfee     sdkmath.Int
	limit    sdkmath.Int
	hasGrant bool
	part     obtypes.OrderBookParticipation
	hasPart  bool
	worst    sdkmath.Int // worst-case loss of the current round recomputed from the exposures: max(0, max_o (E_o + B_o − Σ B))
}

func captureHouse(e *Env, granter, grantee, kind int, market string, idx uint64) housePre {
	p := housePre{bal: userBalances(e)}
	p.pool = e.ModBal(obtypes.OrderBookLiquidityFunder{}.GetModuleAcc())
	p.hfee = e.ModBal(housetypes.HouseFeeCollectorFunder{}.GetModuleAcc())
	if granter >= 0 && granter < NAcct && grantee >= 0 && grantee < NAcct {
		p.limit, p.hasGrant = grantLimit(e, granter, grantee, kind)
	}
	p.part, p.hasPart = e.App.OrderbookKeeper.GetOrderBookParticipation(e.Ctx, market, idx)
	p.worst = sdkmath.ZeroInt()
	if exps, err := e.App.OrderbookKeeper.GetExposureByOrderBookAndParticipationIndex(e.Ctx, market, idx); err == nil {
		total := sdkmath.ZeroInt()
		for _, x := range exps {
			total = total.Add(x.BetAmount)
		}
		for _, x := range exps {
			if l := x.Exposure.Add(x.BetAmount).Sub(total); l.GT(p.worst) {
				p.worst = l
			}
		}
	}
	return p
}

// withdrawMonitor: C09 for a successful MsgWithdraw signed by `creator` with payload depositor `pd` (0 = none).
func withdrawMonitor(out *Out, h int, e *Env, ix *coreIx, pre housePre, creator, pd int, market string, idx uint64) {
	coreReset(h)
	post := userBalances(e)
	poolAfter := e.ModBal(obtypes.OrderBookLiquidityFunder{}.GetModuleAcc())
	w := pre.pool.Sub(poolAfter)
	key := fmt.Sprintf("%s/%d", market, idx)
	if !pre.hasPart {
		failOnce(out, h, "C09", "withdraw_existing", "withdraw", key, "withdrawal succeeded on a participation that does not exist")
		return
	}
	depositor := ix.A(pre.part.ParticipantAddress)
	for i, a := range e.Accts {
		d := post[a.String()].Sub(pre.bal[a.String()])
		if i == depositor {
			if !d.Equal(w) {
				failOnce(out, h, "C09", "withdraw_to_depositor", "withdraw", key, fmt.Sprintf("pool released %s, depositor %d received %s", w, depositor, d))
			}
		} else if !d.IsZero() {
			failOnce(out, h, "C09", "withdraw_to_depositor", "withdraw-other-account", key, fmt.Sprintf("account %d changed by %s on a withdrawal of depositor %d", i, d, depositor))
		}
	}
	if !w.IsPositive() {
		failOnce(out, h, "C09", "withdraw_positive", "withdraw", key, fmt.Sprintf("withdrawal released %s", w))
	}
	maxLoss := pre.part.CurrentRoundMaxLoss
	if maxLoss.IsNil() || maxLoss.IsNegative() {
		maxLoss = sdkmath.ZeroInt()
	}
	if w.GT(pre.part.CurrentRoundLiquidity.Sub(maxLoss)) {
		failOnce(out, h, "C09", "withdraw_bound", "withdraw", key, fmt.Sprintf("withdrew %s with current-round liquidity %s and worst-case loss %s", w, pre.part.CurrentRoundLiquidity, maxLoss))
	}
	if w.GT(pre.part.CurrentRoundLiquidity.Sub(pre.worst)) {
		failOnce(out, h, "C09", "withdraw_bound", "worst-case-loss-understated", key, fmt.Sprintf("withdrew %s with current-round liquidity %s while the worst-case loss of the round, recomputed from the exposures, is %s", w, pre.part.CurrentRoundLiquidity, pre.worst))
	}
	if pre.part.IsSettled {
		failOnce(out, h, "C09", "withdraw_unsettled_only", "withdraw", key, "withdrawal from a settled participation")
	}
	// authorisation
	if pd == 0 {
		if creator != depositor {
			failOnce(out, h, "C09", "withdraw_auth", "signer-not-depositor", key, fmt.Sprintf("signer %d withdrew liquidity of depositor %d without delegation", creator, depositor))
		}
	} else {
		if pd != depositor {
			failOnce(out, h, "C09", "withdraw_auth", "payload-depositor-mismatch", key, fmt.Sprintf("payload names depositor %d, participation belongs to %d", pd, depositor))
		}
		if !pre.hasGrant {
			failOnce(out, h, "C09", "withdraw_auth", "no-grant", key, fmt.Sprintf("signer %d withdrew on behalf of %d without a live grant", creator, pd))
		} else {
			if w.GT(pre.limit) {
				failOnce(out, h, "C09", "grant_bound", "withdraw", key, fmt.Sprintf("withdrew %s with grant limit %s", w, pre.limit))
			}
			after, has := grantLimit(e, pd, creator, 1)
			if !has {
				after = sdkmath.ZeroInt()
			}
			if !pre.limit.Sub(w).Equal(after) {
				failOnce(out, h, "C09", "grant_consumed_exactly", "withdraw", key, fmt.Sprintf("grant %s -> %s for a withdrawal of %s", pre.limit, after, w))
			}
		}
		grantLiveCheck(out, h, e, pd, creator, 1, w, key)
	}
	// C04 "each participation is paid exactly once": a participation that was already paid out gets nothing more
	if pre.hasPart && pre.part.IsSettled {
		failOnce(out, h, "C04", "paid_once", "withdrawal-after-payout", key, fmt.Sprintf("participation %d of market %d was already paid out (returned %s) and now withdrew liquidity again", idx, uidN(market), pre.part.ReturnedAmount))
	}
	// count
	dep, found := e.App.HouseKeeper.GetDeposit(e.Ctx, pre.part.ParticipantAddress, market, idx)
	if found && dep.WithdrawalCount > e.App.HouseKeeper.GetMaxWithdrawalCount(e.Ctx) {
		failOnce(out, h, "C09", "withdraw_count", "withdraw", key, fmt.Sprintf("withdrawal count %d exceeds the maximum", dep.WithdrawalCount))
	}
	out.Count("mon.C09.withdraw")
}

// depositMonitor: C09 for a successful MsgDeposit signed by `creator` with payload depositor `pd`.
func depositMonitor(out *Out, h int, e *Env, ix *coreIx, pre housePre, creator, pd int, amount sdkmath.Int, market string) {
	coreReset(h)
	post := userBalances(e)
	who := creator
	if pd != 0 && pd != creator {
		who = pd
	}
	key := fmt.Sprintf("%s/%d", market, creator)
	in := e.ModBal(obtypes.OrderBookLiquidityFunder{}.GetModuleAcc()).Sub(pre.pool).Add(e.ModBal(housetypes.HouseFeeCollectorFunder{}.GetModuleAcc()).Sub(pre.hfee))
	if !in.Equal(amount) {
		failOnce(out, h, "C09", "deposit_custody", "deposit", key, fmt.Sprintf("deposit of %s put %s into custody", amount, in))
	}
	for i, a := range e.Accts {
		d := post[a.String()].Sub(pre.bal[a.String()])
		if i == who {
			if !d.Neg().Equal(amount) {
				failOnce(out, h, "C09", "deposit_debits_depositor", "deposit", key, fmt.Sprintf("depositor %d changed by %s for a deposit of %s", who, d, amount))
			}
		} else if !d.IsZero() {
			failOnce(out, h, "C09", "deposit_debits_depositor", "deposit-other-account", key, fmt.Sprintf("account %d changed by %s on a deposit of %d", i, d, who))
		}
	}
	if who != creator {
		if !pre.hasGrant {
			failOnce(out, h, "C09", "deposit_auth", "no-grant", key, fmt.Sprintf("signer %d deposited on behalf of %d without a live grant", creator, who))
		} else {
			if amount.GT(pre.limit) {
				failOnce(out, h, "C09", "grant_bound", "deposit", key, fmt.Sprintf("deposited %s with grant limit %s", amount, pre.limit))
			}
			after, has := grantLimit(e, who, creator, 0)
			if !has {
				after = sdkmath.ZeroInt()
			}
			if !pre.limit.Sub(amount).Equal(after) {
				failOnce(out, h, "C09", "grant_consumed_exactly", "deposit", key, fmt.Sprintf("grant %s -> %s for a deposit of %s", pre.limit, after, amount))
			}
		}
		grantLiveCheck(out, h, e, who, creator, 0, amount, key)
		out.Count("mon.C09.deposit.delegated")
	}
	// the new participation belongs to the depositor
	book, _ := e.App.OrderbookKeeper.GetOrderBook(e.Ctx, market)
	p, found := e.App.OrderbookKeeper.GetOrderBookParticipation(e.Ctx, market, book.ParticipationCount)
	if !found || ix.A(p.ParticipantAddress) != who {
		failOnce(out, h, "C09", "deposit_owner", "deposit", key, fmt.Sprintf("participation created for %s, depositor is %d", p.ParticipantAddress, who))
	}
	out.Count("mon.C09.deposit")
}

// noteResolved records, when a market is resolved, the number of end-blocks within which it must be completely
// settled: ceil(B/N_bet) + ceil(P/N_ob) where B / P are the pending bets / unpaid participations of all markets
// that are queued for settlement at that moment (FIFO: later resolutions cannot delay it).
func noteResolved(e *Env, d *coreDump, uid string) {
	if _, ok := coreSeen.due[uid]; ok {
		return
	}
	queued := map[string]bool{uid: true}
	for _, m := range e.App.MarketKeeper.GetMarketStats(e.Ctx).ResolvedUnsettled {
		queued[m] = true
	}
	for _, m := range e.App.OrderbookKeeper.GetOrderBookStats(e.Ctx).ResolvedUnsettled {
		queued[m] = true
	}
	B, P := 0, 0
	for _, b := range d.bets {
		if queued[b.MarketUID] && b.Status != bettypes.Bet_STATUS_SETTLED {
			B++
		}
	}
	for _, p := range d.parts {
		if queued[p.OrderBookUID] && !p.IsSettled {
			P++
		}
	}
	// batch sizes are parameters up to 2^64-1: compute in uint64
	nb64 := uint64(e.App.BetKeeper.GetParams(e.Ctx).BatchSettlementCount)
	no64 := e.App.OrderbookKeeper.GetParams(e.Ctx).BatchSettlementCount
	if nb64 == 0 {
		nb64 = 1
	}
	if no64 == 0 {
		no64 = 1
	}
	qb, qp := int(uint64(B)/nb64), int(uint64(P)/no64)
	// the bound proved on the model for every reachable state (c05_settles_within): floor(B/nb) + floor(P/no) + 1
	// successful end-blocks. (The tighter ceil(B/nb)+ceil(P/no) is false of the code as it is and was a false alarm
	// of an earlier version of this monitor: a book without participations that waits behind books whose
	// participations use up the block's budget exactly is only looked at in the next block,
	// c05_ceil_bound_counterexample.)
	bound := qb + qp + 1
	coreSeen.due[uid] = &settleDue{resolvedAtEB: coreSeen.ebCount, bound: bound, b: uint64(B), p: uint64(P), nb: nb64, no: no64}
}

// settleBoundMonitor runs after every end-block: every resolved market must be completely settled (no pending bet,
// every participation paid, book SETTLED, both queues free of it) within its bound.
func settleBoundMonitor(out *Out, h int, e *Env, d *coreDump) {
	coreSeen.ebCount++
	inQ := map[string]bool{}
	for _, m := range e.App.MarketKeeper.GetMarketStats(e.Ctx).ResolvedUnsettled {
		inQ[m] = true
	}
	for _, m := range e.App.OrderbookKeeper.GetOrderBookStats(e.Ctx).ResolvedUnsettled {
		inQ[m] = true
	}
	for uid, du := range coreSeen.due {
		if du.done {
			continue
		}
		settled := !inQ[uid]
		what := "still queued"
		for _, b := range d.bets {
			if b.MarketUID == uid && b.Status != bettypes.Bet_STATUS_SETTLED {
				settled, what = false, fmt.Sprintf("bet %d pending", uidN(b.UID))
			}
		}
		for _, p := range d.parts {
			if p.OrderBookUID == uid && !p.IsSettled {
				settled, what = false, fmt.Sprintf("participation %d unpaid", p.Index)
			}
		}
		for _, bk := range d.books {
			if bk.UID == uid && bk.Status != obtypes.OrderBookStatus_ORDER_BOOK_STATUS_STATUS_SETTLED {
				settled = false
			}
		}
		if !inQ[uid] {
			// C03: a bet of a resolved market that is in neither settlement queue any more is never visited again, so it is
			// never settled
			for _, b := range d.bets {
				if b.MarketUID == uid && b.Status != bettypes.Bet_STATUS_SETTLED {
					failOnce(out, h, "C03", "every_bet_settled", "market-left-the-settlement-queues-with-a-pending-bet", uid,
						fmt.Sprintf("market %d was resolved and is in neither settlement queue any more, but bet %d is still pending: it will never be settled", uidN(uid), uidN(b.UID)))
					break
				}
			}
		}
		if settled {
			du.done = true
			out.Count("mon.C05.settled_within_bound")
			continue
		}
		if coreSeen.ebCount-du.resolvedAtEB > du.bound {
			cls := "not-settled-within-bound"
			bookSettled := false
			for _, bk := range d.books {
				if bk.UID == uid && bk.Status == obtypes.OrderBookStatus_ORDER_BOOK_STATUS_STATUS_SETTLED {
					bookSettled = true
				}
			}
			if bookSettled {
				cls = "book-settled-with-unpaid-participation-or-pending-bet"
			}
			failOnce(out, h, "C05", "settles_within", cls, uid, fmt.Sprintf("market %d not completely settled %d end-blocks after its resolution (bound %d): %s", uidN(uid), coreSeen.ebCount-du.resolvedAtEB, du.bound, what))
			du.done = true
		}
	}
}
