package harness

// Suite "ticket" (property C06): the malformed-token differential through the REAL handlers of all 17
// ticket-bearing message types.
//
// One history = one prepared chain state (ticket_world.go) observed in three key-vault states: the genesis vault
// and the vaults after two real key rotations (proposal + votes through the real message servers, vault replaced
// by the real ovm end-blocker; the old leader is dropped each time). In every vault state, for every message
// type, every mutation class of ticket_forge.go is presented to the real message server on a throw-away copy of
// the state with baseapp's message atomicity (cache context, written only on success). The harness knows how
// each string was made and writes the abstract record of lean/Sge/Ticket.lean as the op line; the Lean driver
// must print the verdict of the real handler. For the leader-verified messages the string is additionally given
// to OVMKeeper.VerifyTicketUnmarshal directly (`K` lines).
//
// Monitors (evaluated on the implementation only; "ticket OK" is decided from how the token was made):
//   forged_ticket_rejected   a message whose ticket is not authentic / unexpired returned success
//   forged_ticket_no_effect  ... changed the raw state (all custom module stores + bank + authz + auth)
//   kyc_binds_actor          a message succeeded although non-ignorable KYC data does not name the approved actor
//   effect_is_payload        two accepted tickets with the same payload left different states

import (
	"fmt"
	"sort"
	"strings"

	sdk "github.com/cosmos/cosmos-sdk/types"
)

func init() { suites["ticket"] = runTicket }

var tkKycVars = []kycVar{
	{name: "kyc-ignore", ignore: true, who: -1},
	{name: "kyc-ignore-names-stranger", ignore: true, who: tkStranger},
	{name: "kyc-ignore-unapproved-actor", ignore: true, who: -2},
	{name: "kyc-approved-stranger", approved: true, who: tkStranger},
	{name: "kyc-unapproved-actor", who: -2},
	{name: "kyc-approved-empty-id", approved: true, who: -1},
	{name: "kyc-absent", absent: true},
}

func (w *tkWorld) fail(mon, class, format string, a ...interface{}) {
	w.out.Fail(MonFail{Property: "C06", Monitor: mon, Class: class, History: w.h, Detail: fmt.Sprintf(format, a...)})
}

func safeErr(f func() error) (err error) {
	defer func() {
		if r := recover(); r != nil {
			err = fmt.Errorf("panic: %v", r)
		}
	}()
	return f()
}

func runTicket(seed uint64, n int, out *Out) {
	pool := newOvmPool()
	base := NewEnv(10_000_000, 4)
	baseCtx := base.Ctx
	h0 := base.Height
	exercised := map[string]bool{}
	for h := 0; h < n; h++ {
		if skipHist(h) {
			continue
		}
		r := NewRng(seed*1_000_003 + uint64(h))
		hctx, _ := baseCtx.CacheContext()
		base.Ctx = hctx
		base.Height, base.Time = h0, BaseTime
		out.Op("N %d", h)
		out.Impl("n %d", h)
		w := newTkWorld(base, pool, out, r, h)
		for ph := 0; ph < 3; ph++ {
			w.phase = ph
			if ph > 0 {
				if w.rotate() {
					out.Count("rotation.ok")
				} else {
					out.Count("rotation.vault-differs")
				}
				if w.stop {
					break
				}
				w.height++
				// block times with a fraction of a second: the expiry comparison must behave as with floor(time)
				w.setTime(w.now+r.Range(1, 20), r.Pick([]int64{0, 1, 500_000_000, 999_999_999}))
			}
			w.runPhase(exercised)
		}
	}
	var hs []string
	for k := range exercised {
		hs = append(hs, k)
	}
	sort.Strings(hs)
	out.Count(fmt.Sprintf("handlers-exercised.%d", len(hs)))
	for _, k := range hs {
		out.Count("exercised." + k)
	}
}

func (w *tkWorld) allowedKeys(hd *tkHandler) map[int]bool {
	m := map[int]bool{}
	switch hd.mode {
	case modeLeader:
		m[w.vkeys[0]] = true
	case modeIndex:
		if hd.idx < len(w.vkeys) {
			m[w.vkeys[hd.idx]] = true
		}
	case modeAny:
		for _, k := range w.vkeys {
			m[k] = true
		}
	}
	return m
}

func (w *tkWorld) runPhase(exercised map[string]bool) {
	baseHash := stateHash(w.e, w.e.Ctx)
	for _, hd := range w.handlers() {
		pos, good := 0, w.vkeys[0]
		if hd.mode == modeIndex && hd.idx < len(w.vkeys) {
			pos, good = hd.idx, w.vkeys[hd.idx]
		}
		fc := w.fctx(good, pos)
		var alt map[string]interface{}
		if hd.alt != nil {
			alt = hd.alt()
		}
		cases := forgeAll(fc, hd.claims(kycActor()), hd.misfit, alt)
		if hd.onlyValid {
			cases = cases[:1]
		}
		ref := tkRef{}
		for _, f := range cases {
			w.present(hd, f, kycActor(), baseHash, &ref)
		}
		if hd.kyc {
			for _, kv := range tkKycVars {
				_, f := forgeValid(fc, hd.claims(kv))
				f.Class = kv.name
				f.SamePayload = false
				w.present(hd, f, kv, baseHash, &ref)
			}
		}
		exercised[strings.SplitN(hd.name, "#", 2)[0]] = true
	}
}

type tkRef struct {
	set   bool
	class string
	hash  [32]byte
}

func (w *tkWorld) kycFields(hd *tkHandler, kv kycVar) string {
	if !hd.kyc {
		return "0"
	}
	id := 999999
	switch {
	case kv.absent:
		return fmt.Sprintf("1 0 0 %d %d", id, hd.actor)
	case kv.who == -2:
		id = hd.actor
	case kv.who >= 0:
		id = kv.who
	}
	return fmt.Sprintf("1 %d %d %d %d", b2i(kv.ignore), b2i(kv.approved), id, hd.actor)
}

// present gives one forged string to one handler on a throw-away copy of the state.
func (w *tkWorld) present(hd *tkHandler, f forged, kv kycVar, baseHash [32]byte, ref *tkRef) {
	e := w.e
	octx, _ := e.Ctx.CacheContext()
	cctx, write := octx.CacheContext()
	err := safeErr(func() error { return hd.run(cctx, f.Tok) })
	dirty := false
	if err == nil {
		write()
	} else {
		dirty = stateHash(e, cctx) != baseHash
	}
	post := stateHash(e, octx)
	changed := post != baseHash

	// ---- what the model is told
	idx := 0
	if hd.mode == modeIndex {
		idx = hd.idx
	}
	tks := fmt.Sprintf("%d %d %s", hd.mode, idx, f.Abs)
	ntk := 1
	if hd.companion {
		_, cf := forgeValid(w.fctx(w.vkeys[0], 0), map[string]interface{}{})
		tks += fmt.Sprintf(" %d 0 %s", modeLeader, cf.Abs)
		ntk = 2
	}
	w.out.Op("M %s %s %d %d%s %d %s %s", hd.name, f.Class, w.now, len(w.vault), w.pool.IDs(w.vault), ntk, tks, w.kycFields(hd, kv))
	verdict := "ok"
	if err != nil {
		verdict = "err"
	}
	w.out.Impl("r %s", verdict)
	w.out.Count("msg." + verdict)
	w.out.Count("class." + f.Class + "." + verdict)
	w.out.Count("handler." + hd.name + "." + verdict)
	if f.Class == "valid" && err != nil && !hd.onlyValid {
		// not a violation of C06 by itself (the property bounds what may take effect, not what must); the model
		// accepts this message, so the correspondence reports it, and the forged classes below are still presented
		w.out.Count("reference-message-refused." + hd.name)
	}

	// ---- keeper-level probe of the leader path
	if hd.newPayload != nil && hd.mode == modeLeader {
		pctx, _ := e.Ctx.CacheContext()
		perr := safeErr(func() error {
			return e.App.OVMKeeper.VerifyTicketUnmarshal(sdk.WrapSDKContext(pctx), f.Tok, hd.newPayload())
		})
		w.out.Op("K %d %d%s %s", w.now, len(w.vault), w.pool.IDs(w.vault), f.Abs)
		if perr == nil {
			w.out.Impl("t accept")
			w.out.Count("keeper.accept")
		} else {
			w.out.Impl("t reject")
			w.out.Count("keeper.reject")
		}
	}

	// ---- monitors
	class := hd.name + "/" + f.Class
	ticketOK := f.EdDSA && w.allowedKeys(hd)[f.SignedBy] && !f.NoExp && f.ExpSec > w.now
	detail := func() string {
		return fmt.Sprintf("phase %d block time %d.%09d vault%s: %s presented with a ticket of class %q (alg EdDSA=%v, valid Ed25519 signature of key %d, exp %d, noexp=%v): handler returned %v, state changed=%v; token %s",
			w.phase, w.now, w.nanos, w.pool.IDs(w.vault), hd.name, f.Class, f.EdDSA, f.SignedBy, f.ExpSec, f.NoExp, err, changed, trunc(f.Tok, 400))
	}
	if dirty {
		// diagnostic only (the writes are discarded with the failing message): an effect preceded the rejection
		if ticketOK {
			w.out.Count("diag.authentic-ticket-rejected-after-writing-into-its-cache." + hd.name)
		} else {
			w.out.Count("diag.FORGED-ticket-rejected-after-writing-into-its-cache." + hd.name)
		}
	}
	if !ticketOK {
		if err == nil {
			w.fail("forged_ticket_rejected", class, "%s", detail())
		}
		if changed {
			w.fail("forged_ticket_no_effect", class, "%s", detail())
		}
	}
	if err != nil && changed {
		// a failing message must never change the state (atomicity of the harness itself)
		panic("ticket suite: a failing message changed the committed state")
	}
	if hd.kyc && err == nil && !kv.ignore {
		named := -1
		switch {
		case kv.absent:
		case kv.who == -2:
			named = hd.actor
		default:
			named = kv.who
		}
		if kv.absent || !kv.approved || named != hd.actor {
			w.fail("kyc_binds_actor", class, "%s; KYC data: absent=%v ignore=%v approved=%v id=account %d, actor = account %d", detail(),
				kv.absent, kv.ignore, kv.approved, named, hd.actor)
		}
	}
	if ticketOK && f.SamePayload && err == nil {
		if !ref.set {
			ref.set, ref.class, ref.hash = true, f.Class, post
		} else if ref.hash != post {
			w.fail("effect_is_payload", class, "%s; the state differs from the one left by the same payload in a ticket of class %q", detail(), ref.class)
		}
		w.out.Count("effect-compared")
	}
}
