package harness

// Helpers of the x/subaccount correspondence suite: account numbering shared with the Lean model, raw-store
// observation of the module's complete state, a recording wrapper around the order-book hooks, and the
// real-flow environment actions (market add / resolve, plain house deposits, end-blockers).

import (
	"encoding/binary"
	"fmt"
	"reflect"
	"sort"
	"strings"
	"unsafe"

	sdkmath "cosmossdk.io/math"
	"github.com/cosmos/cosmos-sdk/store/prefix"
	sdk "github.com/cosmos/cosmos-sdk/types"

	"github.com/sge-network/sge/app/params"
	"github.com/sge-network/sge/x/bet"
	bettypes "github.com/sge-network/sge/x/bet/types"
	housekeeper "github.com/sge-network/sge/x/house/keeper"
	housetypes "github.com/sge-network/sge/x/house/types"
	marketkeeper "github.com/sge-network/sge/x/market/keeper"
	markettypes "github.com/sge-network/sge/x/market/types"
	"github.com/sge-network/sge/x/orderbook"
	orderbooktypes "github.com/sge-network/sge/x/orderbook/types"
	rewardtypes "github.com/sge-network/sge/x/reward/types"
	subkeeper "github.com/sge-network/sge/x/subaccount/keeper"
	subtypes "github.com/sge-network/sge/x/subaccount/types"
)

// account numbering of lean/Sge/Subaccount.lean
const (
	subExt  = 100  // custody module accounts of bet / house / orderbook, lumped
	subPool = 101  // reward pool
	subBase = 1000 // subaccount id k lives at subBase + k
)

var subExtModules = []string{"orderbook_liquidity_pool", "house_fee_collector", "bet_fee_collector"}

type subHookCall struct {
	kind   string
	house  sdk.AccAddress
	x, y   sdkmath.Int
	balPre sdkmath.Int // bank balance of `house` when the hook was entered (after the order book's refund)
}

// subRecHooks records every order-book hook invocation (placed in front of the subaccount module's hooks).
type subRecHooks struct{ w *subWorld }

func (r subRecHooks) rec(ctx sdk.Context, kind string, house sdk.AccAddress, x, y sdkmath.Int) {
	bal := r.w.e.App.BankKeeper.GetBalance(ctx, house, params.DefaultBondDenom).Amount
	r.w.calls = append(r.w.calls, subHookCall{kind: kind, house: house, x: x, y: y, balPre: bal})
}

func (r subRecHooks) AfterHouseWin(ctx sdk.Context, house sdk.AccAddress, originalAmount, profit sdkmath.Int) {
	r.rec(ctx, "win", house, originalAmount, profit)
}

func (r subRecHooks) AfterHouseLoss(ctx sdk.Context, house sdk.AccAddress, originalAmount, lostAmt sdkmath.Int) {
	r.rec(ctx, "loss", house, originalAmount, lostAmt)
}

func (r subRecHooks) AfterHouseRefund(ctx sdk.Context, house sdk.AccAddress, originalAmount sdkmath.Int) {
	r.rec(ctx, "refund", house, originalAmount, sdkmath.ZeroInt())
}

func (r subRecHooks) AfterHouseFeeRefund(ctx sdk.Context, house sdk.AccAddress, fee sdkmath.Int) {
	r.rec(ctx, "fee", house, fee, sdkmath.ZeroInt())
}

// subWorld is one history: a real chain plus what the monitors remember about it.
type subWorld struct {
	e    *Env
	out  *Out
	r    *Rng
	h    int
	k    *subkeeper.Keeper
	srv  subtypes.MsgServer
	hsrv housetypes.MsgServer
	msrv markettypes.MsgServer

	calls []subHookCall

	// markets of the real flows
	markets   []*subMarket
	nMarkets  int
	nBets     int
	foreignTk int // index of an oracle key that is not in the vault

	// monitor memory (independent of the module's stores)
	clean     bool
	injected  bool // a hook was invoked directly by the harness (end-block halts are then not findings)
	tainted   bool // ... with a custody payout smaller than the order book makes (bank >= available no longer checked)
	inexact   bool // ... with a custody payout different from the order book's (bank == available no longer checked)
	reported  map[string]bool
	leakClass string    // why the last successful wager left subaccount tokens in the owner's free balance
	parts     []subPart // participations created through the subaccount house deposit
	gh        map[int]*subGhost
	lockLog   map[int][]subLockRec // every lock granted by a successful create / top-up / grant
}

type subGhost struct {
	released, wagered, profitOut, staked, leaked sdkmath.Int
	nRel                                         int
}

type subPart struct {
	owner int
	m     *subMarket
	idx   uint64
}

type subLockRec struct {
	ts  uint64
	amt sdkmath.Int
}

type subMarket struct {
	uid      string
	odds     []string
	resolved bool
	liquid   bool // a plain user deposited liquidity
	// participations of subaccounts: participation index by owner account id
	parts map[int][]uint64
}

func newSubWorld(e *Env, out *Out, r *Rng, h int) *subWorld {
	w := &subWorld{e: e, out: out, r: r, h: h, k: e.App.SubaccountKeeper, clean: true,
		gh: map[int]*subGhost{}, lockLog: map[int][]subLockRec{}, reported: map[string]bool{}}
	w.srv = subkeeper.NewMsgServerImpl(*e.App.SubaccountKeeper)
	w.hsrv = housekeeper.NewMsgServerImpl(*e.App.HouseKeeper)
	w.msrv = marketkeeper.NewMsgServerImpl(*e.App.MarketKeeper)
	// a signing key that is not registered in the vault
	_, priv, _ := detKey("foreign")
	e.OvmPriv = append(e.OvmPriv, priv)
	w.foreignTk = len(e.OvmPriv) - 1
	// put a recorder in front of the subaccount hooks of the order book (the keeper refuses a second SetHooks,
	// the field is unexported: the harness is a test binary, so reflect + unsafe is acceptable here)
	f := reflect.ValueOf(e.App.OrderbookKeeper).Elem().FieldByName("hooks")
	hooks := orderbooktypes.OrderBookHooks(orderbooktypes.NewMultiOrderBookHooks(subRecHooks{w}, e.App.SubaccountKeeper.Hooks()))
	reflect.NewAt(f.Type(), unsafe.Pointer(f.UnsafeAddr())).Elem().Set(reflect.ValueOf(&hooks).Elem())
	return w
}

func (w *subWorld) ghost(a int) *subGhost {
	g, ok := w.gh[a]
	if !ok {
		z := sdkmath.ZeroInt()
		g = &subGhost{released: z, wagered: z, profitOut: z, staked: z, leaked: z}
		w.gh[a] = g
	}
	return g
}

// ---------------------------------------------------------------------------------------------
// account numbering

func (w *subWorld) subAddr(id uint64) sdk.AccAddress { return subtypes.NewAddressFromSubaccount(id) }

// acct maps a model account id to the real address
func (w *subWorld) acct(id int) sdk.AccAddress {
	switch {
	case id < NAcct:
		return w.e.Accts[id]
	case id == subExt:
		return w.e.App.AccountKeeper.GetModuleAddress(subExtModules[0])
	case id == subPool:
		return w.e.App.AccountKeeper.GetModuleAddress(rewardtypes.RewardPoolFunder{}.GetModuleAcc())
	default:
		return w.subAddr(uint64(id - subBase))
	}
}

// idOf maps a real address to the model account id (-1 when unknown)
func (w *subWorld) idOf(a sdk.AccAddress) int {
	for i, u := range w.e.Accts {
		if u.Equals(a) {
			return i
		}
	}
	for _, m := range subExtModules {
		if w.e.App.AccountKeeper.GetModuleAddress(m).Equals(a) {
			return subExt
		}
	}
	if w.acct(subPool).Equals(a) {
		return subPool
	}
	n := w.k.Peek(w.e.Ctx)
	for id := uint64(1); id <= n+1; id++ {
		if w.subAddr(id).Equals(a) {
			return subBase + int(id)
		}
	}
	return -1
}

func (w *subWorld) balOf(id int) sdkmath.Int {
	if id == subExt {
		t := sdkmath.ZeroInt()
		for _, m := range subExtModules {
			t = t.Add(w.e.ModBal(m))
		}
		return t
	}
	return w.e.Bal(w.acct(id))
}

// ---------------------------------------------------------------------------------------------
// observation of the module's complete state from the raw store

type subObs struct {
	nextID  uint64
	params  subtypes.Params
	subMap  map[int]int // subaccount address id -> owner id   (store 0x02)
	ownMap  map[int]int // owner id -> subaccount address id   (store 0x01)
	sum     map[int]subtypes.AccountSummary
	locks   map[int][]subtypes.LockedBalance
	bank    map[int]sdkmath.Int
	subIDs  []int
	nextBal sdkmath.Int
}

func (w *subWorld) observe() *subObs {
	ctx := w.e.Ctx
	o := &subObs{subMap: map[int]int{}, ownMap: map[int]int{}, sum: map[int]subtypes.AccountSummary{},
		locks: map[int][]subtypes.LockedBalance{}, bank: map[int]sdkmath.Int{}}
	o.nextID = w.k.Peek(ctx)
	o.params = w.k.GetParams(ctx)
	store := ctx.KVStore(w.e.App.GetKey(subtypes.StoreKey))
	seen := map[int]bool{}
	it := prefix.NewStore(store, subtypes.SubaccountOwnerPrefix).Iterator(nil, nil)
	for ; it.Valid(); it.Next() {
		o.ownMap[w.idOf(sdk.AccAddress(it.Key()))] = w.idOf(sdk.AccAddress(it.Value()))
	}
	it.Close()
	it = prefix.NewStore(store, subtypes.SubaccountOwnerReversePrefix).Iterator(nil, nil)
	for ; it.Valid(); it.Next() {
		a := w.idOf(sdk.AccAddress(it.Key()))
		o.subMap[a] = w.idOf(sdk.AccAddress(it.Value()))
		seen[a] = true
	}
	it.Close()
	it = prefix.NewStore(store, subtypes.AccountSummaryPrefix).Iterator(nil, nil)
	for ; it.Valid(); it.Next() {
		a := w.idOf(sdk.AccAddress(it.Key()))
		var s subtypes.AccountSummary
		w.e.App.AppCodec().MustUnmarshal(it.Value(), &s)
		o.sum[a] = s
		seen[a] = true
	}
	it.Close()
	it = prefix.NewStore(store, subtypes.LockedBalancePrefix).Iterator(nil, nil)
	for ; it.Valid(); it.Next() {
		key := it.Key()
		n := int(key[0])
		a := w.idOf(sdk.AccAddress(key[1 : 1+n]))
		ts := binary.BigEndian.Uint64(key[1+n:])
		amt := new(sdkmath.Int)
		must(amt.Unmarshal(it.Value()))
		o.locks[a] = append(o.locks[a], subtypes.LockedBalance{UnlockTS: ts, Amount: *amt})
		seen[a] = true
	}
	it.Close()
	for a := range seen {
		o.subIDs = append(o.subIDs, a)
	}
	sort.Ints(o.subIDs)
	for i := 0; i < NAcct; i++ {
		o.bank[i] = w.balOf(i)
	}
	o.bank[subExt] = w.balOf(subExt)
	o.bank[subPool] = w.balOf(subPool)
	for _, a := range o.subIDs {
		if a >= subBase {
			o.bank[a] = w.balOf(a)
		}
	}
	o.nextBal = w.e.Bal(w.subAddr(o.nextID))
	o.bank[subBase+int(o.nextID)] = o.nextBal
	return o
}

func (o *subObs) available(a int) sdkmath.Int {
	s := o.sum[a]
	return s.DepositedAmount.Sub(s.WithdrawnAmount).Sub(s.SpentAmount).Sub(s.LostAmount)
}

// unlockedStore is the module's own notion: stored entries with unlockTS < now
func (o *subObs) unlockedStore(a int, now int64) sdkmath.Int {
	t := sdkmath.ZeroInt()
	for _, l := range o.locks[a] {
		if l.UnlockTS < uint64(now) {
			t = t.Add(l.Amount)
		}
	}
	return t
}

// lines renders the canonical state exactly as Driver/Subaccount.lean `showState` does
func (w *subWorld) lines(o *subObs) []string {
	var ls []string
	ls = append(ls, fmt.Sprintf("s %d %d %d %d %d %s", w.e.Time, o.nextID, b2i(o.params.WagerEnabled), b2i(o.params.DepositEnabled),
		b2i(w.clean), o.nextBal))
	for _, a := range o.subIDs {
		s, ok := o.sum[a]
		if !ok {
			ls = append(ls, fmt.Sprintf("a %d no-summary", a))
			continue
		}
		owner := "-"
		if ow, ok := o.subMap[a]; ok {
			owner = fmt.Sprint(ow)
		}
		lk := o.locks[a]
		sort.Slice(lk, func(i, j int) bool { return lk[i].UnlockTS < lk[j].UnlockTS })
		parts := make([]string, len(lk))
		for i, l := range lk {
			parts[i] = fmt.Sprintf("%d:%s", l.UnlockTS, intStr(l.Amount))
		}
		ls = append(ls, fmt.Sprintf("a %d %s %s %s %s %s %s %d %s", a, owner, intStr(s.DepositedAmount), intStr(s.SpentAmount),
			intStr(s.WithdrawnAmount), intStr(s.LostAmount), o.bank[a], len(lk), strings.Join(parts, " ")))
	}
	var owners []int
	for ow := range o.ownMap {
		owners = append(owners, ow)
	}
	sort.Ints(owners)
	for _, ow := range owners {
		ls = append(ls, fmt.Sprintf("o %d %d", ow, o.ownMap[ow]))
	}
	var bs []string
	for i := 0; i < NAcct; i++ {
		bs = append(bs, fmt.Sprintf("%d:%s", i, o.bank[i]))
	}
	bs = append(bs, fmt.Sprintf("%d:%s", subExt, o.bank[subExt]), fmt.Sprintf("%d:%s", subPool, o.bank[subPool]))
	ls = append(ls, "b "+strings.Join(bs, " "))
	for _, a := range o.subIDs {
		if _, ok := o.sum[a]; !ok {
			continue
		}
		g := w.ghost(a)
		toOwner := g.released.Add(g.wagered).Add(g.profitOut)
		ls = append(ls, fmt.Sprintf("g %d %s %d %s %s %s %s %s", a, g.released, g.nRel, g.wagered, g.profitOut, toOwner, g.staked,
			o.unlockedStore(a, w.e.Time)))
	}
	return ls
}

// emit writes one op with its result class and the observed state (quiet ops: result only)
func (w *subWorld) emit(quiet bool, class string, op string) *subObs {
	if quiet {
		w.out.Op("q %s", op)
	} else {
		w.out.Op("%s", op)
	}
	if class == "ok" {
		w.out.Impl("r ok")
	} else if class == "panic" {
		w.out.Impl("r panic")
	} else {
		w.out.Impl("r err") // the kind of error (derived from the wording of the Go error) is counted, not compared
		w.out.Count("errclass." + class)
	}
	if quiet {
		return nil
	}
	o := w.observe()
	for _, l := range w.lines(o) {
		w.out.Impl("%s", l)
	}
	return o
}

// ---------------------------------------------------------------------------------------------
// real-flow environment actions; their bank effects on the modelled accounts are replayed as quiet `S` ops

type subBalSnap map[int]sdkmath.Int

func (w *subWorld) snap() subBalSnap {
	s := subBalSnap{}
	for i := 0; i < NAcct; i++ {
		s[i] = w.balOf(i)
	}
	s[subExt] = w.balOf(subExt)
	s[subPool] = w.balOf(subPool)
	n := w.k.Peek(w.e.Ctx)
	for id := uint64(1); id <= n; id++ {
		s[subBase+int(id)] = w.balOf(subBase + int(id))
	}
	return s
}

// replayDeltas emits quiet sends between the users and custody that turn `expected` into the real balances:
// first everything that flows into custody, then everything that flows out.
func (w *subWorld) replayDeltas(expected subBalSnap) {
	for pass := 0; pass < 2; pass++ {
		for i := 0; i < NAcct; i++ {
			d := w.balOf(i).Sub(expected[i])
			if pass == 0 && d.IsNegative() {
				w.emit(true, "ok", fmt.Sprintf("S %d %d %s", i, subExt, d.Neg()))
			}
			if pass == 1 && d.IsPositive() {
				w.emit(true, "ok", fmt.Sprintf("S %d %d %s", subExt, i, d))
			}
		}
	}
}

func (w *subWorld) addMarket() *subMarket {
	idx := w.nMarkets
	w.nMarkets++
	m := &subMarket{uid: UID(0xa0, idx), parts: map[int][]uint64{}}
	nOdds := 2 + w.r.Intn(2)
	var odds []*markettypes.Odds
	for j := 0; j < nOdds; j++ {
		u := UID(0xb0, idx*8+j)
		m.odds = append(m.odds, u)
		odds = append(odds, &markettypes.Odds{UID: u, Meta: fmt.Sprintf("odds %d", j)})
	}
	tk := w.e.Ticket(0, map[string]interface{}{
		"uid": m.uid, "start_ts": uint64(w.e.Time - 1000), "end_ts": uint64(w.e.Time + 10_000_000), "odds": odds,
		"meta": "market", "status": markettypes.MarketStatus_MARKET_STATUS_ACTIVE,
	})
	err, _ := w.e.Tx(func(ctx sdk.Context) error {
		_, err := w.msrv.Add(sdk.WrapSDKContext(ctx), &markettypes.MsgAdd{Creator: w.e.Accts[NAcct-1].String(), Ticket: tk})
		return err
	})
	must(err)
	w.markets = append(w.markets, m)
	return m
}

func subKyc(a sdk.AccAddress) map[string]interface{} {
	return map[string]interface{}{"ignore": false, "approved": true, "id": a.String()}
}

// plainDeposit: a user provides liquidity through the house module's own message (environment)
func (w *subWorld) plainDeposit(m *subMarket, user int, amt int64) {
	before := w.snap()
	tk := w.e.Ticket(0, map[string]interface{}{"kyc_data": subKyc(w.e.Accts[user])})
	err, _ := w.e.Tx(func(ctx sdk.Context) error {
		_, err := w.hsrv.Deposit(sdk.WrapSDKContext(ctx), &housetypes.MsgDeposit{Creator: w.e.Accts[user].String(), MarketUID: m.uid,
			Amount: sdkmath.NewInt(amt), Ticket: tk})
		return err
	})
	if err != nil {
		w.out.Count("env.deposit.err")
		return
	}
	m.liquid = true
	w.out.Count("env.deposit.ok")
	w.replayDeltas(before)
	w.emit(false, "ok", "T 0")
}

// resolve a market through the market module's message (environment, no bank movement)
func (w *subWorld) resolve(m *subMarket) {
	status := markettypes.MarketStatus_MARKET_STATUS_RESULT_DECLARED
	var winners []string
	switch w.r.Intn(5) {
	case 0:
		status = markettypes.MarketStatus_MARKET_STATUS_CANCELED
	case 1:
		status = markettypes.MarketStatus_MARKET_STATUS_ABORTED
	default:
		winners = []string{m.odds[w.r.Intn(len(m.odds))]}
	}
	tk := w.e.Ticket(0, map[string]interface{}{"uid": m.uid, "resolution_ts": uint64(w.e.Time), "winner_odds_uids": winners, "status": status})
	err, _ := w.e.Tx(func(ctx sdk.Context) error {
		_, err := w.msrv.Resolve(sdk.WrapSDKContext(ctx), &markettypes.MsgResolve{Creator: w.e.Accts[NAcct-1].String(), Ticket: tk})
		return err
	})
	if err != nil {
		w.out.Count("env.resolve.err")
		return
	}
	m.resolved = true
	w.out.Count("env.resolve." + status.String())
}

// endBlock runs the real end-blockers of x/bet and x/orderbook (app order) and replays what they did to the
// subaccounts: every recorded hook invocation becomes a `K` op. Returns false when the chain halted.
func (w *subWorld) endBlock() bool {
	before := w.snap()
	w.calls = nil
	halt, what := w.e.Block(func(ctx sdk.Context) {
		bet.EndBlocker(ctx, *w.e.App.BetKeeper)
		orderbook.EndBlocker(ctx, *w.e.App.OrderbookKeeper)
	})
	if halt {
		w.out.Count("endblock.halt")
		w.out.Count(fmt.Sprintf("endblock.halt.injected=%v:%.90s", w.injected, what))
		// a panic raised by a subaccount hook is a C11 (hooks_total) matter; any other end-block panic belongs to the
		// bet / order-book slice and is recorded under C05 for the framework owner
		hookPanic := strings.Contains(what, "greater than spent") || strings.Contains(what, "amount is not positive") ||
			strings.Contains(what, "data corruption") || strings.Contains(what, "insufficient funds")
		if hookPanic && !w.injected {
			w.out.Fail(MonFail{Property: "C11", Monitor: "hooks_total", Class: "endblock-halt:subaccount-hook", History: w.h,
				Detail: "a subaccount hook panicked inside the end-blocker (no injected hook calls in this history): " + what})
		}
		if !hookPanic {
			cls := "other"
			if strings.Contains(what, "Insufficient Balance in Module Account") {
				cls = "custody-short-at-settlement"
			}
			w.out.Fail(MonFail{Property: "C05", Monitor: "endblock_no_halt", Class: "via-subaccount-suite:" + cls, History: w.h,
				Detail: "end-blocker panicked: " + what})
		}
		return false
	}
	if len(w.calls) == 0 {
		w.out.Count("endblock.idle")
		// settlement of plain bets may still have paid users
		w.replayDeltas(before)
		w.monitors(w.emit(false, "ok", "T 0"), "EB")
		return true
	}
	w.out.Count("endblock.hooks")
	expected := subBalSnap{}
	for k, v := range before {
		expected[k] = v
	}
	last := map[string]sdkmath.Int{}
	for _, c := range w.calls {
		hid := w.idOf(c.house)
		key := c.house.String()
		prev, ok := last[key]
		if !ok {
			prev = before[hid]
			if hid < 0 {
				prev = c.balPre // unknown depositor: nothing to compare with
			}
		}
		refund := c.balPre.Sub(prev)
		post := c.balPre
		w.out.Count("hook.real." + c.kind)
		if hid >= subBase {
			g := w.ghost(hid)
			if c.kind == "win" {
				// the subaccount hook forwards the profit to the owner
				if owAddr, ok := w.k.GetSubaccountOwner(w.e.Ctx, c.house); ok {
					if ow := w.idOf(owAddr); ow >= 0 && ow < NAcct {
						expected[ow] = expected[ow].Add(c.y)
					}
					g.profitOut = g.profitOut.Add(c.y)
					post = post.Sub(c.y)
				}
			}
		}
		last[key] = post
		if hid < 0 {
			continue
		}
		if hid < subBase {
			// plain depositor: the refund is an ordinary custody payout, replayed with the other deltas below
			continue
		}
		w.emit(true, "ok", fmt.Sprintf("K %s %d %s %s %s", c.kind, hid, refund, c.x, c.y))
	}
	w.replayDeltas(expected)
	w.monitors(w.emit(false, "ok", "T 0"), "EB")
	return true
}

// betTicket builds the inner ticket of a wager on odds `oi` of market m
func (w *subWorld) betTicket(m *subMarket, oi int, oddsValue string, bettor sdk.AccAddress, key int) string {
	one := sdkmath.LegacyOneDec()
	var all []*bettypes.BetOddsCompact
	for _, u := range m.odds {
		all = append(all, &bettypes.BetOddsCompact{UID: u, MaxLossMultiplier: one})
	}
	return w.e.Ticket(key, map[string]interface{}{
		"selected_odds": &bettypes.BetOdds{UID: m.odds[oi], MarketUID: m.uid, Value: oddsValue, MaxLossMultiplier: one},
		"kyc_data":      subKyc(bettor),
		"all_odds":      all,
	})
}
