package harness

// Property C16: export / genesis validation / re-import of the custom modules at block boundaries.
//
// One history = mixed traffic of all custom modules on the real application (markets, own and delegated house
// deposits, withdrawals, wagers, resolutions, end-blocks; oracle-key proposals and votes; subaccounts; promoters,
// campaigns and reward grants).  At sampled block boundaries (`XI`) the suite
//   (a) commits, exports the whole application state and runs every custom module's genesis `Validate()`,
//   (b) starts a fresh application from the exported JSON (InitChain),
//   (c) compares the raw KV stores (and parameter subspaces) of the eight custom modules key by key,
//   (d) keeps the restarted chain as a *fork*: every later transaction / end-block of the history is also executed on
//       the fork, and at the end the stores and all bank balances of the fork are compared with the original chain.
// The Lean driver replays the core operations (market / house / bet / orderbook) on the model; the other modules'
// states are handed to it at the export point (`L` lines).  It then computes `validate (export σ)` and
// `import (export σ)` per module and must print the same verdicts and the same canonical state as the restarted chain.

import (
	"crypto/sha256"
	"encoding/binary"
	"fmt"
	"os"
	"sort"
	"strconv"
	"strings"
	"time"

	sdkmath "cosmossdk.io/math"
	sdk "github.com/cosmos/cosmos-sdk/types"
	"github.com/cosmos/cosmos-sdk/x/authz"

	"github.com/sge-network/sge/x/bet"
	betkeeper "github.com/sge-network/sge/x/bet/keeper"
	bettypes "github.com/sge-network/sge/x/bet/types"
	housekeeper "github.com/sge-network/sge/x/house/keeper"
	housetypes "github.com/sge-network/sge/x/house/types"
	marketkeeper "github.com/sge-network/sge/x/market/keeper"
	markettypes "github.com/sge-network/sge/x/market/types"
	"github.com/sge-network/sge/x/orderbook"
	obtypes "github.com/sge-network/sge/x/orderbook/types"
	"github.com/sge-network/sge/x/ovm"
	ovmkeeper "github.com/sge-network/sge/x/ovm/keeper"
	ovmtypes "github.com/sge-network/sge/x/ovm/types"
	"github.com/sge-network/sge/x/reward"
	rewardkeeper "github.com/sge-network/sge/x/reward/keeper"
	rewardtypes "github.com/sge-network/sge/x/reward/types"
	subkeeper "github.com/sge-network/sge/x/subaccount/keeper"
	subtypes "github.com/sge-network/sge/x/subaccount/types"
)

func init() {
	suites["genesis"] = runGenesis
	suites["genesis_scripted"] = runGenesisScripted
}

const (
	clsPromoter = 0x04
	clsCampaign = 0x05
	clsReward   = 0x06
	gNKeys      = 8
)

type gOp func(e *Env, ctx sdk.Context) error

type gFork struct {
	e     *Env
	point int
	dead  bool
}

type gRun struct {
	forceRecv int      // scripted histories: the receiver of the next grants
	forceCap  uint64   // scripted histories: cap_count of the next campaigns
	par       struct { // current core parameters (for mid-history changes)
		betBatch                    uint32
		betMin, betFee, minDeposit  int64
		houseFee                    string
		maxW, maxPart, obBatch, thr uint64
	}
	out      *Out
	h        int
	r        *Rng
	e        *Env
	ix       *coreIx
	lean     bool // core operations are replayed by the Lean driver (no subaccount-driven core traffic in this history)
	forks    []*gFork
	markets  []*coreMarket
	nextBet  int
	height   int64
	now      int64
	halted   bool
	lastBal  [NAcct]string
	keyID    map[string]int // exact key string -> 8*k + variant
	nPoints  int
	reported map[string]bool
	// reward bookkeeping
	promoter  int // account index of the promoter, -1 = none yet
	campaigns []string
	nRewards  int
	nCamp     int
	subOwners map[int]bool
	cfg       gCfg
}

// gCfg: which variants of the genesis code /repo contains (probed; tells the Lean driver which model variant to use)
type gCfg struct {
	houseFixed, obFixed, rewardFixed, ovmFixed bool
}

func (g *gRun) failOnce(mon, class, detail string) {
	k := mon + "|" + class
	if g.reported[k] {
		return
	}
	g.reported[k] = true
	g.out.Fail(MonFail{Property: "C16", Monitor: mon, Class: class, History: g.h, Detail: detail})
}

func newGRun(out *Out, h int, r *Rng, lean bool, cfg gCfg) *gRun {
	e := NewEnv(1_000_000, 4)
	// signing keys 4..7 (not registered at genesis) for key-change proposals
	for k := 4; k < gNKeys; k++ {
		_, priv, _ := detKey(strconv.Itoa(k))
		e.OvmPriv = append(e.OvmPriv, priv)
	}
	g := &gRun{out: out, h: h, r: r, e: e, ix: newCoreIx(e), lean: lean, nextBet: 1, keyID: map[string]int{}, reported: map[string]bool{},
		promoter: -1, subOwners: map[int]bool{}, cfg: cfg}
	for k := 0; k < gNKeys; k++ {
		_, _, pemStr := detKey(strconv.Itoa(k))
		g.keyID[strings.TrimSpace(pemStr)] = 8 * k
		g.keyID[pemStr] = 8*k + 1
	}
	out.Op("N %d", h)
	out.Impl("n %d", h)
	out.Op("CFG %d %d %d %d", b2i(cfg.houseFixed), b2i(cfg.obFixed), b2i(cfg.rewardFixed), b2i(cfg.ovmFixed))
	return g
}

func (g *gRun) setParams(betBatch uint32, betMin, betFee, minDeposit int64, houseFee string, maxW uint64, maxPart, obBatch, thr uint64) {
	e := g.e
	g.par.betBatch, g.par.betMin, g.par.betFee, g.par.minDeposit, g.par.houseFee = betBatch, betMin, betFee, minDeposit, houseFee
	g.par.maxW, g.par.maxPart, g.par.obBatch, g.par.thr = maxW, maxPart, obBatch, thr
	bp := e.App.BetKeeper.GetParams(e.Ctx)
	bp.BatchSettlementCount = betBatch
	bp.Constraints.MinAmount = sdkmath.NewInt(betMin)
	bp.Constraints.Fee = sdkmath.NewInt(betFee)
	e.App.BetKeeper.SetParams(e.Ctx, bp)
	hp := e.App.HouseKeeper.GetParams(e.Ctx)
	hp.MinDeposit = sdkmath.NewInt(minDeposit)
	hp.HouseParticipationFee = sdkmath.LegacyMustNewDecFromStr(houseFee)
	hp.MaxWithdrawalCount = maxW
	e.App.HouseKeeper.SetParams(e.Ctx, hp)
	op := e.App.OrderbookKeeper.GetParams(e.Ctx)
	op.MaxOrderBookParticipations = maxPart
	op.BatchSettlementCount = obBatch
	op.RequeueThreshold = thr
	e.App.OrderbookKeeper.SetParams(e.Ctx, op)
	e.App.SubaccountKeeper.SetParams(e.Ctx, subtypes.Params{WagerEnabled: true, DepositEnabled: true})
	if g.lean {
		g.out.Op("PARAMS %d %d %d %d %s %d %d %d %d", betBatch, betMin, betFee, minDeposit, decRaw(hp.HouseParticipationFee), maxW, maxPart, obBatch, thr)
		for i, a := range e.Accts {
			g.lastBal[i] = e.Bal(a).String()
			g.out.Op("BAL %d %s", i, g.lastBal[i])
		}
	}
	g.height, g.now = 2, BaseTime+100
	g.setBlock()
}

// changeParams: governance changes one parameter of house / orderbook / bet in mid-history (on the original chain and on
// every restarted chain that continues the history)
func (g *gRun) changeParams() {
	switch g.r.Intn(4) {
	case 0:
		g.par.maxPart = uint64(g.r.Pick([]int64{1, 2, 3, 100}))
	case 1:
		g.par.maxW = uint64(g.r.Pick([]int64{1, 2, 3}))
	case 2:
		g.par.obBatch = uint64(g.r.Pick([]int64{1, 2, 100}))
	case 3:
		g.par.betBatch = uint32(g.r.Pick([]int64{1, 2, 1000}))
	}
	p := g.par
	if g.lean {
		hf := sdkmath.LegacyMustNewDecFromStr(p.houseFee)
		g.out.Op("PARAMS %d %d %d %d %s %d %d %d %d", p.betBatch, p.betMin, p.betFee, p.minDeposit, decRaw(hf), p.maxW, p.maxPart, p.obBatch, p.thr)
	}
	_ = g.apply("params.change", func(e *Env, ctx sdk.Context) error {
		bp := e.App.BetKeeper.GetParams(ctx)
		bp.BatchSettlementCount = p.betBatch
		e.App.BetKeeper.SetParams(ctx, bp)
		hp := e.App.HouseKeeper.GetParams(ctx)
		hp.MaxWithdrawalCount = p.maxW
		e.App.HouseKeeper.SetParams(ctx, hp)
		op := e.App.OrderbookKeeper.GetParams(ctx)
		op.MaxOrderBookParticipations = p.maxPart
		op.BatchSettlementCount = p.obBatch
		e.App.OrderbookKeeper.SetParams(ctx, op)
		return nil
	})
}

func (g *gRun) setBlock() {
	g.e.SetBlock(g.height, g.now)
	for _, f := range g.forks {
		if !f.dead {
			f.e.SetBlock(g.height, g.now)
		}
	}
	if g.lean {
		g.out.Op("T %d %d", g.height, g.now)
	}
}

// apply runs one transaction on the original chain and on every fork; result classes must agree.
func (g *gRun) apply(name string, f gOp) error {
	err, _ := g.e.Tx(func(ctx sdk.Context) error { return f(g.e, ctx) })
	for _, fk := range g.forks {
		if fk.dead {
			continue
		}
		ferr, _ := fk.e.Tx(func(ctx sdk.Context) error { return f(fk.e, ctx) })
		if (ferr == nil) != (err == nil) {
			g.failOnce("continue_equal", "result-differs/"+name, fmt.Sprintf("%s after restart at export point %d: original chain %v, restarted chain %v", name, fk.point, err, ferr))
			fk.dead = true
		}
	}
	g.out.Count("op." + name)
	if err != nil {
		g.out.Count("err." + name)
		es := err.Error()
		if i := strings.LastIndex(es, ": "); i >= 0 && len(es)-i < 70 {
			es = es[i+2:]
		}
		g.out.Count("errtext." + name + "." + trunc(es, 70))
	}
	return err
}

// core runs a core-slice operation: the op line and the implementation's canonical result go to the Lean replay.
func (g *gRun) core(name, line string, f gOp) error {
	if g.lean {
		g.out.Op("%s", line)
	}
	err := g.apply(name, f)
	if g.lean {
		if err != nil {
			g.out.Impl("r err")
		} else {
			g.out.Impl("r ok")
		}
		for _, l := range dumpCore(g.e, g.ix).lines {
			g.out.Impl("%s", l)
		}
		g.noteBalances(false)
	}
	return err
}

// other runs an operation of a module the Lean side does not replay; user balances it changed are re-synchronised.
func (g *gRun) other(name string, f gOp) error {
	err := g.apply(name, f)
	if g.lean {
		g.noteBalances(true)
	}
	return err
}

func (g *gRun) noteBalances(emit bool) {
	for i, a := range g.e.Accts {
		b := g.e.Bal(a).String()
		if b != g.lastBal[i] {
			g.lastBal[i] = b
			if emit {
				g.out.Op("BAL %d %s", i, b)
			}
		}
	}
}

// ---------------------------------------------------------------------------------------------
// core operations (op line formats of lean/Driver/Core.lean)

const gTk = "1 1 0 999999" // ticket fields of the core op lines: valid, kyc ignored

func kycIgnore() map[string]interface{} {
	return map[string]interface{}{"ignore": true, "approved": false, "id": ""}
}

func (g *gRun) marketAdd(nOdds int) *coreMarket {
	mn := len(g.markets) + 1
	var oddsU, on []string
	var oddsJ []map[string]interface{}
	for k := 1; k <= nOdds; k++ {
		u := UID(clsOdds, mn*10+k)
		oddsU = append(oddsU, u)
		on = append(on, fmt.Sprint(uidN(u)))
		oddsJ = append(oddsJ, map[string]interface{}{"uid": u, "meta": "o"})
	}
	start, end := uint64(g.now-10), uint64(g.now+50_000)
	tk := g.e.Ticket(0, map[string]interface{}{"uid": UID(clsMarket, mn), "start_ts": start, "end_ts": end, "odds": oddsJ, "status": 1, "meta": "m"})
	err := g.core("marketAdd", fmt.Sprintf("MA 0 1 %d %d %d 1 %d %s", mn, start, end, len(on), strings.Join(on, " ")), func(e *Env, ctx sdk.Context) error {
		_, err := marketkeeper.NewMsgServerImpl(*e.App.MarketKeeper).Add(sdk.WrapSDKContext(ctx), &markettypes.MsgAdd{Creator: e.Accts[0].String(), Ticket: tk})
		return err
	})
	if err != nil {
		return nil
	}
	m := &coreMarket{n: mn, uid: UID(clsMarket, mn), odds: oddsU}
	g.markets = append(g.markets, m)
	return m
}

// grant saves an authz grant granter -> grantee on every chain (environment; `GR` line for the model)
func (g *gRun) grant(granter, grantee, kind int, limit int64) {
	t := time.Unix(g.now+1000, 0).UTC()
	mk := func() authz.Authorization {
		if kind == 0 {
			return &housetypes.DepositAuthorization{SpendLimit: sdkmath.NewInt(limit)}
		}
		return &housetypes.WithdrawAuthorization{WithdrawLimit: sdkmath.NewInt(limit)}
	}
	if mk().ValidateBasic() != nil {
		return
	}
	if err := g.e.App.AuthzKeeper.SaveGrant(g.e.Ctx, g.e.Accts[grantee], g.e.Accts[granter], mk(), &t); err != nil {
		return
	}
	for _, f := range g.forks {
		if !f.dead {
			_ = f.e.App.AuthzKeeper.SaveGrant(f.e.Ctx, f.e.Accts[grantee], f.e.Accts[granter], mk(), &t)
		}
	}
	if g.lean {
		g.out.Op("GR %d %d %d %d %d", granter, grantee, kind, limit, t.Unix())
	}
	g.out.Count("op.grant")
}

// deposit: `creator` signs; pd != 0: on behalf of account pd (needs a grant pd -> creator unless pd == creator)
func (g *gRun) deposit(m *coreMarket, creator, pd int, amount int64) error {
	claims := map[string]interface{}{"kyc_data": kycIgnore()}
	if pd != 0 {
		claims["depositor_address"] = g.e.Accts[pd].String()
	}
	tk := g.e.Ticket(0, claims)
	name := "deposit"
	if pd != 0 && pd != creator {
		name = "deposit.delegated"
	}
	return g.core(name, fmt.Sprintf("HD %d %s %d %d %d", creator, gTk, m.n, amount, pd), func(e *Env, ctx sdk.Context) error {
		msg := &housetypes.MsgDeposit{Creator: e.Accts[creator].String(), MarketUID: m.uid, Amount: sdkmath.NewInt(amount), Ticket: tk}
		if err := msg.ValidateBasic(); err != nil {
			return err
		}
		_, err := housekeeper.NewMsgServerImpl(*e.App.HouseKeeper).Deposit(sdk.WrapSDKContext(ctx), msg)
		return err
	})
}

func (g *gRun) withdraw(m *coreMarket, creator, pd int, idx uint64, mode int, amount int64) error {
	claims := map[string]interface{}{"kyc_data": kycIgnore()}
	if pd != 0 {
		claims["depositor_address"] = g.e.Accts[pd].String()
	}
	tk := g.e.Ticket(0, claims)
	name := "withdraw"
	if pd != 0 && pd != creator {
		name = "withdraw.delegated"
	}
	return g.core(name, fmt.Sprintf("HW %d %s %d %d %d %d %d", creator, gTk, m.n, idx, mode, amount, pd), func(e *Env, ctx sdk.Context) error {
		msg := &housetypes.MsgWithdraw{Creator: e.Accts[creator].String(), MarketUID: m.uid, ParticipationIndex: idx,
			Mode: housetypes.WithdrawalMode(mode), Amount: sdkmath.NewInt(amount), Ticket: tk}
		if err := msg.ValidateBasic(); err != nil {
			return err
		}
		_, err := housekeeper.NewMsgServerImpl(*e.App.HouseKeeper).Withdraw(sdk.WrapSDKContext(ctx), msg)
		return err
	})
}

func (g *gRun) wagerTicket(m *coreMarket, outcome int, oddsDec string) (string, []string) {
	var all []map[string]interface{}
	var allOp []string
	for _, o := range m.odds {
		all = append(all, map[string]interface{}{"uid": o, "max_loss_multiplier": "1"})
		allOp = append(allOp, fmt.Sprintf("%d 1000000000000000000", uidN(o)))
	}
	sel := m.odds[outcome]
	tk := g.e.Ticket(0, map[string]interface{}{
		"selected_odds": map[string]interface{}{"uid": sel, "market_uid": m.uid, "value": oddsDec, "max_loss_multiplier": "1"},
		"kyc_data":      kycIgnore(), "all_odds": all,
		"meta": map[string]interface{}{"selected_odds_type": 1, "selected_odds_value": oddsDec, "is_main_market": false},
	})
	return tk, allOp
}

func (g *gRun) wager(m *coreMarket, who, outcome int, oddsDec string, amount int64) error {
	ov := sdkmath.LegacyMustNewDecFromStr(oddsDec)
	tk, allOp := g.wagerTicket(m, outcome, oddsDec)
	bn := g.nextBet
	line := fmt.Sprintf("W %d %s %d %d %d %d %s 1000000000000000000 1 %d %s", who, gTk, bn, amount, m.n, uidN(m.odds[outcome]), decRaw(ov), len(allOp), strings.Join(allOp, " "))
	err := g.core("wager", line, func(e *Env, ctx sdk.Context) error {
		msg := &bettypes.MsgWager{Creator: e.Accts[who].String(), Props: &bettypes.WagerProps{UID: UID(clsBet, bn), Amount: sdkmath.NewInt(amount), Ticket: tk}}
		if err := msg.ValidateBasic(); err != nil {
			return err
		}
		_, err := betkeeper.NewMsgServerImpl(*e.App.BetKeeper).Wager(sdk.WrapSDKContext(ctx), msg)
		return err
	})
	if err == nil {
		g.nextBet++
	}
	return err
}

func (g *gRun) resolve(m *coreMarket, status, winner int) error {
	winners := []string{}
	var wn []string
	if status == 5 {
		winners = []string{m.odds[winner]}
		wn = []string{fmt.Sprint(uidN(m.odds[winner]))}
	}
	ts := uint64(g.now)
	if g.r.Chance(12) {
		// a result dated before the scheduled start of the market (refused for a declared result; whatever the
		// implementation accepts must come back from an export valid and unchanged)
		if mk, ok := g.e.App.MarketKeeper.GetMarket(g.e.Ctx, m.uid); ok && mk.StartTS > 5 {
			ts = mk.StartTS - uint64(g.r.Range(1, 5))
		}
	}
	tk := g.e.Ticket(0, map[string]interface{}{"uid": m.uid, "resolution_ts": ts, "winner_odds_uids": winners, "status": status})
	err := g.core("resolve", fmt.Sprintf("MR 1 %d %d %d %d %s", m.n, ts, status, len(wn), strings.Join(wn, " ")), func(e *Env, ctx sdk.Context) error {
		_, err := marketkeeper.NewMsgServerImpl(*e.App.MarketKeeper).Resolve(sdk.WrapSDKContext(ctx), &markettypes.MsgResolve{Creator: e.Accts[0].String(), Ticket: tk})
		return err
	})
	if err == nil {
		m.resolved = true
	}
	return err
}

// endBlock: the end-blockers of bet, orderbook (replayed by the model) and ovm, on every chain; optional export point;
// then the next block starts.
func (g *gRun) endBlock(export bool, dt int64) {
	if g.halted {
		return
	}
	if g.lean {
		g.out.Op("EB")
	}
	halt, what := g.e.Block(func(ctx sdk.Context) {
		bet.EndBlocker(ctx, *g.e.App.BetKeeper)
		orderbook.EndBlocker(ctx, *g.e.App.OrderbookKeeper)
	})
	g.out.Count("op.endBlock")
	if !halt {
		halt, what = g.e.Block(func(ctx sdk.Context) { ovm.EndBlocker(ctx, *g.e.App.OVMKeeper) })
	}
	for _, f := range g.forks {
		if f.dead {
			continue
		}
		fh, _ := f.e.Block(func(ctx sdk.Context) {
			bet.EndBlocker(ctx, *f.e.App.BetKeeper)
			orderbook.EndBlocker(ctx, *f.e.App.OrderbookKeeper)
			ovm.EndBlocker(ctx, *f.e.App.OVMKeeper)
		})
		if fh != halt {
			g.failOnce("continue_equal", "result-differs/endBlock", fmt.Sprintf("end-block after restart at export point %d: original chain halt=%v (%s), restarted chain halt=%v", f.point, halt, trunc(what, 120), fh))
			f.dead = true
		}
	}
	if g.lean {
		if halt {
			g.out.Impl("r halt")
		} else {
			g.out.Impl("r ok")
		}
		for _, l := range dumpCore(g.e, g.ix).lines {
			g.out.Impl("%s", l)
		}
		g.noteBalances(false)
	}
	if halt {
		g.halted = true
		g.out.Count("history.halted")
		return
	}
	if export {
		g.exportPoint()
	}
	g.height++
	g.now += dt
	g.setBlock()
}

// ---------------------------------------------------------------------------------------------
// oracle-key governance traffic (not replayed by the model: the state is handed over at the export point)

func (g *gRun) keyNum(s string) int {
	if id, ok := g.keyID[s]; ok {
		return id / 8
	}
	if id, ok := g.keyID[strings.TrimSpace(s)]; ok {
		return id / 8
	}
	return -1
}

func (g *gRun) ovmSubmit() {
	kv, _ := g.e.App.OVMKeeper.GetKeyVault(g.e.Ctx)
	in := map[int]bool{}
	var keys []string
	for _, s := range kv.PublicKeys {
		in[g.keyNum(s)] = true
		keys = append(keys, strings.TrimSpace(s))
	}
	// replace one non-leader key by a key that is not registered (the leader, key 0, keeps signing the tickets)
	var free []int
	for k := 1; k < gNKeys; k++ {
		if !in[k] {
			free = append(free, k)
		}
	}
	if len(free) == 0 || len(keys) < 4 {
		return
	}
	_, _, pemStr := detKey(strconv.Itoa(free[g.r.Intn(len(free))]))
	pos := 1 + g.r.Intn(len(keys)-1)
	if g.r.Chance(30) && len(keys) < 5 {
		keys = append(keys, strings.TrimSpace(pemStr))
	} else {
		keys[pos] = strings.TrimSpace(pemStr)
	}
	signer := g.keyNum(kv.PublicKeys[g.r.Intn(len(kv.PublicKeys))])
	tk := g.e.Ticket(signer, map[string]interface{}{"public_keys": keys, "leader_index": 0})
	creator := g.r.Intn(NAcct)
	_ = g.other("ovm.submit", func(e *Env, ctx sdk.Context) error {
		msg := &ovmtypes.MsgSubmitPubkeysChangeProposalRequest{Creator: e.Accts[creator].String(), Ticket: tk}
		if err := msg.ValidateBasic(); err != nil {
			return err
		}
		_, err := ovmkeeper.NewMsgServerImpl(*e.App.OVMKeeper).SubmitPubkeysChangeProposal(sdk.WrapSDKContext(ctx), msg)
		return err
	})
}

func (g *gRun) ovmVote() {
	kv, _ := g.e.App.OVMKeeper.GetKeyVault(g.e.Ctx)
	ps, _ := g.e.App.OVMKeeper.GetAllPubkeysChangeProposalsByStatus(g.e.Ctx, ovmtypes.ProposalStatus_PROPOSAL_STATUS_ACTIVE)
	if len(ps) == 0 || len(kv.PublicKeys) == 0 {
		return
	}
	p := ps[g.r.Intn(len(ps))]
	idx := g.r.Intn(len(kv.PublicKeys))
	signer := g.keyNum(kv.PublicKeys[idx])
	vote := ovmtypes.ProposalVote_PROPOSAL_VOTE_YES
	if g.r.Chance(30) {
		vote = ovmtypes.ProposalVote_PROPOSAL_VOTE_NO
	}
	tk := g.e.Ticket(signer, map[string]interface{}{"proposal_id": p.Id, "vote": vote})
	_ = g.other("ovm.vote", func(e *Env, ctx sdk.Context) error {
		msg := &ovmtypes.MsgVotePubkeysChangeRequest{Creator: e.Accts[0].String(), Ticket: tk, VoterKeyIndex: uint32(idx)}
		if err := msg.ValidateBasic(); err != nil {
			return err
		}
		_, err := ovmkeeper.NewMsgServerImpl(*e.App.OVMKeeper).VotePubkeysChange(sdk.WrapSDKContext(ctx), msg)
		return err
	})
}

// ---------------------------------------------------------------------------------------------
// subaccounts

func (g *gRun) genLocks() []subtypes.LockedBalance {
	n := 1 + g.r.Intn(3)
	var ls []subtypes.LockedBalance
	for i := 0; i < n; i++ {
		ls = append(ls, subtypes.LockedBalance{UnlockTS: uint64(g.now + g.r.Pick([]int64{1, 5, 30, 100, 400, 5000}) + int64(i)), Amount: sdkmath.NewInt(g.r.Pick([]int64{0, 50, 100, 1000, 2500}))})
	}
	return ls
}

func (g *gRun) subCreate() {
	creator, owner := g.r.Intn(NAcct), 1+g.r.Intn(10)
	ls := g.genLocks()
	err := g.other("sub.create", func(e *Env, ctx sdk.Context) error {
		msg := &subtypes.MsgCreate{Creator: e.Accts[creator].String(), Owner: e.Accts[owner].String(), LockedBalances: ls}
		if err := msg.ValidateBasic(); err != nil {
			return err
		}
		_, err := subkeeper.NewMsgServerImpl(*e.App.SubaccountKeeper).Create(sdk.WrapSDKContext(ctx), msg)
		return err
	})
	if err == nil {
		g.subOwners[owner] = true
	}
}

func (g *gRun) pickSubOwner() int {
	var os []int
	for o := range g.subOwners {
		os = append(os, o)
	}
	if len(os) == 0 {
		return 1 + g.r.Intn(10)
	}
	sort.Ints(os)
	return os[g.r.Intn(len(os))]
}

func (g *gRun) subTopUp() {
	creator, owner := g.r.Intn(NAcct), g.pickSubOwner()
	ls := g.genLocks()
	_ = g.other("sub.topup", func(e *Env, ctx sdk.Context) error {
		msg := &subtypes.MsgTopUp{Creator: e.Accts[creator].String(), Address: e.Accts[owner].String(), LockedBalances: ls}
		if err := msg.ValidateBasic(); err != nil {
			return err
		}
		_, err := subkeeper.NewMsgServerImpl(*e.App.SubaccountKeeper).TopUp(sdk.WrapSDKContext(ctx), msg)
		return err
	})
}

func (g *gRun) subWithdraw() {
	owner := g.pickSubOwner()
	_ = g.other("sub.withdraw", func(e *Env, ctx sdk.Context) error {
		_, err := subkeeper.NewMsgServerImpl(*e.App.SubaccountKeeper).WithdrawUnlockedBalances(sdk.WrapSDKContext(ctx), &subtypes.MsgWithdrawUnlockedBalances{Creator: e.Accts[owner].String()})
		return err
	})
}

// subaccount-driven core traffic (only in histories whose core state is not replayed by the model)

func (g *gRun) subWager(m *coreMarket) {
	owner := g.pickSubOwner()
	amount := g.r.Pick([]int64{5, 10, 50, 100, 400})
	sub := g.r.Pick([]int64{amount, amount / 2, 0})
	bn := g.nextBet
	oddsDec := []string{"1.5", "2", "4.2", "10"}[g.r.Intn(4)]
	one := sdkmath.LegacyOneDec()
	var all []*bettypes.BetOddsCompact
	for _, u := range m.odds {
		all = append(all, &bettypes.BetOddsCompact{UID: u, MaxLossMultiplier: one})
	}
	innerTk := g.e.Ticket(0, map[string]interface{}{
		"selected_odds": &bettypes.BetOdds{UID: m.odds[g.r.Intn(len(m.odds))], MarketUID: m.uid, Value: oddsDec, MaxLossMultiplier: one},
		"kyc_data":      subKyc(g.e.Accts[owner]), "all_odds": all,
	})
	inner := bettypes.MsgWager{Creator: g.e.Accts[owner].String(), Props: &bettypes.WagerProps{UID: UID(clsBet, bn), Amount: sdkmath.NewInt(amount), Ticket: innerTk}}
	tk := g.e.Ticket(0, map[string]interface{}{"msg": inner, "mainacc_deduct_amount": sdkmath.NewInt(amount - sub), "subacc_deduct_amount": sdkmath.NewInt(sub)})
	err := g.other("sub.wager", func(e *Env, ctx sdk.Context) error {
		_, err := subkeeper.NewMsgServerImpl(*e.App.SubaccountKeeper).Wager(sdk.WrapSDKContext(ctx), &subtypes.MsgWager{Creator: e.Accts[owner].String(), Ticket: tk})
		return err
	})
	if err == nil {
		g.nextBet++
	}
}

func (g *gRun) subHouseDeposit(m *coreMarket) {
	owner := g.pickSubOwner()
	amt := g.r.Pick([]int64{10, 50, 100, 500})
	tk := g.e.Ticket(0, map[string]interface{}{"kyc_data": subKyc(g.e.Accts[owner])})
	_ = g.other("sub.houseDeposit", func(e *Env, ctx sdk.Context) error {
		inner := &housetypes.MsgDeposit{Creator: e.Accts[owner].String(), MarketUID: m.uid, Amount: sdkmath.NewInt(amt), Ticket: tk}
		msg := &subtypes.MsgHouseDeposit{Msg: inner}
		if err := msg.ValidateBasic(); err != nil {
			return err
		}
		_, err := subkeeper.NewMsgServerImpl(*e.App.SubaccountKeeper).HouseDeposit(sdk.WrapSDKContext(ctx), msg)
		return err
	})
}

func (g *gRun) subHouseWithdraw(m *coreMarket) {
	owner := g.pickSubOwner()
	subAddr, ok := g.e.App.SubaccountKeeper.GetSubaccountByOwner(g.e.Ctx, g.e.Accts[owner])
	if !ok {
		return
	}
	ps, _ := g.e.App.OrderbookKeeper.GetParticipationsOfOrderBook(g.e.Ctx, m.uid)
	idx := uint64(0)
	for _, p := range ps {
		if p.ParticipantAddress == subAddr.String() {
			idx = p.Index
		}
	}
	if idx == 0 {
		return
	}
	mode, amt := housetypes.WithdrawalMode_WITHDRAWAL_MODE_FULL, int64(0)
	if g.r.Chance(50) {
		mode, amt = housetypes.WithdrawalMode_WITHDRAWAL_MODE_PARTIAL, g.r.Pick([]int64{1, 5, 20})
	}
	tk := g.e.Ticket(0, map[string]interface{}{"kyc_data": subKyc(g.e.Accts[owner])})
	_ = g.other("sub.houseWithdraw", func(e *Env, ctx sdk.Context) error {
		inner := &housetypes.MsgWithdraw{Creator: e.Accts[owner].String(), MarketUID: m.uid, ParticipationIndex: idx, Mode: mode, Amount: sdkmath.NewInt(amt), Ticket: tk}
		msg := &subtypes.MsgHouseWithdraw{Msg: inner}
		if err := msg.ValidateBasic(); err != nil {
			return err
		}
		_, err := subkeeper.NewMsgServerImpl(*e.App.SubaccountKeeper).HouseWithdraw(sdk.WrapSDKContext(ctx), msg)
		return err
	})
}

// ---------------------------------------------------------------------------------------------
// rewards

func (g *gRun) rewardPromoter() {
	if g.promoter >= 0 {
		return
	}
	who := 11
	tk := g.e.Ticket(0, map[string]interface{}{"uid": UID(clsPromoter, 1), "conf": rewardtypes.PromoterConf{CategoryCap: []rewardtypes.CategoryCap{{Category: rewardtypes.RewardCategory_REWARD_CATEGORY_SIGNUP, CapPerAcc: 3}}}})
	err := g.other("reward.promoter", func(e *Env, ctx sdk.Context) error {
		msg := &rewardtypes.MsgCreatePromoter{Creator: e.Accts[who].String(), Ticket: tk}
		if err := msg.ValidateBasic(); err != nil {
			return err
		}
		_, err := rewardkeeper.NewMsgServerImpl(*e.App.RewardKeeper).CreatePromoter(sdk.WrapSDKContext(ctx), msg)
		return err
	})
	if err == nil {
		g.promoter = who
	}
}

// rewardPromoterAgain: the promoter's address registers one more promoter, under another uid
func (g *gRun) rewardPromoterAgain(n int) {
	who := 11
	tk := g.e.Ticket(0, map[string]interface{}{"uid": UID(clsPromoter, n), "conf": rewardtypes.PromoterConf{CategoryCap: []rewardtypes.CategoryCap{{Category: rewardtypes.RewardCategory_REWARD_CATEGORY_SIGNUP, CapPerAcc: 3}}}})
	_ = g.other("reward.promoter.again", func(e *Env, ctx sdk.Context) error {
		msg := &rewardtypes.MsgCreatePromoter{Creator: e.Accts[who].String(), Ticket: tk}
		if err := msg.ValidateBasic(); err != nil {
			return err
		}
		_, err := rewardkeeper.NewMsgServerImpl(*e.App.RewardKeeper).CreatePromoter(sdk.WrapSDKContext(ctx), msg)
		return err
	})
}

func (g *gRun) rewardCampaign() {
	if g.promoter < 0 {
		g.rewardPromoter()
		if g.promoter < 0 {
			return
		}
	}
	g.nCamp++
	uid := UID(clsCampaign, g.nCamp)
	capCount := uint64(g.r.Pick([]int64{0, 0, 1, 2, 3}))
	if g.forceCap > 0 {
		capCount = g.forceCap
	}
	tk := g.e.Ticket(0, map[string]interface{}{
		"promoter": g.e.Accts[g.promoter].String(), "start_ts": uint64(g.now - 5), "end_ts": uint64(g.now + 100_000),
		"category": rewardtypes.RewardCategory_REWARD_CATEGORY_SIGNUP, "reward_type": rewardtypes.RewardType_REWARD_TYPE_SIGNUP,
		"reward_amount_type": rewardtypes.RewardAmountType_REWARD_AMOUNT_TYPE_FIXED,
		"reward_amount":      rewardtypes.RewardAmount{SubaccountAmount: sdkmath.NewInt(g.r.Pick([]int64{50, 100, 300})), UnlockPeriod: uint64(g.r.Pick([]int64{10, 100, 1000}))},
		"is_active":          true, "meta": "c", "cap_count": capCount,
	})
	funds := g.r.Pick([]int64{500, 1000, 5000})
	err := g.other("reward.campaign", func(e *Env, ctx sdk.Context) error {
		msg := &rewardtypes.MsgCreateCampaign{Creator: e.Accts[g.promoter].String(), Uid: uid, Ticket: tk, TotalFunds: sdkmath.NewInt(funds)}
		if err := msg.ValidateBasic(); err != nil {
			return err
		}
		_, err := rewardkeeper.NewMsgServerImpl(*e.App.RewardKeeper).CreateCampaign(sdk.WrapSDKContext(ctx), msg)
		return err
	})
	if err == nil {
		g.campaigns = append(g.campaigns, uid)
	}
}

func (g *gRun) rewardGrant() {
	if len(g.campaigns) == 0 {
		g.rewardCampaign()
		if len(g.campaigns) == 0 {
			return
		}
	}
	camp := g.campaigns[g.r.Intn(len(g.campaigns))]
	recv := 1 + g.r.Intn(10)
	if g.r.Chance(60) {
		recv = 1 + g.r.Intn(2) // the same few accounts collect several rewards of a campaign (per-account caps)
	}
	if g.forceRecv > 0 {
		recv = g.forceRecv
	}
	g.nRewards++
	uid := UID(clsReward, g.nRewards)
	tk := g.e.Ticket(0, map[string]interface{}{"common": map[string]interface{}{"receiver": g.e.Accts[recv].String(), "source_uid": "", "meta": "r",
		"kyc_data": map[string]interface{}{"ignore": false, "approved": true, "id": g.e.Accts[recv].String()}}})
	err := g.other("reward.grant", func(e *Env, ctx sdk.Context) error {
		msg := &rewardtypes.MsgGrantReward{Creator: e.Accts[g.promoter].String(), Uid: uid, CampaignUid: camp, Ticket: tk}
		if err := msg.ValidateBasic(); err != nil {
			return err
		}
		_, err := rewardkeeper.NewMsgServerImpl(*e.App.RewardKeeper).GrantReward(sdk.WrapSDKContext(ctx), msg)
		return err
	})
	if err == nil {
		g.subOwners[recv] = true
	}
}

// ---------------------------------------------------------------------------------------------
// canonical state of the modules that the Lean side does not replay (same line formats as lean/Driver/Genesis.lean)

func hashNat(bz []byte) uint64 {
	h := sha256.Sum256(bz)
	return binary.BigEndian.Uint64(h[:8]) >> 11 // 53 bits: exact in every reader
}

func (g *gRun) acctOf(s string) int {
	if v, ok := g.ix.addr[s]; ok {
		return v
	}
	// subaccount addresses
	n := g.e.App.SubaccountKeeper.Peek(g.e.Ctx)
	for id := uint64(1); id <= n+1; id++ {
		if subtypes.NewAddressFromSubaccount(id).String() == s {
			return subBase + int(id)
		}
	}
	return 999999
}

func (g *gRun) otherState(e *Env) []string {
	var out []string
	add := func(f string, a ...interface{}) { out = append(out, fmt.Sprintf(f, a...)) }
	ctx := e.Ctx
	ids := func(ss []string) string {
		var sb strings.Builder
		for _, s := range ss {
			id, ok := g.keyID[s]
			if !ok {
				id = 7 // a string that does not parse (never expected)
			}
			fmt.Fprintf(&sb, " %d", id)
		}
		return sb.String()
	}
	// ---- ovm
	kv, _ := e.App.OVMKeeper.GetKeyVault(ctx)
	add("ov%s", ids(kv.PublicKeys))
	add("oc %d", e.App.OVMKeeper.GetProposalStats(ctx).PubkeysChangeCount)
	ps, _ := e.App.OVMKeeper.GetAllPubkeysChangeProposals(ctx)
	for _, p := range ps {
		tag := "a"
		if p.Status == ovmtypes.ProposalStatus_PROPOSAL_STATUS_FINISHED {
			tag = "f"
		} else if p.Status != ovmtypes.ProposalStatus_PROPOSAL_STATUS_ACTIVE {
			tag = "?"
		}
		var ws strings.Builder
		for _, v := range p.Votes {
			fmt.Fprintf(&ws, " %d:%d", g.keyID[v.PublicKey], int32(v.Vote))
		}
		add("op %s %d %d %d %d %d %d k%s w%s", tag, p.Id, g.ix.A(p.Creator), p.StartTS, p.FinishTS, int32(p.Result), p.Modifications.LeaderIndex,
			ids(p.Modifications.PublicKeys), ws.String())
	}
	// ---- subaccount (raw stores)
	sk := ctx.KVStore(e.App.GetKey(subtypes.StoreKey))
	idb := sk.Get(subtypes.SubaccountIDPrefix)
	if idb == nil {
		add("sn 1") // Keeper.Peek: an absent counter reads as 1
	} else {
		add("sn %d", sdk.BigEndianToUint64(idb))
	}
	sp := e.App.SubaccountKeeper.GetParams(ctx)
	add("sp %d %d", b2i(sp.WagerEnabled), b2i(sp.DepositEnabled))
	var subLines []string
	{
		it := sdk.KVStorePrefixIterator(sk, subtypes.SubaccountOwnerPrefix)
		for ; it.Valid(); it.Next() {
			subLines = append(subLines, fmt.Sprintf("so %d %d", g.acctOf(sdk.AccAddress(it.Key()[1:]).String()), g.acctOf(sdk.AccAddress(it.Value()).String())))
		}
		it.Close()
		it = sdk.KVStorePrefixIterator(sk, subtypes.SubaccountOwnerReversePrefix)
		for ; it.Valid(); it.Next() {
			subLines = append(subLines, fmt.Sprintf("sr %d %d", g.acctOf(sdk.AccAddress(it.Key()[1:]).String()), g.acctOf(sdk.AccAddress(it.Value()).String())))
		}
		it.Close()
		it = sdk.KVStorePrefixIterator(sk, subtypes.AccountSummaryPrefix)
		for ; it.Valid(); it.Next() {
			var s subtypes.AccountSummary
			e.App.AppCodec().MustUnmarshal(it.Value(), &s)
			subLines = append(subLines, fmt.Sprintf("ss %d %s %s %s %s", g.acctOf(sdk.AccAddress(it.Key()[1:]).String()), intStr(s.DepositedAmount), intStr(s.SpentAmount), intStr(s.WithdrawnAmount), intStr(s.LostAmount)))
		}
		it.Close()
		it = sdk.KVStorePrefixIterator(sk, subtypes.LockedBalancePrefix)
		for ; it.Valid(); it.Next() {
			k := it.Key()[1:]
			alen := int(k[0])
			addr := sdk.AccAddress(k[1 : 1+alen])
			ts := binary.BigEndian.Uint64(k[1+alen:])
			amt := new(sdkmath.Int)
			must(amt.Unmarshal(it.Value()))
			subLines = append(subLines, fmt.Sprintf("sl %d %d %s", g.acctOf(addr.String()), ts, amt))
		}
		it.Close()
	}
	sort.Slice(subLines, func(i, j int) bool { return lessNumLine(subLines[i], subLines[j]) })
	out = append(out, subLines...)
	// ---- mint
	mn := e.App.MintKeeper.GetMinter(ctx)
	add("mm %s %d %s %s", decRaw(mn.Inflation), mn.PhaseStep, decRaw(mn.PhaseProvisions), decRaw(mn.TruncatedTokens))
	mp := e.App.MintKeeper.GetParams(ctx)
	var ph strings.Builder
	for _, p := range mp.Phases {
		fmt.Fprintf(&ph, " %s %s", decRaw(p.Inflation), decRaw(p.YearCoefficient))
	}
	add("mp %d %s %d%s", mp.BlocksPerYear, intStr(mp.ExcludeAmount), len(mp.Phases), ph.String())
	// ---- reward (raw stores; the opaque part of every record is a 53-bit digest of its bytes)
	rk := ctx.KVStore(e.App.GetKey(rewardtypes.StoreKey))
	each := func(pfx []byte, f func(k, v []byte)) {
		it := sdk.KVStorePrefixIterator(rk, pfx)
		for ; it.Valid(); it.Next() {
			f(it.Key()[len(pfx):], it.Value())
		}
		it.Close()
	}
	cdc := e.App.AppCodec()
	each(rewardtypes.PromoterKeyPrefix, func(k, v []byte) {
		var p rewardtypes.Promoter
		cdc.MustUnmarshal(v, &p)
		add("rp %d %d", uidN(p.UID), hashNat(v))
	})
	each(rewardtypes.PromoterAddressKeyPrefix, func(k, v []byte) {
		var p rewardtypes.PromoterByAddress
		cdc.MustUnmarshal(v, &p)
		add("ra %d %d", g.ix.A(p.Address), uidN(p.PromoterUID))
	})
	each(rewardtypes.CampaignKeyPrefix, func(k, v []byte) {
		var c rewardtypes.Campaign
		cdc.MustUnmarshal(v, &c)
		add("rc %d %d %d %d", uidN(c.UID), g.ix.A(c.Promoter), c.CapCount, hashNat(v))
	})
	each(rewardtypes.RewardKeyPrefix, func(k, v []byte) {
		var r rewardtypes.Reward
		cdc.MustUnmarshal(v, &r)
		add("rr %d %d %d %d", uidN(r.UID), uidN(r.CampaignUID), g.ix.A(r.Receiver), hashNat(v))
	})
	each(rewardtypes.RewardByReceiverAndCategoryKeyPrefix, func(k, v []byte) {
		var r rewardtypes.RewardByCategory
		cdc.MustUnmarshal(v, &r)
		// key = promoter uid ++ receiver address ++ category ++ reward uid
		add("rg %d %d %d %d", uidN(string(k[:36])), g.ix.A(r.Addr), int32(r.RewardCategory), uidN(r.UID))
	})
	each(rewardtypes.RewardByCampaignKeyPrefix, func(k, v []byte) {
		var r rewardtypes.RewardByCampaign
		cdc.MustUnmarshal(v, &r)
		add("rm %d %d", uidN(r.CampaignUID), uidN(r.UID))
	})
	each(rewardtypes.RewardGrantStatKeyPrefix, func(k, v []byte) {
		add("rs %d %d %d", uidN(string(k[:36])), g.ix.A(string(k[36:])), binary.BigEndian.Uint64(v))
	})
	return out
}

// lessNumLine orders "tag n1 n2 …" lines by tag, then numerically field by field
func lessNumLine(a, b string) bool {
	fa, fb := strings.Fields(a), strings.Fields(b)
	if fa[0] != fb[0] {
		return fa[0] < fb[0]
	}
	for i := 1; i < len(fa) && i < len(fb); i++ {
		x, ex := strconv.ParseInt(fa[i], 10, 64)
		y, ey := strconv.ParseInt(fb[i], 10, 64)
		if ex != nil || ey != nil {
			if fa[i] != fb[i] {
				return fa[i] < fb[i]
			}
			continue
		}
		if x != y {
			return x < y
		}
	}
	return len(fa) < len(fb)
}

// ---------------------------------------------------------------------------------------------
// the export point

var coreModule = map[string]bool{"bet": true, "market": true, "orderbook": true, "house": true}

var validateCodes = map[string]int{
	"house/withdrawal-deposit-not-found":                           1,
	"orderbook/participation-book":                                 1,
	"orderbook/participation-exposure-of-every-odds-in-every-book": 2,
	"orderbook/odds-count":                                         3,
	"orderbook/exposure-by-index-without-exposure":                 4,
	"orderbook/exposure-without-by-index":                          5,
	"orderbook/historical-exposure-without-current-exposure":       6,
	"orderbook/bet-pair-book":                                      7,
	"bet/stats-count":                                              1,
	"bet/pending-plus-settled-count":                               2,
	"bet/duplicated-uid-for-bet":                                   3,
	"bet/missing-bet-id":                                           4,
	"bet/settled-height-zero":                                      5,
	"bet/pending-height-not-zero":                                  6,
	"bet/settled-list-height-zero":                                 7,
	"bet/neither-pending-nor-settled":                              8,
}

func (g *gRun) exportPoint() {
	g.nPoints++
	point := g.nPoints
	pre := g.otherState(g.e)
	// the forks close their block too
	for _, f := range g.forks {
		if !f.dead {
			f.e.commitAndBegin()
		}
	}
	o := g.e.ExportImport()
	g.out.Count("export.points")
	g.out.CountN("export.header_context.modules", o.HdrChecked)
	for _, m := range o.HdrDiffers {
		g.out.Count("export.header_context.differs." + m)
	}
	for _, l := range pre {
		g.out.Op("L %s", l)
	}
	g.out.Op("XI %d", b2i(g.lean))
	if o.ExportErr != "" {
		g.failOnce("import_no_panic", "export/"+trunc(o.ExportErr, 60), o.ExportErr)
		g.out.Impl("x export-failed")
		return
	}
	for _, m := range genesisModules {
		code := 0
		if v := o.Validate[m]; v != "" {
			cls := validateClass(m, v)
			g.failOnce("export_validates", cls, fmt.Sprintf("export point %d (height %d): %s genesis of the exported state fails its own Validate(): %s", point, g.height, m, trunc(v, 300)))
			g.out.Count("validate.fail." + m)
			code = validateCodes[cls]
			if code == 0 {
				code = 99
			}
		}
		if g.lean || !coreModule[m] {
			g.out.Impl("xv %s %d", m, code)
		}
	}
	if o.WholePanic != "" {
		g.failOnce("import_no_panic", "app/"+trunc(o.WholePanic, 60), "InitChain from the exported state panicked: "+trunc(o.WholePanic, 400))
		g.out.Impl("x import-failed")
		return
	}
	bad := map[string]bool{}
	for _, m := range o.PanicMod {
		bad[m] = true
		g.failOnce("import_no_panic", m+"/"+panicClass(o.PanicText[m]), fmt.Sprintf("export point %d: InitGenesis of %s panicked on the module's own export: %s", point, m, trunc(o.PanicText[m], 300)))
		g.out.Count("import.panic." + m)
	}
	for _, m := range genesisModules {
		if g.lean || !coreModule[m] {
			g.out.Impl("xi %s %d", m, b2i(!bad[m]))
		}
	}
	for _, m := range genesisModules {
		if bad[m] {
			continue
		}
		if d, ok := o.Diff[m]; ok {
			g.failOnce("import_equals", m+"/"+d[0]+"/"+d[1], fmt.Sprintf("export point %d: store of %s differs after export + import: %s", point, m, d[2]))
			g.out.Count("import.diff." + m)
			if m == "orderbook" && strings.Contains(d[0], "participation-exposure-by-index") {
				// C10 "the two indexes of per-outcome exposures always contain the same entries": also after a restart
				g.out.Fail(MonFail{Property: "C10", Monitor: "index_equal_after_restart", Class: "by-index/" + d[1], History: g.h,
					Detail: fmt.Sprintf("export point %d: the by-index exposure store differs after export + import: %s", point, d[2])})
			}
			if m == "reward" && strings.Contains(d[0], "grant-stats") {
				// C12 "never beyond the per-account cap": the cap counters are part of what a restarted chain must hold
				g.out.Fail(MonFail{Property: "C12", Monitor: "caps_survive_restart", Class: "grant-stats/" + d[1], History: g.h,
					Detail: fmt.Sprintf("export point %d: the per-account grant counters of capped campaigns differ after export + import: %s", point, d[2])})
			}
		}
	}
	// the invariants assumed by the C16 theorems hold of the model state (evaluated by the Lean driver)
	if g.lean {
		g.out.Impl("inv 1 1 1 1 1 1 1")
	} else {
		g.out.Impl("inv 1 1 1")
	}
	// canonical state of the restarted chain = what the model's import (export σ) must print
	if g.lean {
		for _, l := range dumpCore(o.New, g.ix).lines {
			g.out.Impl("%s", l)
		}
	}
	for _, l := range g.otherState(o.New) {
		g.out.Impl("%s", l)
	}
	o.New.beginNext()
	// the restarted chain continues the history, unless it already differs from the original at the export point
	if len(o.PanicMod) == 0 && len(o.Diff) == 0 {
		g.forks = append(g.forks, &gFork{e: o.New, point: point})
	}
}

func panicClass(t string) string {
	switch {
	case strings.Contains(t, "promoter is not valid"):
		return "promoter-not-exported"
	case strings.Contains(t, "campaign is not valid"):
		return "campaign-missing"
	case strings.Contains(t, "reward is not valid"):
		return "reward-missing"
	case strings.Contains(t, "participation bet pair list not found"):
		return "bet-id-missing"
	}
	return trunc(strings.ReplaceAll(t, " ", "-"), 50)
}

// finish compares every fork with the original chain: custom-module stores and all bank balances.
func (g *gRun) finish() {
	for _, f := range g.forks {
		if f.dead {
			continue
		}
		g.out.Count("continue.compared")
		for _, m := range genesisModules {
			if p, k, d := storeDiff(m, storeDump(g.e, m), storeDump(f.e, m)); p != "" {
				g.failOnce("continue_equal", m+"/"+p+"/"+k, fmt.Sprintf("restart at export point %d, then the same transactions: store of %s differs at the end: %s", f.point, m, d))
			}
		}
		if d := firstLineDiff(allBalances(g.e), allBalances(f.e)); d != "" {
			g.failOnce("continue_equal", "bank/balance", fmt.Sprintf("restart at export point %d, then the same transactions: balances differ at the end: %s", f.point, d))
		}
	}
}

// ---------------------------------------------------------------------------------------------
// probes: which genesis code does /repo contain (selects the model variant)

func genesisProbe() gCfg {
	c := gCfg{}
	// house: a withdrawal of a delegated deposit (creator != depositor) validates
	hg := housetypes.GenesisState{Params: housetypes.DefaultParams(),
		DepositList:    []housetypes.Deposit{{Creator: detAddr(1).String(), DepositorAddress: detAddr(2).String(), MarketUID: "m", ParticipationIndex: 1, Amount: sdkmath.NewInt(10), TotalWithdrawalAmount: sdkmath.ZeroInt()}},
		WithdrawalList: []housetypes.Withdrawal{{Creator: detAddr(1).String(), Address: detAddr(2).String(), MarketUID: "m", ParticipationIndex: 1, ID: 1, Amount: sdkmath.NewInt(1)}}}
	c.houseFixed = hg.Validate() == nil
	// orderbook: a book without participations next to a book with one validates
	c.obFixed = obProbeGenesis().Validate() == nil
	// reward: ExportGenesis returns the promoters
	e := NewEnv(1, 4)
	e.App.RewardKeeper.SetPromoter(e.Ctx, rewardtypes.Promoter{Creator: detAddr(1).String(), UID: UID(clsPromoter, 1), Addresses: []string{detAddr(1).String()}})
	func() {
		defer func() { _ = recover() }()
		c.rewardFixed = len(reward.ExportGenesis(e.Ctx, *e.App.RewardKeeper).PromoterList) == 1
	}()
	// ovm: genesis validation rejects one key in two encodings
	_, _, k0 := detKey("0")
	_, _, k1 := detKey("1")
	_, _, k2 := detKey("2")
	og := ovmtypes.GenesisState{KeyVault: ovmtypes.KeyVault{PublicKeys: []string{k0, strings.TrimSpace(k0), k1, k2}}, Params: ovmtypes.DefaultParams()}
	c.ovmFixed = og.Validate() != nil
	return c
}

// obProbeGenesis: book A with one participation, book B without any (both with two outcomes)
func obProbeGenesis() obtypes.GenesisState {
	z := sdkmath.ZeroInt()
	pe := func(o string) obtypes.ParticipationExposure {
		return obtypes.ParticipationExposure{OrderBookUID: "A", OddsUID: o, ParticipationIndex: 1, Exposure: z, BetAmount: z, Round: 1}
	}
	gs := *obtypes.DefaultGenesis()
	gs.OrderBookList = []obtypes.OrderBook{{UID: "A", ParticipationCount: 1, OddsCount: 2, Status: obtypes.OrderBookStatus_ORDER_BOOK_STATUS_STATUS_ACTIVE},
		{UID: "B", ParticipationCount: 0, OddsCount: 2, Status: obtypes.OrderBookStatus_ORDER_BOOK_STATUS_STATUS_ACTIVE}}
	gs.OrderBookParticipationList = []obtypes.OrderBookParticipation{{Index: 1, OrderBookUID: "A", ParticipantAddress: detAddr(1).String(), Liquidity: z, Fee: z,
		CurrentRoundLiquidity: z, TotalBetAmount: z, CurrentRoundTotalBetAmount: z, MaxLoss: z, CurrentRoundMaxLoss: z, ActualProfit: z, ReturnedAmount: z, ReimbursedFee: z}}
	gs.OrderBookExposureList = []obtypes.OrderBookOddsExposure{{OrderBookUID: "A", OddsUID: "a1"}, {OrderBookUID: "A", OddsUID: "a2"},
		{OrderBookUID: "B", OddsUID: "b1"}, {OrderBookUID: "B", OddsUID: "b2"}}
	gs.ParticipationExposureList = []obtypes.ParticipationExposure{pe("a1"), pe("a2")}
	gs.ParticipationExposureByIndexList = []obtypes.ParticipationExposure{pe("a1"), pe("a2")}
	return gs
}

// ---------------------------------------------------------------------------------------------

func runGenesis(seed uint64, n int, out *Out) {
	cfg := genesisProbe()
	every := os.Getenv("VERIF_GENESIS_ALL") == "1"
	maxOps := int(envInt("VERIF_GENESIS_OPS", 45))
	for h := 0; h < n; h++ {
		if skipHist(h) {
			continue
		}
		r := NewRng(seed*1_000_003 + uint64(h))
		r = &Rng{s: r.U64() ^ 0x6e5e515c16}
		lean := h%4 != 3       // every fourth history carries subaccount-driven core traffic (core state not replayed)
		withReward := h%3 == 0 // a third of the histories carry reward traffic
		g := newGRun(out, h, r, lean, cfg)
		g.setParams(uint32(r.Pick([]int64{1, 2, 1000})), 2, r.Pick([]int64{0, 1}), r.Pick([]int64{2, 10, 100}),
			[]string{"0", "0.1", "0.05"}[r.Intn(3)], uint64(r.Range(1, 3)), 100, uint64(r.Pick([]int64{1, 2, 100})), uint64(r.Pick([]int64{0, 1, 5, 1000})))
		g.marketAdd(2 + r.Intn(2))
		nOps := 15 + r.Intn(maxOps)
		sinceExport := 0
		for i := 0; i < nOps && !g.halted; i++ {
			if i > 4 && r.Chance(4) {
				g.changeParams()
				continue
			}
			x := r.Intn(100)
			var m *coreMarket
			var live []*coreMarket
			for _, mm := range g.markets {
				if !mm.resolved {
					live = append(live, mm)
				}
			}
			if len(live) > 0 {
				m = live[r.Intn(len(live))]
			}
			if m != nil && len(g.markets) > 1 && r.Chance(4) {
				m = g.markets[r.Intn(len(g.markets))] // rarely: an operation on a resolved market
			}
			if len(g.subOwners) == 0 && x >= 84 && x < 94 {
				x = 83 // the first subaccount operation creates one
			}
			switch {
			case m == nil || (x < 6 && len(g.markets) < 6):
				g.marketAdd(2 + r.Intn(2))
			case x < 26:
				creator := 1 + r.Intn(5)
				pd := 0
				if r.Chance(35) {
					pd = 1 + r.Intn(5)
				}
				amount := r.Pick([]int64{100, 101, 250, 500, 1000, 2500})
				if pd != 0 && pd != creator && r.Chance(90) {
					g.grant(pd, creator, 0, amount+r.Pick([]int64{0, 0, 100, 1000}))
				}
				g.deposit(m, creator, pd, amount)
			case x < 36:
				ps, _ := g.e.App.OrderbookKeeper.GetParticipationsOfOrderBook(g.e.Ctx, m.uid)
				if len(ps) == 0 {
					break
				}
				p := ps[r.Intn(len(ps))]
				w := g.ix.A(p.ParticipantAddress)
				if w >= NAcct {
					break
				}
				creator, pd := w, 0
				if r.Chance(35) {
					creator, pd = 1+r.Intn(5), w
				}
				mode := int(r.Pick([]int64{1, 2, 2}))
				amount := r.Pick([]int64{1, 5, 10, 45, 90, 100})
				if pd != 0 && pd != creator && r.Chance(90) {
					g.grant(pd, creator, 1, 100)
				}
				g.withdraw(m, creator, pd, p.Index, mode, amount)
			case !lean && x >= 50 && x < 62 && len(g.subOwners) > 0:
				switch r.Intn(4) {
				case 0:
					g.subHouseDeposit(m)
				case 1:
					g.subHouseWithdraw(m)
				default:
					g.subWager(m)
				}
			case x < 62:
				odds := []string{"1.5", "2", "1.000000000000000610", "3.25", "10", "1.07"}[r.Intn(6)]
				amount := r.Pick([]int64{2, 3, 5, 10, 22, 50, 51, 100, 492})
				g.wager(m, 6+r.Intn(5), r.Intn(len(m.odds)), odds, amount)
			case x < 68:
				status := int(r.Pick([]int64{5, 5, 5, 3, 4}))
				g.resolve(m, status, r.Intn(len(m.odds)))
			case x < 73:
				g.ovmSubmit()
			case x < 80:
				g.ovmVote()
			case x < 84:
				g.subCreate()
			case x < 86:
				g.subTopUp()
			case x < 88:
				g.subWithdraw()
			case x < 92:
				if !lean {
					switch r.Intn(3) {
					case 0:
						g.subHouseDeposit(m)
					case 1:
						g.subHouseWithdraw(m)
					default:
						g.subWager(m)
					}
				} else if withReward {
					g.rewardGrant()
				}
			case x < 94:
				if withReward {
					if r.Chance(40) {
						g.rewardCampaign()
					} else {
						g.rewardGrant()
					}
				} else if !lean {
					g.subWager(m)
				}
			default:
				sinceExport++
				export := every || r.Chance(35)
				if export {
					sinceExport = 0
				}
				g.endBlock(export, r.Pick([]int64{1, 5, 5, 30, 200}))
			}
		}
		// one export point at the latest here, then run to complete settlement on all chains
		if !g.halted {
			for _, m := range g.markets {
				if !m.resolved && r.Chance(70) {
					g.resolve(m, int(r.Pick([]int64{5, 5, 3})), 0)
				}
			}
			g.endBlock(true, 5)
			for i := 0; i < 6 && !g.halted; i++ {
				g.endBlock(every, 5)
			}
		}
		g.finish()
	}
}

// ---------------------------------------------------------------------------------------------
// scripted histories: the minimal reproduction of every C16 finding (so that each is re-observed on every run) and two
// plain histories on which every check passes

func runGenesisScripted(_ uint64, _ int, out *Out) {
	cfg := genesisProbe()
	mk := func(h int, lean bool) *gRun {
		g := newGRun(out, h, NewRng(uint64(h)+77), lean, cfg)
		g.setParams(1000, 2, 1, 10, "0.1", 3, 100, 100, 0)
		return g
	}
	scripts := []func(h int){
		// 0: house — delegated deposit (creator 1 on behalf of 2), then the depositor withdraws: validation looks for a
		//    deposit whose *creator* is the withdrawal address
		func(h int) {
			g := mk(h, true)
			m := g.marketAdd(2)
			g.grant(2, 1, 0, 1000)
			g.deposit(m, 1, 2, 500)
			g.withdraw(m, 2, 0, 1, 2, 50)
			g.endBlock(true, 5)
			g.wager(m, 6, 0, "2", 100)
			g.endBlock(false, 5)
			g.finish()
		},
		// 1: orderbook — one market, nobody has deposited yet
		func(h int) {
			g := mk(h, true)
			m := g.marketAdd(2)
			g.endBlock(true, 5)
			g.deposit(m, 1, 0, 500)
			g.wager(m, 6, 0, "2", 100)
			g.endBlock(false, 5)
			g.finish()
		},
		// 2: orderbook — two markets, each with one deposit
		func(h int) {
			g := mk(h, true)
			m1 := g.marketAdd(2)
			m2 := g.marketAdd(2)
			g.deposit(m1, 1, 0, 500)
			g.deposit(m2, 2, 0, 500)
			g.endBlock(true, 5)
			g.wager(m1, 6, 0, "2", 100)
			g.wager(m2, 7, 1, "3", 50)
			g.endBlock(false, 5)
			g.finish()
		},
		// 3: reward — one promoter, one campaign, one granted reward
		func(h int) {
			g := mk(h, true)
			g.marketAdd(2)
			g.rewardPromoter()
			g.rewardCampaign()
			g.rewardGrant()
			g.endBlock(true, 5)
			g.rewardGrant()
			g.endBlock(false, 5)
			g.finish()
		},
		// 6 (appended below): reward — promoter and campaign, nothing granted yet: the import succeeds, the promoter is gone
		// 4: everything valid — one market with own deposits, pending and settled bets, a withdrawal by the depositor who
		//    is also the creator; export before and after the settlement
		func(h int) {
			g := mk(h, true)
			m := g.marketAdd(3)
			g.deposit(m, 1, 0, 1000)
			g.deposit(m, 2, 0, 500)
			g.withdraw(m, 2, 0, 2, 2, 40)
			g.wager(m, 6, 0, "2.5", 100)
			g.wager(m, 7, 1, "3", 150)
			g.endBlock(true, 5)
			g.wager(m, 8, 2, "1.2", 300)
			g.resolve(m, 5, 1)
			g.endBlock(true, 5)
			g.endBlock(true, 5)
			g.endBlock(false, 5)
			g.finish()
		},
		// 5: subaccounts, key governance and a delegated deposit without withdrawal
		func(h int) {
			g := mk(h, true)
			m := g.marketAdd(2)
			g.grant(3, 1, 0, 1000)
			g.deposit(m, 1, 3, 400)
			g.subCreate()
			g.subCreate()
			g.subTopUp()
			g.ovmSubmit()
			g.ovmVote()
			g.ovmVote()
			g.endBlock(true, 50)
			g.ovmVote()
			g.ovmVote()
			g.subWithdraw()
			g.endBlock(true, 500)
			g.subWithdraw()
			g.endBlock(false, 5)
			g.finish()
		},
	}
	scripts = append(scripts, func(h int) {
		g := mk(h, true)
		g.marketAdd(2)
		g.deposit(g.markets[0], 1, 0, 500)
		g.rewardPromoter()
		g.rewardCampaign()
		g.endBlock(true, 5)
		g.endBlock(false, 5)
		g.finish()
	})
	// 7: reward — the promoter's address registers a second promoter uid after a reward was granted: the by-address
	//    record is overwritten and the by-category index of the old reward can no longer be rebuilt under its promoter
	scripts = append(scripts, func(h int) {
		g := mk(h, true)
		g.marketAdd(2)
		g.rewardPromoter()
		g.rewardCampaign()
		g.rewardGrant()
		g.rewardPromoterAgain(2)
		g.endBlock(true, 5)
		g.rewardGrant()
		g.endBlock(false, 5)
		g.finish()
	})
	// 8: reward — a campaign capped at two grants per account; one account collects two rewards in two blocks and is
	//    refused a third; export + restart; the restarted chain must refuse it as well (the counters are rebuilt)
	scripts = append(scripts, func(h int) {
		g := mk(h, true)
		g.marketAdd(2)
		g.rewardPromoter()
		g.forceCap, g.forceRecv = 2, 3
		g.rewardCampaign()
		g.rewardGrant()
		g.endBlock(false, 5)
		g.rewardGrant()
		g.endBlock(false, 5)
		g.rewardGrant()
		g.endBlock(true, 5)
		g.rewardGrant()
		g.forceRecv = 4
		g.rewardGrant()
		g.endBlock(false, 5)
		g.finish()
	})
	for h, f := range scripts {
		if skipHist(h) {
			continue
		}
		f(h)
	}
}
