package harness

import (
	"fmt"
	"math/big"
	"sort"
	"strconv"
	"strings"
	"time"

	sdkmath "cosmossdk.io/math"
	"github.com/cosmos/cosmos-sdk/store/prefix"
	sdk "github.com/cosmos/cosmos-sdk/types"
	authtypes "github.com/cosmos/cosmos-sdk/x/auth/types"
	"github.com/cosmos/cosmos-sdk/x/authz"
	bankkeeper "github.com/cosmos/cosmos-sdk/x/bank/keeper"
	banktypes "github.com/cosmos/cosmos-sdk/x/bank/types"

	"github.com/sge-network/sge/app/params"
	"github.com/sge-network/sge/utils"
	"github.com/sge-network/sge/x/bet"
	betkeeper "github.com/sge-network/sge/x/bet/keeper"
	bettypes "github.com/sge-network/sge/x/bet/types"
	housekeeper "github.com/sge-network/sge/x/house/keeper"
	housetypes "github.com/sge-network/sge/x/house/types"
	marketkeeper "github.com/sge-network/sge/x/market/keeper"
	markettypes "github.com/sge-network/sge/x/market/types"
	"github.com/sge-network/sge/x/orderbook"
	obtypes "github.com/sge-network/sge/x/orderbook/types"
)

func init() { suites["core"] = runCore }

// ---------------------------------------------------------------------------------------------
// identifier mapping between the implementation (bech32 / UUID strings) and the model (numbers)

const (
	clsMarket = 0x01
	clsOdds   = 0x02
	clsBet    = 0x03
)

type coreIx struct {
	e    *Env
	addr map[string]int
}

func newCoreIx(e *Env) *coreIx {
	ix := &coreIx{e: e, addr: map[string]int{}}
	for i, a := range e.Accts {
		ix.addr[a.String()] = i
	}
	ix.addr[e.App.AccountKeeper.GetModuleAddress(obtypes.OrderBookLiquidityFunder{}.GetModuleAcc()).String()] = 1000001
	ix.addr[e.App.AccountKeeper.GetModuleAddress(bettypes.BetFeeCollectorFunder{}.GetModuleAcc()).String()] = 1000002
	ix.addr[e.App.AccountKeeper.GetModuleAddress(housetypes.HouseFeeCollectorFunder{}.GetModuleAcc()).String()] = 1000003
	return ix
}
func (ix *coreIx) A(s string) int {
	if v, ok := ix.addr[s]; ok {
		return v
	}
	return 999999
}

// uidN recovers n from UID(class, n); "" maps to 0.
func uidN(s string) uint64 {
	if s == "" {
		return 0
	}
	n, err := strconv.ParseUint(s[len(s)-12:], 16, 64)
	if err != nil {
		return 888888
	}
	return n
}
func uidList(ss []string) string {
	xs := make([]uint64, len(ss))
	for i, s := range ss {
		xs[i] = uidN(s)
	}
	return joinU64(xs)
}

// ---------------------------------------------------------------------------------------------
// canonical dump of the complete core state (same line format as lean/Driver/Core.lean `dump`)

type coreDump struct {
	lines []string
	// parsed records for the monitors
	markets []markettypes.Market
	books   []obtypes.OrderBook
	parts   []obtypes.OrderBookParticipation
	pexps   []obtypes.ParticipationExposure
	hist    []obtypes.ParticipationExposure
	queues  []obtypes.OrderBookOddsExposure
	bets    []bettypes.Bet
	pool    sdkmath.Int
	betFee  sdkmath.Int
	hFee    sdkmath.Int
	indexEq bool
	// settled index: bet uid -> the heights it is listed under
	settledAt map[string][]int64
}

func dumpCore(e *Env, ix *coreIx) *coreDump {
	d := &coreDump{}
	add := func(f string, a ...interface{}) { d.lines = append(d.lines, fmt.Sprintf(f, a...)) }
	ctx := e.Ctx
	for i, a := range e.Accts {
		add("B %d %s", i, e.Bal(a))
	}
	d.pool = e.ModBal(obtypes.OrderBookLiquidityFunder{}.GetModuleAcc())
	d.betFee = e.ModBal(bettypes.BetFeeCollectorFunder{}.GetModuleAcc())
	d.hFee = e.ModBal(housetypes.HouseFeeCollectorFunder{}.GetModuleAcc())
	add("B 1000001 %s", d.pool)
	add("B 1000002 %s", d.betFee)
	add("B 1000003 %s", d.hFee)

	mk := e.App.MarketKeeper
	d.markets, _ = mk.GetMarkets(ctx)
	for _, m := range d.markets {
		var odds []string
		for _, o := range m.Odds {
			odds = append(odds, o.UID)
		}
		add("M %d %d %d %d %d %d %s %s", uidN(m.UID), ix.A(m.Creator), m.StartTS, m.EndTS, int(m.Status), m.ResolutionTS, uidList(odds), uidList(m.WinnerOddsUIDs))
	}
	add("MQ %s", uidList(mk.GetMarketStats(ctx).ResolvedUnsettled))

	ok := e.App.OrderbookKeeper
	d.books, _ = ok.GetAllOrderBooks(ctx)
	d.queues, _ = ok.GetAllOrderBookExposures(ctx)
	d.parts, _ = ok.GetAllOrderBookParticipations(ctx)
	d.pexps, _ = ok.GetAllParticipationExposures(ctx)
	d.hist, _ = ok.GetAllHistoricalParticipationExposures(ctx)
	pairs, _ := ok.GetAllParticipationBetPair(ctx)
	// pair keys carry the bet id: read the raw store
	type pairK struct{ book, idx, bet uint64 }
	var pks []pairK
	{
		st := prefix.NewStore(ctx.KVStore(e.App.GetKey(obtypes.StoreKey)), obtypes.ParticipationBetPairKeyPrefix)
		it := st.Iterator(nil, nil)
		for ; it.Valid(); it.Next() {
			k := it.Key()
			n := len(k)
			pks = append(pks, pairK{uidN(string(k[:n-16])), utils.Uint64FromBytes(k[n-16 : n-8]), utils.Uint64FromBytes(k[n-8:])})
		}
		it.Close()
	}
	_ = pairs
	for _, b := range d.books {
		add("K %d %d %d %d", uidN(b.UID), b.ParticipationCount, b.OddsCount, int(b.Status))
		for _, q := range d.queues {
			if q.OrderBookUID == b.UID {
				add("Q %d %d %s", uidN(b.UID), uidN(q.OddsUID), joinU64(q.FulfillmentQueue))
			}
		}
		for _, p := range d.parts {
			if p.OrderBookUID == b.UID {
				add("P %d %d %d %s %s %s %d %s %s %s %s %d %s %d %s %s", uidN(b.UID), p.Index, ix.A(p.ParticipantAddress), intStr(p.Liquidity), intStr(p.Fee),
					intStr(p.CurrentRoundLiquidity), p.ExposuresNotFilled, intStr(p.TotalBetAmount), intStr(p.CurrentRoundTotalBetAmount), intStr(p.MaxLoss),
					intStr(p.CurrentRoundMaxLoss), uidN(p.CurrentRoundMaxLossOddsUID), intStr(p.ActualProfit), b2i(p.IsSettled), intStr(p.ReturnedAmount), intStr(p.ReimbursedFee))
			}
		}
		for _, x := range d.pexps {
			if x.OrderBookUID == b.UID {
				add("E %d %d %d %s %s %d %d", uidN(b.UID), uidN(x.OddsUID), x.ParticipationIndex, intStr(x.Exposure), intStr(x.BetAmount), b2i(x.IsFulfilled), x.Round)
			}
		}
		for _, x := range d.hist {
			if x.OrderBookUID == b.UID {
				add("H %d %d %d %d %s %s %d", uidN(b.UID), uidN(x.OddsUID), x.ParticipationIndex, x.Round, intStr(x.Exposure), intStr(x.BetAmount), b2i(x.IsFulfilled))
			}
		}
		for _, pk := range pks {
			if pk.book == uidN(b.UID) {
				add("X %d %d %d", pk.book, pk.idx, pk.bet)
			}
		}
	}
	add("OQ %s", uidList(ok.GetOrderBookStats(ctx).ResolvedUnsettled))

	// the by-index exposure store must hold the same entries as the by-odds store (C10 index_equal)
	{
		st := prefix.NewStore(ctx.KVStore(e.App.GetKey(obtypes.StoreKey)), obtypes.ParticipationExposureByIndexKeyPrefix)
		it := st.Iterator(nil, nil)
		var byIdx []string
		for ; it.Valid(); it.Next() {
			var v obtypes.ParticipationExposure
			e.App.AppCodec().MustUnmarshal(it.Value(), &v)
			byIdx = append(byIdx, v.String())
		}
		it.Close()
		var byOdds []string
		for _, x := range d.pexps {
			byOdds = append(byOdds, x.String())
		}
		sort.Strings(byIdx)
		sort.Strings(byOdds)
		d.indexEq = strings.Join(byIdx, "|") == strings.Join(byOdds, "|")
	}

	bk := e.App.BetKeeper
	d.bets, _ = bk.GetBets(ctx)
	{
		// bet store keys carry the id
		st := prefix.NewStore(ctx.KVStore(e.App.GetKey(bettypes.StoreKey)), bettypes.BetListPrefix)
		it := st.Iterator(nil, nil)
		for ; it.Valid(); it.Next() {
			k := it.Key()
			id := utils.Uint64FromBytes(k[len(k)-8:])
			var t bettypes.Bet
			e.App.AppCodec().MustUnmarshal(it.Value(), &t)
			ov, err := sdkmath.LegacyNewDecFromStr(t.OddsValue)
			ovs := "x"
			if err == nil {
				ovs = decRaw(ov)
			}
			var fs []string
			for _, f := range t.BetFulfillment {
				fs = append(fs, fmt.Sprintf("%d %d %s %s", ix.A(f.ParticipantAddress), f.ParticipationIndex, intStr(f.BetAmount), intStr(f.PayoutProfit)))
			}
			add("T %d %d %d %d %d %s %s %s %d %d %s %d %d %d %s", ix.A(t.Creator), id, uidN(t.UID), uidN(t.MarketUID), uidN(t.OddsUID), ovs, intStr(t.Amount), intStr(t.Fee),
				int(t.Status), int(t.Result), decRaw(t.MaxLossMultiplier), t.CreatedAt, t.SettlementHeight, len(t.BetFulfillment), strings.Join(fs, " "))
		}
		it.Close()
	}
	{
		st := prefix.NewStore(ctx.KVStore(e.App.GetKey(bettypes.StoreKey)), bettypes.PendingBetListPrefix)
		it := st.Iterator(nil, nil)
		for ; it.Valid(); it.Next() {
			k := it.Key()
			var v bettypes.PendingBet
			e.App.AppCodec().MustUnmarshal(it.Value(), &v)
			add("PB %d %d %d %d", uidN(string(k[:len(k)-8])), utils.Uint64FromBytes(k[len(k)-8:]), uidN(v.UID), ix.A(v.Creator))
		}
		it.Close()
		st = prefix.NewStore(ctx.KVStore(e.App.GetKey(bettypes.StoreKey)), bettypes.SettledBetListPrefix)
		it = st.Iterator(nil, nil)
		for ; it.Valid(); it.Next() {
			k := it.Key()
			var v bettypes.SettledBet
			e.App.AppCodec().MustUnmarshal(it.Value(), &v)
			add("SB %d %d %d %d", utils.Int64FromBytes(k[:8]), utils.Uint64FromBytes(k[8:]), uidN(v.UID), ix.A(v.BettorAddress))
			if d.settledAt == nil {
				d.settledAt = map[string][]int64{}
			}
			d.settledAt[v.UID] = append(d.settledAt[v.UID], utils.Int64FromBytes(k[:8]))
		}
		it.Close()
	}
	add("BC %d", bk.GetBetStats(ctx).Count)

	hk := e.App.HouseKeeper
	deps, _ := hk.GetAllDeposits(ctx)
	for _, x := range deps {
		add("D %d %d %d %d %s %d %s", ix.A(x.DepositorAddress), uidN(x.MarketUID), x.ParticipationIndex, ix.A(x.Creator), intStr(x.Amount), x.WithdrawalCount, intStr(x.TotalWithdrawalAmount))
	}
	wds, _ := hk.GetAllWithdrawals(ctx)
	for _, x := range wds {
		add("WD %d %d %d %d %d %s %d", ix.A(x.Address), uidN(x.MarketUID), x.ParticipationIndex, x.ID, ix.A(x.Creator), intStr(x.Amount), int(x.Mode))
	}
	// authz grants of the two house message types
	var gl []string
	e.App.AuthzKeeper.IterateGrants(ctx, func(granter, grantee sdk.AccAddress, g authz.Grant) bool {
		a, err := g.GetAuthorization()
		if err != nil {
			return false
		}
		exp := int64(-1)
		if g.Expiration != nil {
			exp = g.Expiration.Unix()
		}
		switch v := a.(type) {
		case *housetypes.DepositAuthorization:
			gl = append(gl, fmt.Sprintf("G %d %d 0 %s %d", ix.A(granter.String()), ix.A(grantee.String()), v.SpendLimit, exp))
		case *housetypes.WithdrawAuthorization:
			gl = append(gl, fmt.Sprintf("G %d %d 1 %s %d", ix.A(granter.String()), ix.A(grantee.String()), v.WithdrawLimit, exp))
		}
		return false
	})
	sort.Slice(gl, func(i, j int) bool {
		var a, b [3]int
		fmt.Sscanf(gl[i], "G %d %d %d", &a[0], &a[1], &a[2])
		fmt.Sscanf(gl[j], "G %d %d %d", &b[0], &b[1], &b[2])
		return a[0] < b[0] || (a[0] == b[0] && (a[1] < b[1] || (a[1] == b[1] && a[2] < b[2])))
	})
	d.lines = append(d.lines, gl...)
	add("--")
	return d
}

// ---------------------------------------------------------------------------------------------
// generators

func decStr(raw *big.Int) string { return decFromRaw(raw).String() }

// genOdds draws decimal odds > 1 (rarely ≤ 1 or unparsable) with up to 18 fractional digits.
func genOdds(r *Rng) (string, string) {
	var raw *big.Int
	switch r.Intn(12) {
	case 0:
		raw = big.NewInt(1_500_000_000_000_000_000)
	case 1:
		raw = big.NewInt(2_000_000_000_000_000_000)
	case 2:
		raw = new(big.Int).Add(big.NewInt(1e18), big.NewInt(r.Range(1, 1000))) // barely above 1
	case 3:
		raw = new(big.Int).Mul(big.NewInt(r.Range(2, 50)), big.NewInt(1e18))
	case 4:
		raw = new(big.Int).SetInt64(r.Range(1e18+1, 3e18)) // 18 random digits
	case 5:
		if r.Chance(10) {
			raw = big.NewInt(r.Range(1, 1e18)) // ≤ 1: rejected
		} else {
			raw = new(big.Int).Add(big.NewInt(1e18), big.NewInt(r.Range(1, 9)*1e17))
		}
	case 6:
		if r.Chance(5) {
			return "1.2.3", "x"
		}
		raw = new(big.Int).Add(big.NewInt(1e18), big.NewInt(r.Range(1, 99)*1e16))
	default:
		raw = new(big.Int).Add(big.NewInt(1e18), big.NewInt(r.Range(1, 400)*1e16))
	}
	return decStr(raw), raw.String()
}

func genMult(r *Rng) (string, string) {
	var raw *big.Int
	switch r.Intn(8) {
	case 0, 1, 2:
		raw = big.NewInt(1e18)
	case 3:
		raw = big.NewInt(5e17)
	case 4:
		raw = big.NewInt(r.Range(1, 1e18))
	case 5:
		if r.Chance(6) {
			raw = big.NewInt(r.Range(1e18+1, 2e18)) // > 1 rejected
		} else if r.Chance(6) {
			raw = big.NewInt(0) // rejected
		} else {
			raw = big.NewInt(r.Range(1, 10) * 1e17)
		}
	default:
		raw = big.NewInt(r.Range(1, 10) * 1e17)
	}
	return decStr(raw), raw.String()
}

type coreMarket struct {
	n        int
	uid      string
	odds     []string
	resolved bool
}

// runCore: histories of market add/update/resolve, house deposit/withdraw (own and delegated), wagers and
// end-blocks against the real message servers and end-blockers of market, house, bet and orderbook.
// custodyBlockedProbe: the custody module accounts (and x/mint's account) are blocked recipients of the bank module: a
// plain MsgSend into them is refused (the core model's `send` refuses module accounts). Asked of the running app, so
// that the way app wiring builds the blocked set is free.
func custodyBlockedProbe(out *Out) {
	e := NewEnv(1_000_000, 4)
	srv := bankkeeper.NewMsgServerImpl(e.App.BankKeeper)
	for _, name := range []string{obtypes.OrderBookLiquidityFunder{}.GetModuleAcc(), bettypes.BetFeeCollectorFunder{}.GetModuleAcc(),
		housetypes.HouseFeeCollectorFunder{}.GetModuleAcc(), "reward_pool", "mint"} {
		addr := e.App.AccountKeeper.GetModuleAddress(name)
		if addr == nil {
			addr = authtypes.NewModuleAddress(name)
		}
		blocked := e.App.BankKeeper.BlockedAddr(addr)
		err, _ := e.Tx(func(ctx sdk.Context) error {
			_, err := srv.Send(sdk.WrapSDKContext(ctx), &banktypes.MsgSend{FromAddress: e.Accts[1].String(), ToAddress: addr.String(),
				Amount: sdk.NewCoins(sdk.NewCoin(params.DefaultBondDenom, sdkmath.NewInt(5)))})
			return err
		})
		if !blocked || err == nil {
			out.Fail(MonFail{Property: "C13", Monitor: "custody_accounts_blocked", Class: "module-account:" + name, History: 0,
				Detail: fmt.Sprintf("module account %s: BlockedAddr=%v, a plain MsgSend of 5 tokens into it returned %v", name, blocked, err)})
			out.Fail(MonFail{Property: "C01", Monitor: "custody_accounts_blocked", Class: "module-account:" + name, History: 0,
				Detail: fmt.Sprintf("module account %s: BlockedAddr=%v, a plain MsgSend of 5 tokens into it returned %v", name, blocked, err)})
		}
		out.Count("probe.custody-blocked")
	}
}

func runCore(seed uint64, n int, out *Out) {
	custodyBlockedProbe(out)
	maxOps := int(envInt("VERIF_CORE_OPS", 60))
	for h := 0; h < n; h++ {
		if skipHist(h) {
			continue
		}
		r := NewRng(seed*1_000_003 + uint64(h))
		e := NewEnv(1_000_000, 4)
		ix := newCoreIx(e)
		ms := marketkeeper.NewMsgServerImpl(*e.App.MarketKeeper)
		hs := housekeeper.NewMsgServerImpl(*e.App.HouseKeeper)
		bs := betkeeper.NewMsgServerImpl(*e.App.BetKeeper)
		out.Op("N %d", h)
		out.Impl("n %d", h)

		// scenario 1: many small participations (liquidity of a few tokens), threshold 0, long odds: bets are split
		// over many participations and rounds, which is where the rounding carry and the re-queue logic matter
		small := r.Intn(5) == 0
		// parameters (accepted by the validators)
		bp := e.App.BetKeeper.GetParams(e.Ctx)
		bp.BatchSettlementCount = uint32(r.Pick([]int64{1, 2, 3, 5, 1000}))
		bp.Constraints.MinAmount = sdkmath.NewInt(r.Pick([]int64{2, 2, 5, 10, 50}))
		bp.Constraints.Fee = sdkmath.NewInt(r.Pick([]int64{0, 0, 1, 1, 2}))
		if bp.Constraints.Fee.GTE(bp.Constraints.MinAmount) {
			bp.Constraints.Fee = bp.Constraints.MinAmount.SubRaw(1) // the validator requires fee < minimum amount
		}
		e.App.BetKeeper.SetParams(e.Ctx, bp)
		hp := e.App.HouseKeeper.GetParams(e.Ctx)
		hp.MinDeposit = sdkmath.NewInt(r.Pick([]int64{2, 10, 100}))
		hp.HouseParticipationFee = sdkmath.LegacyMustNewDecFromStr([]string{"0", "0.1", "0.01", "0.05", "0.333333333333333333"}[r.Intn(5)])
		hp.MaxWithdrawalCount = uint64(r.Range(1, 3))
		e.App.HouseKeeper.SetParams(e.Ctx, hp)
		op := e.App.OrderbookKeeper.GetParams(e.Ctx)
		op.MaxOrderBookParticipations = uint64(r.Pick([]int64{1, 2, 4, 8, 8, 100, 100, 100}))
		op.BatchSettlementCount = uint64(r.Pick([]int64{1, 2, 3, 100}))
		op.RequeueThreshold = uint64(r.Pick([]int64{0, 0, 1, 5, 29, 1000}))
		if small {
			hp.MinDeposit = sdkmath.NewInt(2)
			hp.HouseParticipationFee = sdkmath.LegacyZeroDec()
			e.App.HouseKeeper.SetParams(e.Ctx, hp)
			op.MaxOrderBookParticipations = 100
			op.RequeueThreshold = uint64(r.Pick([]int64{0, 0, 0, 1}))
			bp.Constraints.MinAmount = sdkmath.NewInt(2)
			if bp.Constraints.Fee.GTE(bp.Constraints.MinAmount) {
				bp.Constraints.Fee = sdkmath.NewInt(1)
			}
			e.App.BetKeeper.SetParams(e.Ctx, bp)
		}
		e.App.OrderbookKeeper.SetParams(e.Ctx, op)
		out.Op("PARAMS %d %s %s %s %s %d %d %d %d", bp.BatchSettlementCount, bp.Constraints.MinAmount, bp.Constraints.Fee, hp.MinDeposit,
			decRaw(hp.HouseParticipationFee), hp.MaxWithdrawalCount, op.MaxOrderBookParticipations, op.BatchSettlementCount, op.RequeueThreshold)
		for i, a := range e.Accts {
			out.Op("BAL %d %s", i, e.Bal(a))
		}
		height := int64(2)
		now := BaseTime + 100
		e.SetBlock(height, now)
		out.Op("T %d %d", height, now)

		var markets []*coreMarket
		nextBet := 1
		creatorOf := 0 // market creator account
		tkFields := func(valid bool, ign, appr bool, id int) string {
			return fmt.Sprintf("%d %d %d %d", b2i(valid), b2i(ign), b2i(appr), id)
		}
		// kyc generator: mostly valid for `who`
		genKyc := func(who int) (map[string]interface{}, bool, bool, int) {
			switch r.Intn(10) {
			case 0:
				if r.Chance(50) {
					return map[string]interface{}{"ignore": false, "approved": true, "id": e.Accts[who].String()}, false, true, who
				}
				return map[string]interface{}{"ignore": false, "approved": false, "id": e.Accts[who].String()}, false, false, who
			case 1:
				if r.Chance(50) {
					return map[string]interface{}{"ignore": true, "approved": false, "id": ""}, true, false, 999999
				}
				o := (who + 1) % NAcct
				return map[string]interface{}{"ignore": false, "approved": true, "id": e.Accts[o].String()}, false, true, o
			case 2, 3, 4:
				return map[string]interface{}{"ignore": true, "approved": false, "id": ""}, true, false, 999999
			default:
				return map[string]interface{}{"ignore": false, "approved": true, "id": e.Accts[who].String()}, false, true, who
			}
		}
		signKey := func() (int, bool) { // key index, valid?
			if r.Chance(2) {
				return 1 + r.Intn(3), false // registered but not the leader
			}
			return 0, true
		}
		finish := func(err error, panicked bool) {
			if err != nil {
				out.Impl("r err")
				out.Count("res.err")
				es := err.Error()
				if i := strings.LastIndex(es, ": "); i >= 0 && len(es)-i < 70 {
					es = es[i+2:]
				}
				out.Count("err." + trunc(es, 60))
				if panicked {
					out.Count("res.err.panic")
				}
			} else {
				out.Impl("r ok")
				out.Count("res.ok")
			}
			d := dumpCore(e, ix)
			for _, l := range d.lines {
				out.Impl("%s", l)
			}
			coreMonitors(out, h, e, ix, d, markets, false)
		}

		pickMarket := func() *coreMarket {
			for try := 0; try < 4; try++ {
				m := markets[r.Intn(len(markets))]
				if !m.resolved || r.Chance(8) {
					return m
				}
			}
			return markets[r.Intn(len(markets))]
		}
		// mkGrant saves a live authz grant granter→grantee and tells the model
		mkGrant := func(granter, grantee, kind int, limit int64) {
			var a authz.Authorization
			if kind == 0 {
				a = &housetypes.DepositAuthorization{SpendLimit: sdkmath.NewInt(limit)}
			} else {
				a = &housetypes.WithdrawAuthorization{WithdrawLimit: sdkmath.NewInt(limit)}
			}
			t := time.Unix(now+r.Range(0, 30), 0).UTC()
			if a.ValidateBasic() != nil {
				return
			}
			if err := e.App.AuthzKeeper.SaveGrant(e.Ctx, e.Accts[grantee], e.Accts[granter], a, &t); err == nil {
				out.Op("GR %d %d %d %d %d", granter, grantee, kind, limit, t.Unix())
				out.Count("op.grant.directed")
				noteGrant(h, granter, grantee, kind, limit, t.Unix())
			}
		}
		nOps := 20 + r.Intn(maxOps)
		halted := false
		for opi := 0; opi < nOps && !halted; opi++ {
			// a parameter change in mid-history (governance MsgUpdateParams of bet / house / orderbook): one or two
			// parameters move, in either direction, within the accepted ranges
			if opi > 3 && r.Chance(3) {
				switch r.Intn(6) {
				case 0:
					hp.MaxWithdrawalCount = uint64(r.Range(1, 3))
				case 1:
					bp.BatchSettlementCount = uint32(r.Pick([]int64{1, 2, 3, 5, 1000}))
					op.BatchSettlementCount = uint64(r.Pick([]int64{1, 2, 3, 100}))
				case 2:
					op.RequeueThreshold = uint64(r.Pick([]int64{0, 0, 1, 5, 29, 1000}))
				case 3:
					op.MaxOrderBookParticipations = uint64(r.Pick([]int64{1, 2, 4, 8, 100}))
				case 4:
					bp.Constraints.MinAmount = sdkmath.NewInt(r.Pick([]int64{2, 2, 5, 10, 50}))
					bp.Constraints.Fee = sdkmath.NewInt(r.Pick([]int64{0, 0, 1, 1, 2}))
					if bp.Constraints.Fee.GTE(bp.Constraints.MinAmount) {
						bp.Constraints.Fee = bp.Constraints.MinAmount.SubRaw(1)
					}
				case 5:
					if !small {
						hp.MinDeposit = sdkmath.NewInt(r.Pick([]int64{2, 10, 100}))
						hp.HouseParticipationFee = sdkmath.LegacyMustNewDecFromStr([]string{"0", "0.1", "0.01", "0.05", "0.333333333333333333"}[r.Intn(5)])
					}
				}
				e.App.BetKeeper.SetParams(e.Ctx, bp)
				e.App.HouseKeeper.SetParams(e.Ctx, hp)
				e.App.OrderbookKeeper.SetParams(e.Ctx, op)
				out.Op("PARAMS %d %s %s %s %s %d %d %d %d", bp.BatchSettlementCount, bp.Constraints.MinAmount, bp.Constraints.Fee, hp.MinDeposit,
					decRaw(hp.HouseParticipationFee), hp.MaxWithdrawalCount, op.MaxOrderBookParticipations, op.BatchSettlementCount, op.RequeueThreshold)
				out.Count("op.paramChange")
				coreReset(h)
				noteBatchSizes(e)
				continue
			}
			c := r.Intn(100)
			if small && len(markets) > 0 {
				if c < 6 {
					c = 25 // one market only
				}
				if opi < 14 && r.Chance(80) {
					c = 25 // start with a run of small deposits
				}
			}
			if c >= 10 && c < 16 && opi*2 < nOps && r.Chance(70) {
				c = 60 // resolutions mostly in the second half of a history
			}
			switch {
			case len(markets) == 0 || (c < 6 && len(markets) < 4):
				// ---- market add
				mn := len(markets) + 1
				if r.Chance(5) && len(markets) > 0 {
					mn = 1 // duplicate uid
				}
				no := 2 + r.Intn(3)
				if r.Chance(5) {
					no = 1
				}
				var oddsU []string
				var oddsJ []map[string]interface{}
				for k := 1; k <= no; k++ {
					u := UID(clsOdds, mn*10+k)
					if r.Chance(3) && k > 1 {
						u = UID(clsOdds, mn*10+1) // duplicate outcome
					}
					oddsU = append(oddsU, u)
					oddsJ = append(oddsJ, map[string]interface{}{"uid": u, "meta": "o"})
				}
				start := uint64(now - 50 + r.Range(0, 100))
				end := uint64(now + r.Range(300, 3000))
				if r.Chance(10) {
					end = uint64(now + r.Range(-5, 40))
				}
				status := int(r.Pick([]int64{1, 1, 1, 1, 1, 1, 1, 1, 1, 1, 1, 1, 1, 1, 1, 1, 2, 2, 3}))
				key, valid := signKey()
				tk := e.Ticket(key, map[string]interface{}{"uid": UID(clsMarket, mn), "start_ts": start, "end_ts": end, "odds": oddsJ, "status": status, "meta": "m"})
				var on []string
				for _, u := range oddsU {
					on = append(on, strconv.FormatUint(uidN(u), 10))
				}
				out.Op("MA %d %d %d %d %d %d %d %s", creatorOf, b2i(valid), mn, start, end, status, len(on), strings.Join(on, " "))
				err, pan := e.Tx(func(ctx sdk.Context) error {
					msg := &markettypes.MsgAdd{Creator: e.Accts[creatorOf].String(), Ticket: tk}
					if err := msg.ValidateBasic(); err != nil {
						return err
					}
					_, err := ms.Add(sdk.WrapSDKContext(ctx), msg)
					return err
				})
				if err == nil {
					markets = append(markets, &coreMarket{n: mn, uid: UID(clsMarket, mn), odds: oddsU})
				}
				out.Count("op.marketAdd")
				finish(err, pan)
			case c < 10:
				// ---- market update
				m := markets[r.Intn(len(markets))]
				start := uint64(now - 50 + r.Range(0, 100))
				end := uint64(now + r.Range(300, 3000))
				if r.Chance(10) {
					end = uint64(now + r.Range(-5, 40))
				}
				status := int(r.Pick([]int64{1, 1, 1, 1, 1, 1, 1, 1, 1, 2, 2, 5}))
				if r.Chance(20) {
					// an update that keeps the stored times exactly (only the status moves), with every status value
					if sm, ok := e.App.MarketKeeper.GetMarket(e.Ctx, m.uid); ok {
						start, end = sm.StartTS, sm.EndTS
						status = int(r.Pick([]int64{1, 2, 2, 0, 3, 4, 5, 5}))
						out.Count("op.marketUpdate.keeps-times")
					}
				}
				key, valid := signKey()
				tk := e.Ticket(key, map[string]interface{}{"uid": m.uid, "start_ts": start, "end_ts": end, "status": status})
				out.Op("MU %d %d %d %d %d", b2i(valid), m.n, start, end, status)
				err, pan := e.Tx(func(ctx sdk.Context) error {
					msg := &markettypes.MsgUpdate{Creator: e.Accts[creatorOf].String(), Ticket: tk}
					if err := msg.ValidateBasic(); err != nil {
						return err
					}
					_, err := ms.Update(sdk.WrapSDKContext(ctx), msg)
					return err
				})
				out.Count("op.marketUpdate")
				finish(err, pan)
			case c < 16:
				// ---- market resolve
				m := pickMarket()
				status := int(r.Pick([]int64{5, 5, 5, 3, 4, 1}))
				if r.Chance(6) {
					status = int(r.Pick([]int64{0, 2, 6, 7, 100})) // not a resolution status (6, 7, 100: not a status at all)
				}
				var winners []string
				if status == 5 || r.Chance(5) {
					winners = []string{m.odds[r.Intn(len(m.odds))]}
					if r.Chance(5) {
						winners = []string{UID(clsOdds, 999)}
					}
					if r.Chance(3) {
						winners = append(winners, m.odds[0])
					}
				}
				if winners == nil {
					winners = []string{}
				}
				ts := uint64(now - 60 + r.Range(0, 100))
				if r.Chance(3) {
					ts = 0
				}
				// another spelling of an own outcome's uid (upper-case hex) is a different string: not an outcome of the market
				respelled := false
				if len(winners) == 1 && r.Chance(8) {
					if up := strings.ToUpper(winners[0]); up != winners[0] {
						winners[0] = up
						respelled = true
						out.Count("op.marketResolve.respelled-winner")
					}
				}
				key, valid := signKey()
				tk := e.Ticket(key, map[string]interface{}{"uid": m.uid, "resolution_ts": ts, "winner_odds_uids": winners, "status": status})
				var wn []string
				for _, u := range winners {
					n := uidN(u)
					if respelled {
						n += 700000
					}
					wn = append(wn, strconv.FormatUint(n, 10))
				}
				out.Op("MR %d %d %d %d %d %s", b2i(valid), m.n, ts, status, len(wn), strings.Join(wn, " "))
				err, pan := e.Tx(func(ctx sdk.Context) error {
					msg := &markettypes.MsgResolve{Creator: e.Accts[creatorOf].String(), Ticket: tk}
					if err := msg.ValidateBasic(); err != nil {
						return err
					}
					_, err := ms.Resolve(sdk.WrapSDKContext(ctx), msg)
					return err
				})
				if err == nil {
					m.resolved = true
				}
				out.Count("op.marketResolve")
				finish(err, pan)
				if err == nil {
					noteResolved(e, dumpCore(e, ix), m.uid)
				}
			case c < 20:
				// ---- authz grant (deposit / withdraw), sometimes revoke
				granter, grantee := 1+r.Intn(5), 1+r.Intn(5)
				kind := r.Intn(2)
				if r.Chance(15) {
					out.Op("GV %d %d %d", granter, grantee, kind)
					url := sdk.MsgTypeURL(&housetypes.MsgDeposit{})
					if kind == 1 {
						url = sdk.MsgTypeURL(&housetypes.MsgWithdraw{})
					}
					_ = e.App.AuthzKeeper.DeleteGrant(e.Ctx, e.Accts[grantee], e.Accts[granter], url)
					out.Count("op.revoke")
					noteRevoke(h, granter, grantee, kind)
					break
				}
				limit := r.Range(1, 5000)
				exp := now + r.Range(1, 60)
				var a authz.Authorization
				if kind == 0 {
					a = &housetypes.DepositAuthorization{SpendLimit: sdkmath.NewInt(limit)}
				} else {
					a = &housetypes.WithdrawAuthorization{WithdrawLimit: sdkmath.NewInt(limit)}
				}
				var expT *time.Time
				expS := int64(-1)
				if !r.Chance(20) {
					t := time.Unix(exp, 0).UTC()
					expT = &t
					expS = exp
				}
				if err := e.App.AuthzKeeper.SaveGrant(e.Ctx, e.Accts[grantee], e.Accts[granter], a, expT); err == nil {
					out.Op("GR %d %d %d %d %d", granter, grantee, kind, limit, expS)
					out.Count("op.grant")
					noteGrant(h, granter, grantee, kind, limit, expS)
				}
			case c < 42:
				// ---- house deposit (own or delegated)
				m := pickMarket()
				creator := 1 + r.Intn(5)
				pd := 0 // payload depositor (0 = empty)
				if r.Chance(25) {
					pd = 1 + r.Intn(5)
				}
				who := creator
				if pd != 0 && pd != creator {
					who = pd
				}
				amount := r.Pick([]int64{100, 101, 250, 500, 1000, 2500, 10000})
				if r.Chance(30) {
					amount = r.Range(100, 3000)
				}
				if r.Chance(8) {
					amount = r.Pick([]int64{1, 2, 9, 10, 50, 99})
				}
				if small && r.Chance(85) {
					amount = r.Range(2, 9)
					if r.Chance(10) {
						amount = r.Range(100, 1000)
					}
				}
				if who != creator && r.Chance(75) {
					mkGrant(who, creator, 0, amount+r.Pick([]int64{0, 0, -1, 1, 100, 1000}))
				}
				kyc, ign, appr, kid := genKyc(who)
				key, valid := signKey()
				claims := map[string]interface{}{"kyc_data": kyc}
				if pd != 0 {
					claims["depositor_address"] = e.Accts[pd].String()
				}
				tk := e.Ticket(key, claims)
				out.Op("HD %d %s %d %d %d", creator, tkFields(valid, ign, appr, kid), m.n, amount, pd)
				hpre := captureHouse(e, who, creator, 0, m.uid, 0)
				err, pan := e.Tx(func(ctx sdk.Context) error {
					msg := &housetypes.MsgDeposit{Creator: e.Accts[creator].String(), MarketUID: m.uid, Amount: sdkmath.NewInt(amount), Ticket: tk}
					if err := msg.ValidateBasic(); err != nil {
						return err
					}
					_, err := hs.Deposit(sdk.WrapSDKContext(ctx), msg)
					return err
				})
				out.Count("op.deposit")
				finish(err, pan)
				if err == nil {
					depositMonitor(out, h, e, ix, hpre, creator, pd, sdkmath.NewInt(amount), m.uid)
				}
			case c < 52:
				// ---- house withdraw
				m := pickMarket()
				creator := 1 + r.Intn(5)
				pd := 0
				if r.Chance(25) {
					pd = 1 + r.Intn(5)
				}
				who := creator
				if pd != 0 {
					who = pd
				}
				idx := uint64(r.Range(1, 5))
				if r.Chance(3) {
					idx = 0
				}
				mode := int(r.Pick([]int64{1, 1, 2, 2, 2, 2, 2, 1, 2, 0}))
				amount := r.Pick([]int64{1, 5, 10, 45, 90, 100, 450, 900, 1000})
				if r.Chance(30) {
					amount = r.Range(1, 2000)
				}
				if r.Chance(3) {
					amount = 0
				}
				// aim at an existing participation of `who` most of the time
				if r.Chance(88) {
					ps, _ := e.App.OrderbookKeeper.GetParticipationsOfOrderBook(e.Ctx, m.uid)
					if len(ps) > 0 {
						p := ps[r.Intn(len(ps))]
						idx = p.Index
						w := ix.A(p.ParticipantAddress)
						if pd != 0 {
							pd = w
						} else if w < NAcct {
							creator = w
						}
						who = w
						if r.Chance(40) {
							// boundary: exactly the withdrawable amount, or one more
							mx := p.CurrentRoundLiquidity
							if !p.CurrentRoundMaxLoss.IsNegative() {
								mx = mx.Sub(p.CurrentRoundMaxLoss)
							}
							if mx.IsPositive() && mx.IsInt64() {
								amount = mx.Int64() + r.Range(0, 1)
							}
						}
					}
				}
				if pd != 0 && r.Chance(75) {
					mkGrant(pd, creator, 1, amount+r.Pick([]int64{0, 0, -1, 1, 100, 1000}))
				}
				kyc, ign, appr, kid := genKyc(who)
				key, valid := signKey()
				claims := map[string]interface{}{"kyc_data": kyc}
				if pd != 0 {
					claims["depositor_address"] = e.Accts[pd].String()
				}
				tk := e.Ticket(key, claims)
				out.Op("HW %d %s %d %d %d %d %d", creator, tkFields(valid, ign, appr, kid), m.n, idx, mode, amount, pd)
				wpre := captureHouse(e, pd, creator, 1, m.uid, idx)
				err, pan := e.Tx(func(ctx sdk.Context) error {
					msg := &housetypes.MsgWithdraw{Creator: e.Accts[creator].String(), MarketUID: m.uid, ParticipationIndex: idx,
						Mode: housetypes.WithdrawalMode(mode), Amount: sdkmath.NewInt(amount), Ticket: tk}
					if err := msg.ValidateBasic(); err != nil {
						return err
					}
					_, err := hs.Withdraw(sdk.WrapSDKContext(ctx), msg)
					return err
				})
				out.Count("op.withdraw")
				finish(err, pan)
				if err == nil {
					withdrawMonitor(out, h, e, ix, wpre, creator, pd, m.uid, idx)
				}
			case c < 88:
				// ---- wager
				m := pickMarket()
				creator := 6 + r.Intn(5)
				bn := nextBet
				if r.Chance(5) && nextBet > 1 {
					bn = 1 + r.Intn(nextBet-1) // replayed uid
					if r.Chance(60) {
						// the uid of a bet that is already settled (won, lost or refunded), replayed by its own bettor
						bets, _ := e.App.BetKeeper.GetBets(e.Ctx)
						var done []bettypes.Bet
						for _, b := range bets {
							if b.Status == bettypes.Bet_STATUS_SETTLED {
								done = append(done, b)
							}
						}
						if len(done) > 0 {
							b := done[r.Intn(len(done))]
							bn, creator = int(uidN(b.UID)), ix.A(b.Creator)
							out.Count("op.wager.replays-settled-uid")
						}
					}
				}
				sel := m.odds[r.Intn(len(m.odds))]
				if r.Chance(3) {
					sel = UID(clsOdds, 998)
				}
				ovS, ovRaw := genOdds(r)
				mS, mRaw := genMult(r)
				amount := r.Pick([]int64{2, 3, 5, 10, 22, 50, 51, 100, 492, 1000})
				if r.Chance(40) {
					amount = r.Range(2, 1500)
				}
				if r.Chance(5) {
					amount = r.Range(0, 2)
				}
				if small && r.Chance(85) {
					amount = r.Range(2, 40)
					if r.Chance(60) {
						ovS, ovRaw = decStr(big.NewInt(r.Pick([]int64{2, 3, 5, 10, 10, 20})*1e18)), ""
						ovRaw = sdkmath.LegacyMustNewDecFromStr(ovS).BigInt().String()
					}
				}
				// boundary-directed stake: aim the payout profit at the available liquidity of the participation at the
				// head of the selected outcome's queue (exactly, one below, one above), where `<` vs `<=` and rounding
				// mistakes show
				if r.Chance(25) && ovRaw != "x" {
					if boe, found := e.App.OrderbookKeeper.GetOrderBookOddsExposure(e.Ctx, m.uid, sel); found && len(boe.FulfillmentQueue) > 0 {
						if p, ok := e.App.OrderbookKeeper.GetOrderBookParticipation(e.Ctx, m.uid, boe.FulfillmentQueue[0]); ok {
							ex := sdkmath.ZeroInt()
							if pes, err := e.App.OrderbookKeeper.GetExposureByOrderBookAndOdds(e.Ctx, m.uid, sel); err == nil {
								for _, x := range pes {
									if x.ParticipationIndex == p.Index {
										ex = x.Exposure
									}
								}
							}
							avail := p.CurrentRoundLiquidity.Sub(ex).AddRaw(r.Range(-1, 1))
							if ov, err := sdkmath.LegacyNewDecFromStr(ovS); err == nil && ov.GT(sdkmath.LegacyOneDec()) && avail.IsPositive() {
								stake := sdkmath.LegacyNewDecFromInt(avail).Quo(ov.Sub(sdkmath.LegacyOneDec())).Ceil().TruncateInt().AddRaw(r.Range(-1, 1))
								if stake.IsPositive() && stake.IsInt64() && stake.Int64() < 900_000 {
									amount = stake.Int64() + bp.Constraints.Fee.Int64()
									mS, mRaw = "1", "1000000000000000000"
									out.Count("gen.wager.boundary")
								}
							}
						}
					}
				}
				var all []map[string]interface{}
				var allOp []string
				for _, o := range m.odds {
					if r.Chance(1) {
						continue // missing outcome
					}
					ms2, mr2 := genMult(r)
					all = append(all, map[string]interface{}{"uid": o, "max_loss_multiplier": ms2})
					allOp = append(allOp, fmt.Sprintf("%d %s", uidN(o), mr2))
				}
				if r.Chance(3) {
					// an outcome the market does not have: the ticket's list is a strict superset of the market's
					ms2, mr2 := genMult(r)
					extra := UID(clsOdds, m.n*10+9)
					all = append(all, map[string]interface{}{"uid": extra, "max_loss_multiplier": ms2})
					allOp = append(allOp, fmt.Sprintf("%d %s", uidN(extra), mr2))
					out.Count("gen.wager.superset")
				}
				if r.Chance(3) && len(all) > 0 {
					ms2, mr2 := genMult(r)
					all = append(all, map[string]interface{}{"uid": m.odds[0], "max_loss_multiplier": ms2}) // duplicate entry: last wins
					allOp = append(allOp, fmt.Sprintf("%d %s", uidN(m.odds[0]), mr2))
				}
				typ := 1
				if r.Chance(2) {
					typ = 7
				}
				kyc, ign, appr, kid := genKyc(creator)
				key, valid := signKey()
				tk := e.Ticket(key, map[string]interface{}{
					"selected_odds": map[string]interface{}{"uid": sel, "market_uid": m.uid, "value": ovS, "max_loss_multiplier": mS},
					"kyc_data":      kyc, "all_odds": all, "meta": map[string]interface{}{"selected_odds_type": typ, "selected_odds_value": ovS, "is_main_market": false},
				})
				out.Op("W %d %s %d %d %d %d %s %s %d %d %s", creator, tkFields(valid, ign, appr, kid), bn, amount, m.n, uidN(sel), ovRaw, mRaw, b2i(typ <= 3), len(allOp), strings.Join(allOp, " "))
				bettorBefore := e.Bal(e.Accts[creator])
				err, pan := e.Tx(func(ctx sdk.Context) error {
					msg := &bettypes.MsgWager{Creator: e.Accts[creator].String(), Props: &bettypes.WagerProps{UID: UID(clsBet, bn), Amount: sdkmath.NewInt(amount), Ticket: tk}}
					if err := msg.ValidateBasic(); err != nil {
						return err
					}
					_, err := bs.Wager(sdk.WrapSDKContext(ctx), msg)
					return err
				})
				if err == nil && bn == nextBet {
					nextBet++
				}
				if err == nil {
					coreReset(h)
					// C08: a wager is admitted only under the published rules
					ticketSet := map[string]bool{}
					for _, x := range all {
						ticketSet[x["uid"].(string)] = true
					}
					match := len(ticketSet) == len(m.odds)
					for _, o := range m.odds {
						if !ticketSet[o] {
							match = false
						}
					}
					inMarket := false
					for _, o := range m.odds {
						if o == sel {
							inMarket = true
						}
					}
					mk, _ := e.App.MarketKeeper.GetMarket(e.Ctx, m.uid)
					switch {
					case !match:
						failOnce(out, h, "C08", "wager_ok_requires", "outcome-list-mismatch", fmt.Sprint(bn), fmt.Sprintf("bet %d accepted although the ticket's outcome list %v is not the market's %v", bn, all, m.odds))
					case !inMarket:
						failOnce(out, h, "C08", "wager_ok_requires", "selected-outcome-not-in-market", fmt.Sprint(bn), fmt.Sprintf("bet %d accepted on outcome %s which the market does not have", bn, sel))
					case bn != nextBet-1:
						failOnce(out, h, "C08", "wager_ok_requires", "replayed-uid", fmt.Sprint(bn), fmt.Sprintf("bet uid %d accepted a second time", bn))
					case mk.Status != markettypes.MarketStatus_MARKET_STATUS_ACTIVE || mk.EndTS < uint64(now):
						failOnce(out, h, "C08", "wager_ok_requires", "market-not-open", fmt.Sprint(bn), fmt.Sprintf("bet %d accepted on market %d with status %v end %d at time %d", bn, m.n, mk.Status, mk.EndTS, now))
					case sdkmath.NewInt(amount).LT(bp.Constraints.MinAmount):
						failOnce(out, h, "C08", "wager_ok_requires", "below-minimum", fmt.Sprint(bn), fmt.Sprintf("bet %d accepted with amount %d below the minimum %s", bn, amount, bp.Constraints.MinAmount))
					}
					coreSeen.request[UID(clsBet, bn)] = sdkmath.NewInt(amount).Sub(bp.Constraints.Fee)
					coreSeen.charged[UID(clsBet, bn)] = bettorBefore.Sub(e.Bal(e.Accts[creator]))
				} else if !bettorBefore.Equal(e.Bal(e.Accts[creator])) {
					failOnce(out, h, "C08", "failed_wager_costs_nothing", "wager", fmt.Sprint(opi), fmt.Sprintf("a failed wager changed the bettor's balance by %s", e.Bal(e.Accts[creator]).Sub(bettorBefore)))
				}
				out.Count("op.wager")
				finish(err, pan)
			default:
				// ---- end block, next block
				out.Op("EB")
				preD := dumpCore(e, ix)
				preBal := userBalances(e)
				halt, what := e.Block(func(ctx sdk.Context) {
					bet.EndBlocker(ctx, *e.App.BetKeeper)
					orderbook.EndBlocker(ctx, *e.App.OrderbookKeeper)
				})
				out.Count("op.endBlock")
				if halt {
					out.Impl("r halt")
					halted = true
					out.Count("res.halt")
					out.Fail(MonFail{Property: "C05", Monitor: "endblock_no_halt", Class: classifyHalt(what), History: h, Detail: "end-blocker panicked: " + trunc(what, 300)})
				} else {
					out.Impl("r ok")
				}
				d := dumpCore(e, ix)
				for _, l := range d.lines {
					out.Impl("%s", l)
				}
				coreMonitors(out, h, e, ix, d, markets, true)
				if !halt {
					endBlockMonitors(out, h, e, ix, preD, d, preBal, userBalances(e))
					settleBoundMonitor(out, h, e, d)
				}
				height++
				now += r.Pick([]int64{1, 5, 5, 30, 200})
				e.SetBlock(height, now)
				out.Op("T %d %d", height, now)
			}
		}
	}
}

func trunc(s string, n int) string {
	if len(s) > n {
		return s[:n]
	}
	return s
}

func classifyHalt(what string) string {
	switch {
	case strings.Contains(what, "negative coin amount"):
		// the known finding is the negative payout that follows from a rounding-carry part; anything else is new
		if coreSeen.negCarryAny && len(coreSeen.negOther) == 0 {
			return "negative-amount-refund"
		}
		return "negative-amount-refund-without-rounding-carry"
	case strings.Contains(what, "insufficient balance in module account") || strings.Contains(what, "insufficient"):
		return "custody-account-short"
	default:
		return "other"
	}
}
