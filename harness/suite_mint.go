package harness

import (
	"fmt"
	"math/big"
	"strings"

	sdkmath "cosmossdk.io/math"
	sdk "github.com/cosmos/cosmos-sdk/types"
	authtypes "github.com/cosmos/cosmos-sdk/x/auth/types"

	"github.com/sge-network/sge/app/params"
	"github.com/sge-network/sge/x/mint"
	mintkeeper "github.com/sge-network/sge/x/mint/keeper"
	minttypes "github.com/sge-network/sge/x/mint/types"
)

func init() { suites["mint"] = runMint }

func decFromRaw(raw *big.Int) sdkmath.LegacyDec {
	return sdkmath.LegacyNewDecFromBigIntWithPrec(raw, 18)
}

// genMintParams draws phase lists accepted by the module's validators (plus, rarely, rejected ones to
// exercise the validator correspondence). Small BlocksPerYear so that histories cross phase boundaries.
func genMintParams(r *Rng, extreme bool) minttypes.Params {
	bpy := r.Range(1, 60)
	if r.Chance(10) {
		bpy = r.Range(1, 3)
	}
	np := 1 + r.Intn(4)
	var phases []minttypes.Phase
	for i := 0; i < np; i++ {
		var coef, infl *big.Int
		switch r.Intn(6) {
		case 0:
			coef = big.NewInt(5e17)
		case 1:
			coef = big.NewInt(1e18)
		case 2:
			coef = new(big.Int).SetInt64(r.Range(1, 2e18))
		default:
			coef = new(big.Int).SetInt64(r.Range(1e17, 1e18))
		}
		switch r.Intn(6) {
		case 0:
			infl = big.NewInt(0)
		case 1:
			infl = new(big.Int).SetInt64(r.Range(1, 1e18))
		default:
			infl = new(big.Int).SetInt64(r.Range(1e15, 4e17))
		}
		if extreme {
			switch r.Intn(8) {
			case 0:
				coef = new(big.Int).SetInt64(r.Range(1, 1e16)) // phase shorter than one block
			case 1:
				infl = new(big.Int).SetInt64(-r.Range(1, 1e17)) // negative inflation passes validatePhases
			case 2:
				coef = big.NewInt(0) // rejected by validatePhases
			}
		}
		if i > 0 && r.Chance(25) {
			// adjacent phases with the same inflation rate (a valid list; the provision still has to be recomputed)
			infl = phases[i-1].Inflation.BigInt()
		}
		phases = append(phases, minttypes.Phase{Inflation: decFromRaw(infl), YearCoefficient: decFromRaw(coef)})
	}
	ex := sdkmath.NewInt(0)
	if r.Chance(30) {
		ex = sdkmath.NewInt(r.Range(0, 5_000_000))
	}
	return minttypes.Params{MintDenom: params.DefaultBondDenom, BlocksPerYear: bpy, ExcludeAmount: ex, Phases: phases}
}

func opParams(p minttypes.Params) string {
	var sb strings.Builder
	fmt.Fprintf(&sb, "P %d %s %d", p.BlocksPerYear, intStr(p.ExcludeAmount), len(p.Phases))
	for _, ph := range p.Phases {
		fmt.Fprintf(&sb, " %s %s", decRaw(ph.Inflation), decRaw(ph.YearCoefficient))
	}
	return sb.String()
}

func minterLine(m minttypes.Minter) string {
	return fmt.Sprintf("m %s %d %s %s", decRaw(m.Inflation), m.PhaseStep, decRaw(m.PhaseProvisions), decRaw(m.TruncatedTokens))
}

// runMint: per history one chain; random accepted parameters; BeginBlocker of x/mint at consecutive heights
// across all phase boundaries, with bank traffic between blocks. VERIF_MINT_EXTREME=1 also draws the
// accepted-but-extreme parameter values (phases shorter than a block, negative inflation).
func runMint(seed uint64, n int, out *Out) {
	extreme := envInt("VERIF_MINT_EXTREME", 0) == 1
	probeParamsCfg().emit(out) // which validator / clamp variant the tree has (model: Sge.Params over Sge.Mint)
	for h := 0; h < n; h++ {
		if skipHist(h) {
			continue
		}
		r := NewRng(seed*1_000_003 + uint64(h))
		e := NewEnv(r.Range(1_000, 50_000_000), 4)
		k := e.App.MintKeeper
		collector := e.App.AccountKeeper.GetModuleAddress(authtypes.FeeCollectorName)
		out.Op("N %d", h)
		out.Impl("n %d", h)

		p := genMintParams(r, extreme)
		if r.Chance(30) {
			// the excluded amount relative to the supply: small, about half, most of it, all of it, more than it
			sup := e.Supply()
			num := r.Pick([]int64{1, 40, 50, 51, 60, 90, 99, 100, 101, 150})
			p.ExcludeAmount = sup.MulRaw(num).QuoRaw(100)
			if r.Chance(35) {
				// all but a few tokens excluded: the share of one block is a fraction of a token and is minted through the
				// carried remainder only
				p.ExcludeAmount = sup.SubRaw(r.Pick([]int64{1, 10, 100, 1000, 6000, 50000}))
			}
		}
		valid := p.Validate() == nil
		out.Op("%s", opParams(p))
		out.Impl("v %d", b2i(valid))
		if !valid {
			out.Count("params.invalid")
			continue
		}
		out.Count("params.valid")
		k.SetParams(e.Ctx, p)
		m0 := minttypes.DefaultInitialMinter()
		k.SetMinter(e.Ctx, m0)
		out.Op("M %s %d %s %s", decRaw(m0.Inflation), m0.PhaseStep, decRaw(m0.PhaseProvisions), decRaw(m0.TruncatedTokens))

		// total blocks of all phases
		total := int64(0)
		for _, ph := range p.Phases {
			total += ph.YearCoefficient.Mul(sdkmath.LegacyNewDec(p.BlocksPerYear)).TruncateInt().Int64()
		}
		last := total + 3
		if last > 400 {
			last = 400
		}
		// per-phase accumulation for the C13 phase-sum monitor
		curStep := int32(-99)
		var phaseMinted sdkmath.Int
		var phaseProv sdkmath.LegacyDec
		var phaseBlocksSeen int64
		halted := false
		for height := int64(1); height <= last && !halted; height++ {
			e.SetBlock(height, BaseTime+height*5)
			// traffic between blocks that must not change the supply: plain bank sends
			if r.Chance(30) {
				amt := sdk.NewCoins(sdk.NewCoin(params.DefaultBondDenom, sdkmath.NewInt(r.Range(1, 500))))
				_ = e.App.BankKeeper.SendCoins(e.Ctx, e.Accts[r.Intn(NAcct)], e.Accts[r.Intn(NAcct)], amt)
			}
			// export + import of the mint module's own genesis at this block boundary (a restart from the exported state):
			// the identity on every tree on which C16 holds, so the model has nothing to replay
			if height > 1 && r.Chance(8) {
				func() {
					defer func() {
						if rec := recover(); rec != nil {
							out.Fail(MonFail{Property: "C16", Monitor: "import_no_panic", Class: "mint", History: h, Detail: fmt.Sprintf("mint genesis round trip panicked at height %d: %v", height, rec)})
						}
					}()
					gs := mint.ExportGenesis(e.Ctx, k)
					if verr := gs.Validate(); verr != nil {
						out.Fail(MonFail{Property: "C16", Monitor: "export_validates", Class: "mint", History: h, Detail: fmt.Sprintf("exported mint genesis at height %d fails its own validation: %v", height, verr)})
					}
					before := k.GetMinter(e.Ctx)
					mint.InitGenesis(e.Ctx, k, *gs)
					after := k.GetMinter(e.Ctx)
					if minterLine(before) != minterLine(after) {
						out.Fail(MonFail{Property: "C16", Monitor: "import_equals", Class: "mint/minter", History: h,
							Detail: fmt.Sprintf("height %d: minter before export %s, after import %s (params %s)", height, minterLine(before), minterLine(after), opParams(p))})
						out.Fail(MonFail{Property: "C13", Monitor: "minter_survives_restart", Class: "mint/minter", History: h,
							Detail: fmt.Sprintf("height %d: minter before export %s, after import %s", height, minterLine(before), minterLine(after))})
					}
					out.Count("mint.genesis-roundtrip")
				}()
			}
			// a parameter update that succeeds as a message but whose transaction is discarded (a later message of the
			// same transaction or proposal fails): the configured parameters are unchanged, so the model has nothing to
			// replay and minting must go on by the stored phases
			if r.Chance(6) {
				p2 := genMintParams(r, false)
				if p2.Validate() == nil {
					_, _ = e.Tx(func(ctx sdk.Context) error {
						if _, err := mintkeeper.NewMsgServerImpl(k).UpdateParams(sdk.WrapSDKContext(ctx), &minttypes.MsgUpdateParams{Authority: govAuthority, Params: p2}); err != nil {
							return err
						}
						return fmt.Errorf("a later message of the same transaction fails")
					})
					out.Count("mint.discarded-update")
					if got := k.GetParams(e.Ctx); opParams(got) != opParams(p) {
						out.Fail(MonFail{Property: "C13", Monitor: "params_only_by_committed_update", Class: "discarded-update", History: h,
							Detail: fmt.Sprintf("height %d: a discarded MsgUpdateParams changed the parameters the keeper reports: configured %s, reported %s", height, opParams(p), opParams(got))})
					}
				}
			}
			supBefore := e.Supply()
			colBefore := e.Bal(collector)
			out.Op("B %d %s", height, supBefore.String())
			halt, what := e.Block(func(ctx sdk.Context) { mint.BeginBlocker(ctx, k) })
			m := k.GetMinter(e.Ctx)
			supAfter := e.Supply()
			colAfter := e.Bal(collector)
			if halt {
				out.Impl("r halt")
				out.Impl("%s", minterLine(m))
				out.Count("block.halt")
				halted = true
				cls := "other"
				if strings.Contains(what, "division by zero") {
					cls = "phase-shorter-than-one-block"
				} else if strings.Contains(what, "negative coin amount") {
					cls = "negative-inflation"
				}
				out.Fail(MonFail{Property: "C17", Monitor: "mint_beginblock_no_halt", Class: cls, History: h,
					Detail: fmt.Sprintf("BeginBlocker panicked at height %d under accepted params %s: %s", height, opParams(p), what)})
				break
			}
			minted := supAfter.Sub(supBefore)
			out.Impl("r %s", minted.String())
			out.Impl("%s", minterLine(m))
			out.Count("block.ok")
			if minted.IsPositive() {
				out.Count("block.minted")
			}
			// C13 monitor: supply grows exactly by what the collector receives
			if !minted.Equal(colAfter.Sub(colBefore)) || minted.IsNegative() {
				out.Fail(MonFail{Property: "C13", Monitor: "minted_to_collector", Class: "beginblock", History: h,
					Detail: fmt.Sprintf("height %d supply delta %s collector delta %s", height, minted, colAfter.Sub(colBefore))})
			}
			// C13 monitor: phase totals
			if m.PhaseStep != curStep {
				// the phase that just ended was observed from its first block to its last: what it minted in
				// total (however many blocks the implementation let it last) is its provision to within a token
				if curStep >= 1 && int(curStep) <= len(p.Phases) && phaseBlocksSeen > 0 {
					nbPrev := p.Phases[curStep-1].YearCoefficient.Mul(sdkmath.LegacyNewDec(p.BlocksPerYear)).TruncateInt().Int64()
					diff := sdkmath.LegacyNewDecFromInt(phaseMinted).Sub(phaseProv).Abs()
					tol := sdkmath.LegacyNewDec(1).Add(sdkmath.LegacyNewDecWithPrec(nbPrev+1, 18))
					if diff.GT(tol) && !phaseProv.IsNegative() {
						out.Fail(MonFail{Property: "C13", Monitor: "phase_total", Class: "beginblock", History: h,
							Detail: fmt.Sprintf("phase %d lasted %d blocks (provision spread over %d), minted %s in total, provision %s", curStep, phaseBlocksSeen, nbPrev, phaseMinted, phaseProv)})
					}
					out.Count("phase.exited")
				}
				curStep = m.PhaseStep
				phaseMinted = sdkmath.ZeroInt()
				phaseProv = m.PhaseProvisions
				if m.PhaseStep >= 1 && int(m.PhaseStep) <= len(p.Phases) {
					// the provision of the phase as the property states it, computed here from the supply before this
					// block: inflation x (supply at phase start - excluded amount) x phase length in years
					ph := p.Phases[m.PhaseStep-1]
					base := supBefore.Sub(p.ExcludeAmount)
					if base.IsNegative() {
						base = sdkmath.ZeroInt()
					}
					want := ph.Inflation.MulInt(base).Mul(ph.YearCoefficient)
					if m.PhaseProvisions.Sub(want).Abs().GT(sdkmath.LegacyOneDec()) && !ph.Inflation.IsNegative() {
						out.Fail(MonFail{Property: "C13", Monitor: "phase_provision_formula", Class: "beginblock", History: h,
							Detail: fmt.Sprintf("height %d enters phase %d (inflation %s, %s years) with supply %s, excluded %s: provision %s, expected %s", height, m.PhaseStep, ph.Inflation, ph.YearCoefficient, supBefore, p.ExcludeAmount, m.PhaseProvisions, want)})
					}
					// the phase totals below are compared with the provision the property defines, not with the stored one
					phaseProv = want
					out.Count("phase.provision_checked")
				}
				phaseBlocksSeen = 0
				out.Count(fmt.Sprintf("phase.enter.%d", b2i(m.PhaseStep == -1)))
			}
			phaseMinted = phaseMinted.Add(minted)
			phaseBlocksSeen++
			if m.PhaseStep == -1 && minted.IsPositive() {
				out.Fail(MonFail{Property: "C13", Monitor: "after_last_phase_nothing", Class: "beginblock", History: h,
					Detail: fmt.Sprintf("height %d minted %s after the last phase", height, minted)})
			}
			if m.PhaseStep >= 1 && int(m.PhaseStep) <= len(p.Phases) {
				nb := p.Phases[m.PhaseStep-1].YearCoefficient.Mul(sdkmath.LegacyNewDec(p.BlocksPerYear)).TruncateInt().Int64()
				if phaseBlocksSeen == nb && height != 1 || (height == 1 && nb == 1) {
					// full phase observed (only exact when the phase was entered at its first block)
					diff := sdkmath.LegacyNewDecFromInt(phaseMinted).Sub(phaseProv).Abs()
					tol := sdkmath.LegacyNewDec(1).Add(sdkmath.LegacyNewDecWithPrec(nb, 18))
					if diff.GT(tol) && !m.Inflation.IsNegative() {
						out.Fail(MonFail{Property: "C13", Monitor: "phase_sum", Class: "beginblock", History: h,
							Detail: fmt.Sprintf("phase %d blocks %d minted %s provisions %s", m.PhaseStep, nb, phaseMinted, phaseProv)})
					}
					out.Count("phase.complete")
				}
			}
		}
	}
}
