package harness

// Suite "determinism" (property C15): ABCI-level double execution.
//
// A history is a pure function of (VERIF_SEED, history index): chain parameters plus a list of blocks, each a
// block time and a list of sdk.Msg of the custom modules (market, house, bet, orderbook via bet, ovm,
// subaccount, reward) and of bank / authz. The generator never looks at an application, so that every replica
// — in this process or in another one — is handed byte-identical messages (the record stream carries a digest
// of every message to prove it).
//
// Every history is executed
//   1. in this process (execution 1: the stream written to impl.txt),
//   2. a second time in this process on a fresh app (monitor replica_agreement, scope "same-process"),
//   3. in a FRESH PROCESS: the suite re-invokes its own test binary (os.Args[0]) with VERIF_DET_CHILD=1 and
//      GOMAXPROCS=1 (this process runs with GOMAXPROCS=8); the child's stream is written to ops.txt, which the
//      registered driver drv_echo prints unchanged, so that bin/check's diff compares execution 1 with the
//      fresh-process execution line by line (and the same comparison is made here, monitor replica_agreement,
//      scope "fresh-process", so that a disagreement carries a class),
//   4. once more in this process with the `all_odds` list of every wager ticket (bet and subaccount wagers)
//      REVERSED: app hashes and events must not change (monitor ticket_list_order; Lean: C15 wager_perm),
//   5. as a RESTARTED REPLICA: the same blocks, but after the Commit of one or two blocks drawn by the history's
//      PRNG (detGen.drawRestarts; three times out of four right where a parameter change of the history takes
//      effect) the application object is dropped and a NEW one is constructed over the SAME database
//      (Env.Restart in base.go: app.NewSgeApp with loadLatest = true over the MemDB that NewEnvOn retained; it
//      must come up at the committed height and app hash), and the remaining blocks run on it. Keeper structs
//      and everything they point to are new and empty, the committed multistore is identical: a validator that
//      was restarted, or a node that joined by state sync. Every record (app hash, per-store hashes, results,
//      events, gas) must equal execution 1: monitor replica_agreement, class `restarted-replica-differs`; the
//      detail names the first differing block, the stores whose commit hashes differ, and — from a re-execution
//      of both variants that dumps that store — the first differing key with both values.
//      No fallback to re-execution from genesis exists. Restarting in one OS process meets one known obstacle,
//      the process-wide store key of ibc-go's 08-wasm light client (see exportModules in genesis_xi.go): it
//      always refers to the NEWEST application object, and here the newest object is the one in use (the
//      stopped instance is never called again; all replicas of a history run one after the other), so nothing
//      had to be worked around. What a same-process restart cannot forget is package-level state: that is the
//      job of the fact theorem C15Facts.no_package_level_mutable_state.
//   6. as a SIMULATING REPLICA: before each block every transaction of the block is run on a throw-away branch
//      of the check state, as a node does that answers Simulate (gas estimation) queries; class
//      `simulating-replica-differs`.
//
// The generator (second part in suite_determinism_tx.go) also draws atomic multi-message transactions, authority
// message lists (governance proposals executed in place and through x/gov's submit / vote / EndBlocker), legacy
// x/params parameter changes, and messages that fail after a valid parameter update of the same transaction.
//
// One execution = NewEnv (InitChain from the deterministic genesis + Commit), a set-up block that stores the
// drawn module parameters (and x/gov's deposit and voting period), then per block BeginBlock(header{height,time}),
// every transaction through app.MsgServiceRouter().Handler(msg) on a cache context that is written only if all
// its messages succeed (panics recovered), EndBlock, Commit. Recorded per block: the ABCI events of BeginBlock /
// every message / EndBlock (type and attributes, in order), every message's result (ok + digest of the response
// data, or codespace/code of the error) with the gas it consumed, commit or rollback of every group, the app hash
// (LastCommitID().Hash) and the commit hash of every store.
// Go randomises the iteration order of every map instance, so two executions already traverse every map in
// different orders; the fresh process adds a different scheduler configuration and different addresses.

import (
	"bufio"
	"bytes"
	"crypto/ed25519"
	"crypto/sha256"
	"encoding/hex"
	"fmt"
	"os"
	"os/exec"
	"path/filepath"
	"reflect"
	"regexp"
	"runtime"
	"sort"
	"strconv"
	"strings"
	"time"

	sdkerrors "cosmossdk.io/errors"
	sdkmath "cosmossdk.io/math"
	abci "github.com/cometbft/cometbft/abci/types"
	tmproto "github.com/cometbft/cometbft/proto/tendermint/types"
	codectypes "github.com/cosmos/cosmos-sdk/codec/types"
	"github.com/cosmos/cosmos-sdk/store/rootmulti"
	storetypes "github.com/cosmos/cosmos-sdk/store/types"
	sdk "github.com/cosmos/cosmos-sdk/types"
	"github.com/cosmos/cosmos-sdk/x/authz"
	banktypes "github.com/cosmos/cosmos-sdk/x/bank/types"
	"github.com/cosmos/gogoproto/proto"
	"github.com/golang-jwt/jwt/v4"

	"github.com/sge-network/sge/app/params"
	bettypes "github.com/sge-network/sge/x/bet/types"
	housetypes "github.com/sge-network/sge/x/house/types"
	markettypes "github.com/sge-network/sge/x/market/types"
	ovmtypes "github.com/sge-network/sge/x/ovm/types"
	rewardtypes "github.com/sge-network/sge/x/reward/types"
	subtypes "github.com/sge-network/sge/x/subaccount/types"
)

func init() { suites["determinism"] = runDeterminism }

// ---------------------------------------------------------------------------------------------
// histories

type detMsg struct {
	label string  // operation kind (statistics)
	mod   string  // module the message belongs to (class of a disagreement)
	msg   sdk.Msg // the message every replica executes
	alt   sdk.Msg // the same message with the ticket's all_odds list reversed (nil: no such list)
	// wire form of msg / alt, fixed at generation time. Every execution decodes its own copy, as a node decodes
	// the transaction bytes of a block (a handler may write into its message: x/house's Withdraw does)
	bz, altBz []byte
	// transaction the message belongs to: 0 = a transaction of its own; consecutive messages of a block with the
	// same tx > 0 are ONE transaction (atomic: one cache context, written only if every message succeeds)
	tx int
	// signed by the x/gov module account (executed as x/gov executes the messages of a passed proposal)
	gov bool
}

// fresh decodes a private copy of the message (or of its reversed-list variant).
func (m *detMsg) fresh(alt bool, reg codectypes.InterfaceRegistry) sdk.Msg {
	src, bz := m.msg, m.bz
	if alt && m.alt != nil {
		src, bz = m.alt, m.altBz
	}
	c := reflect.New(reflect.TypeOf(src).Elem()).Interface().(sdk.Msg)
	must(proto.Unmarshal(bz, c))
	must(codectypes.UnpackInterfaces(c, reg))
	return c
}

type detBlock struct {
	time int64
	msgs []detMsg
}

type detParams struct {
	betBatch   uint32
	betMin     int64
	betFee     int64
	houseMin   int64
	houseFee   string
	houseMaxW  uint64
	obMaxPart  uint64
	obBatch    uint64
	obRequeue  uint64
	promoterOf int   // account that is registered as reward promoter
	govPeriod  int64 // x/gov voting period in seconds
}

type detHist struct {
	p      detParams
	blocks []detBlock
	// block boundaries at which the restarted replica is stopped and started again (-1 = after the set-up block,
	// b = after the Commit of blocks[b]); see drawRestarts
	restarts []int
}

type detMarket struct {
	n        int
	uid      string
	odds     []string
	resolved bool
	inactive bool
	deposits int
	holders  []int // holders[i] = depositor of participation i+1, as far as the generator can tell
}

// detAccounts returns the accounts of NewEnv (sorted by bech32 string) without building an app.
func detAccounts() []sdk.AccAddress {
	var as []sdk.AccAddress
	for i := 0; i < NAcct; i++ {
		as = append(as, detAddr(i))
	}
	sort.Slice(as, func(i, j int) bool { return as[i].String() < as[j].String() })
	return as
}

const detOvmKeys = 7 // keys 0..3 are the genesis vault, 4..6 are proposed later

type detGen struct {
	r       *Rng
	accts   []sdk.AccAddress
	priv    []ed25519.PrivateKey
	pem     []string
	now     int64
	markets []*detMarket
	nextBet int
	subs    map[int]bool
	nProps  int
	nCamp   int
	nRew    int
	prom    int
	betMin  int64
	lastBad bool // the last ticket built by `ticket` is not expected to verify (non-leader key or expired)
	// suite_determinism_tx.go
	txn           int     // atomic groups of the current block so far
	nGov          int     // governance proposals submitted so far (= id of the latest)
	govPeriod     int64   // voting period of the history
	driftAt       []int64 // block times from which a parameter change of the history may be in effect
	drawnBetMin   int64   // minimum bet amount of the latest bet parameter draw
	pendingBetMin int64   // ... of the authority group being built (0: none)
}

// ticket signs claims with oracle key `key`; exp is relative to the time of the block that carries the message.
func (g *detGen) ticket(key int, claims map[string]interface{}) string {
	mc := jwt.MapClaims{}
	for k, v := range claims {
		mc[k] = v
	}
	g.lastBad = key != 0
	if _, ok := mc["exp"]; !ok {
		mc["exp"] = g.now + 1000
		if g.r.Chance(1) {
			mc["exp"] = g.now - 1 // expired
			g.lastBad = true
		}
	}
	mc["iat"] = g.now - 10
	s, err := jwt.NewWithClaims(jwt.SigningMethodEdDSA, mc).SignedString(g.priv[key])
	must(err)
	return s
}

func (g *detGen) signKey() int {
	if g.r.Chance(2) {
		return 1 + g.r.Intn(3) // registered, but not the leader
	}
	return 0
}

func (g *detGen) kyc(who int) map[string]interface{} {
	switch g.r.Intn(40) {
	case 0:
		return map[string]interface{}{"ignore": false, "approved": false, "id": g.accts[who].String()}
	case 1:
		return map[string]interface{}{"ignore": false, "approved": true, "id": g.accts[(who+1)%NAcct].String()}
	case 2, 3, 4, 5, 6, 7, 8, 9:
		return map[string]interface{}{"ignore": true, "approved": false, "id": ""}
	default:
		return map[string]interface{}{"ignore": false, "approved": true, "id": g.accts[who].String()}
	}
}

func (g *detGen) pickMarket() *detMarket {
	for try := 0; try < 4; try++ {
		m := g.markets[g.r.Intn(len(g.markets))]
		if (!m.resolved && !m.inactive) || g.r.Chance(6) {
			return m
		}
	}
	return g.markets[g.r.Intn(len(g.markets))]
}

func (g *detGen) marketAdd() detMsg {
	r := g.r
	mn := len(g.markets) + 1
	no := 2 + r.Intn(3)
	var oddsU []string
	var oddsJ []map[string]interface{}
	for k := 1; k <= no; k++ {
		u := UID(clsOdds, mn*10+k)
		if r.Chance(3) && k > 1 {
			u = UID(clsOdds, mn*10+1) // duplicate outcome: rejected by the oddsSet check
		}
		oddsU = append(oddsU, u)
		oddsJ = append(oddsJ, map[string]interface{}{"uid": u, "meta": "o"})
	}
	// the outcome list is a slice of the ticket: its order is part of the message (it is stored as given)
	r.shuffleOdds(oddsU, oddsJ)
	dup := false
	seen := map[string]bool{}
	for _, u := range oddsU {
		dup = dup || seen[u]
		seen[u] = true
	}
	start := uint64(g.now - 50 + r.Range(0, 100))
	end := uint64(g.now + r.Range(300, 3000))
	if r.Chance(6) {
		end = uint64(g.now + r.Range(-5, 40))
	}
	status := int(r.Pick([]int64{1, 1, 1, 1, 1, 1, 1, 1, 1, 1, 1, 1, 1, 1, 1, 1, 1, 2, 3}))
	tk := g.ticket(g.signKey(), map[string]interface{}{"uid": UID(clsMarket, mn), "start_ts": start, "end_ts": end, "odds": oddsJ, "status": status, "meta": "m"})
	if !dup && !g.lastBad && status != 3 && int64(end) > g.now && start < end {
		// optimistic bookkeeping of the generator (it never reads an application)
		g.markets = append(g.markets, &detMarket{n: mn, uid: UID(clsMarket, mn), odds: oddsU, inactive: status != 1})
	}
	return detMsg{label: "market.add", mod: "market", msg: &markettypes.MsgAdd{Creator: g.accts[0].String(), Ticket: tk}}
}

func (r *Rng) shuffleOdds(a []string, b []map[string]interface{}) {
	for i := len(a) - 1; i > 0; i-- {
		j := r.Intn(i + 1)
		a[i], a[j] = a[j], a[i]
		b[i], b[j] = b[j], b[i]
	}
}

func (g *detGen) marketUpdate() detMsg {
	r := g.r
	m := g.markets[r.Intn(len(g.markets))]
	start := uint64(g.now - 50 + r.Range(0, 100))
	end := uint64(g.now + r.Range(300, 3000))
	status := int(r.Pick([]int64{1, 1, 1, 1, 1, 1, 1, 1, 1, 1, 2, 5}))
	tk := g.ticket(g.signKey(), map[string]interface{}{"uid": m.uid, "start_ts": start, "end_ts": end, "status": status})
	if !g.lastBad && !m.resolved && status != 5 {
		m.inactive = status != 1
	}
	return detMsg{label: "market.update", mod: "market", msg: &markettypes.MsgUpdate{Creator: g.accts[0].String(), Ticket: tk}}
}

func (g *detGen) marketResolve() detMsg {
	r := g.r
	m := g.pickMarket()
	status := int(r.Pick([]int64{5, 5, 5, 5, 3, 4, 1}))
	winners := []string{}
	if status == 5 || r.Chance(5) {
		winners = []string{m.odds[r.Intn(len(m.odds))]}
		if r.Chance(4) {
			winners = []string{UID(clsOdds, 999)}
		}
	}
	ts := uint64(g.now - 60 + r.Range(0, 100))
	tk := g.ticket(g.signKey(), map[string]interface{}{"uid": m.uid, "resolution_ts": ts, "winner_odds_uids": winners, "status": status})
	if status != 1 {
		m.resolved = true
	}
	return detMsg{label: "market.resolve", mod: "market", msg: &markettypes.MsgResolve{Creator: g.accts[0].String(), Ticket: tk}}
}

func (g *detGen) houseDeposit(small bool) []detMsg {
	r := g.r
	m := g.pickMarket()
	creator := 1 + r.Intn(5)
	pd := 0
	if r.Chance(15) {
		pd = 1 + r.Intn(5)
	}
	who := creator
	if pd != 0 && pd != creator {
		who = pd
	}
	amount := r.Pick([]int64{100, 101, 250, 500, 1000, 2500, 10000, 50000, 50000})
	if r.Chance(30) {
		amount = r.Range(100, 8000)
	}
	if small {
		amount = r.Range(2, 40)
	}
	if r.Chance(4) {
		amount = r.Pick([]int64{1, 2, 9, 10, 50, 99})
	}
	var out []detMsg
	if who != creator && r.Chance(80) {
		exp := time.Unix(g.now+r.Range(1, 600), 0).UTC()
		a := &housetypes.DepositAuthorization{SpendLimit: sdkmath.NewInt(amount + r.Pick([]int64{0, 0, -1, 1, 100, 1000}))}
		if gm, err := authz.NewMsgGrant(g.accts[who], g.accts[creator], a, &exp); err == nil {
			out = append(out, detMsg{label: "authz.grant", mod: "authz", msg: gm})
		}
	}
	claims := map[string]interface{}{"kyc_data": g.kyc(who)}
	if pd != 0 {
		claims["depositor_address"] = g.accts[pd].String()
	}
	tk := g.ticket(g.signKey(), claims)
	if !g.lastBad && !m.resolved && amount >= 100 {
		m.deposits++
		m.holders = append(m.holders, who)
	}
	out = append(out, detMsg{label: "house.deposit", mod: "house",
		msg: &housetypes.MsgDeposit{Creator: g.accts[creator].String(), MarketUID: m.uid, Amount: sdkmath.NewInt(amount), Ticket: tk}})
	return out
}

func (g *detGen) houseWithdraw() detMsg {
	r := g.r
	m := g.pickMarket()
	creator := 1 + r.Intn(5)
	idx := uint64(r.Range(1, int64(m.deposits)+1))
	if len(m.holders) > 0 && r.Chance(85) {
		i := r.Intn(len(m.holders))
		idx, creator = uint64(i+1), m.holders[i]
	}
	mode := int(r.Pick([]int64{1, 1, 2, 2, 2, 2, 2, 2, 2, 2, 2, 0}))
	amount := r.Pick([]int64{1, 5, 10, 45, 90, 100, 450, 900, 1000})
	tk := g.ticket(g.signKey(), map[string]interface{}{"kyc_data": g.kyc(creator)})
	return detMsg{label: "house.withdraw", mod: "house", msg: &housetypes.MsgWithdraw{Creator: g.accts[creator].String(), MarketUID: m.uid,
		ParticipationIndex: idx, Mode: housetypes.WithdrawalMode(mode), Amount: sdkmath.NewInt(amount), Ticket: tk}}
}

var detOddsVals = []string{"1.5", "2", "1.000000000000000731", "3", "7", "1.25", "1.37", "2.718281828459045235", "1.1", "4.2", "1.01", "1.5", "1.8"}
var detMults = []string{"1", "1", "1", "1", "0.5", "0.7", "0.9", "0.333333333333333333", "0.1", "0.8"}

// wagerTickets builds the wager ticket of bettor `who` twice: with the all_odds list in a drawn order, and with
// the same list reversed. The list has one entry per outcome of the market (rarely one is missing, rarely one
// is repeated with the same multiplier), so both tickets denote the same map[string]*BetOddsCompact.
func (g *detGen) wagerTickets(m *detMarket, who int, small bool) (string, string, string) {
	r := g.r
	sel := m.odds[r.Intn(len(m.odds))]
	if r.Chance(3) {
		sel = UID(clsOdds, 998)
	}
	ov := detOddsVals[r.Intn(len(detOddsVals))]
	if small {
		ov = []string{"2", "3", "5", "10", "20"}[r.Intn(5)]
	}
	if r.Chance(2) {
		ov = "1.2.3"
	}
	mult := detMults[r.Intn(len(detMults))]
	if r.Chance(2) {
		mult = []string{"0", "1.5", "0.000000000000000001"}[r.Intn(3)]
	}
	var all []map[string]interface{}
	for _, o := range m.odds {
		if r.Chance(1) {
			continue
		}
		all = append(all, map[string]interface{}{"uid": o, "max_loss_multiplier": detMults[r.Intn(len(detMults))]})
	}
	if r.Chance(4) && len(all) > 0 {
		d := all[r.Intn(len(all))]
		all = append(all, map[string]interface{}{"uid": d["uid"], "max_loss_multiplier": d["max_loss_multiplier"]})
	}
	for i := len(all) - 1; i > 0; i-- { // ticket order is unrelated to the market's outcome order
		j := r.Intn(i + 1)
		all[i], all[j] = all[j], all[i]
	}
	rev := make([]map[string]interface{}, len(all))
	for i := range all {
		rev[len(all)-1-i] = all[i]
	}
	typ := 1
	if r.Chance(2) {
		typ = 7
	}
	kyc := g.kyc(who)
	key := g.signKey()
	mk := func(l []map[string]interface{}) string {
		return g.ticketFixed(key, map[string]interface{}{
			"selected_odds": map[string]interface{}{"uid": sel, "market_uid": m.uid, "value": ov, "max_loss_multiplier": mult},
			"kyc_data":      kyc, "all_odds": l, "meta": map[string]interface{}{"selected_odds_type": typ, "selected_odds_value": ov, "is_main_market": false},
		})
	}
	return mk(all), mk(rev), ov
}

// ticketFixed is `ticket` without random draws (two tickets built from one set of choices).
func (g *detGen) ticketFixed(key int, claims map[string]interface{}) string {
	mc := jwt.MapClaims{"exp": g.now + 1000, "iat": g.now - 10}
	for k, v := range claims {
		mc[k] = v
	}
	s, err := jwt.NewWithClaims(jwt.SigningMethodEdDSA, mc).SignedString(g.priv[key])
	must(err)
	return s
}

func (g *detGen) wagerAmount(small bool) int64 {
	r := g.r
	amount := r.Pick([]int64{2, 3, 5, 10, 22, 50, 51, 100, 492})
	if r.Chance(40) {
		amount = r.Range(2, 600)
	}
	if small {
		amount = r.Range(2, 60)
	}
	if amount < g.betMin && r.Chance(90) {
		amount = g.betMin + r.Range(0, 40)
	}
	if r.Chance(3) {
		amount = r.Range(0, 2)
	}
	return amount
}

func (g *detGen) wager(small bool) detMsg {
	r := g.r
	m := g.pickMarket()
	creator := 6 + r.Intn(5)
	bn := g.nextBet
	if r.Chance(4) && g.nextBet > 1 {
		bn = 1 + r.Intn(g.nextBet-1) // replayed uid
	} else {
		g.nextBet++
	}
	t1, t2, _ := g.wagerTickets(m, creator, small)
	amount := g.wagerAmount(small)
	mk := func(t string) sdk.Msg {
		return &bettypes.MsgWager{Creator: g.accts[creator].String(), Props: &bettypes.WagerProps{UID: UID(clsBet, bn), Amount: sdkmath.NewInt(amount), Ticket: t}}
	}
	return detMsg{label: "bet.wager", mod: "bet", msg: mk(t1), alt: mk(t2)}
}

func (g *detGen) locks() []subtypes.LockedBalance {
	r := g.r
	var ls []subtypes.LockedBalance
	for i, n := 0, 1+r.Intn(3); i < n; i++ {
		ts := uint64(g.now + r.Pick([]int64{1, 5, 30, 100, 1000, 5000}))
		if r.Chance(4) {
			ts = uint64(g.now - 1)
		}
		ls = append(ls, subtypes.LockedBalance{UnlockTS: ts, Amount: sdkmath.NewInt(r.Pick([]int64{0, 10, 100, 1000, 5000}))})
	}
	return ls
}

func (g *detGen) subCreate() detMsg {
	r := g.r
	creator, owner := 1+r.Intn(10), 6+r.Intn(5)
	g.subs[owner] = true
	return detMsg{label: "sub.create", mod: "subaccount", msg: &subtypes.MsgCreate{Creator: g.accts[creator].String(), Owner: g.accts[owner].String(), LockedBalances: g.locks()}}
}

func (g *detGen) subOwner() int {
	var os []int
	for o := range g.subs { // the generator's own map: sorted before use
		os = append(os, o)
	}
	sort.Ints(os)
	if len(os) == 0 || g.r.Chance(5) {
		return 6 + g.r.Intn(5)
	}
	return os[g.r.Intn(len(os))]
}

func (g *detGen) subTopUp() detMsg {
	return detMsg{label: "sub.topup", mod: "subaccount", msg: &subtypes.MsgTopUp{Creator: g.accts[1+g.r.Intn(10)].String(), Address: g.accts[g.subOwner()].String(), LockedBalances: g.locks()}}
}

func (g *detGen) subWithdraw() detMsg {
	return detMsg{label: "sub.withdraw-unlocked", mod: "subaccount", msg: &subtypes.MsgWithdrawUnlockedBalances{Creator: g.accts[g.subOwner()].String()}}
}

func (g *detGen) subWager(small bool) detMsg {
	r := g.r
	m := g.pickMarket()
	owner := g.subOwner()
	bn := g.nextBet
	g.nextBet++
	t1, t2, _ := g.wagerTickets(m, owner, small)
	amount := g.wagerAmount(small)
	sub := r.Pick([]int64{0, amount, amount / 2, amount - 1, 10})
	key := g.signKey()
	mk := func(t string) sdk.Msg {
		inner := bettypes.MsgWager{Creator: g.accts[owner].String(), Props: &bettypes.WagerProps{UID: UID(clsBet, bn), Amount: sdkmath.NewInt(amount), Ticket: t}}
		tk := g.ticketFixed(key, map[string]interface{}{"msg": inner, "mainacc_deduct_amount": sdkmath.NewInt(amount - sub), "subacc_deduct_amount": sdkmath.NewInt(sub)})
		return &subtypes.MsgWager{Creator: g.accts[owner].String(), Ticket: tk}
	}
	return detMsg{label: "sub.wager", mod: "subaccount", msg: mk(t1), alt: mk(t2)}
}

func (g *detGen) subHouseDeposit() detMsg {
	r := g.r
	m := g.pickMarket()
	owner := g.subOwner()
	amt := r.Pick([]int64{10, 50, 100, 500, 1000})
	tk := g.ticket(g.signKey(), map[string]interface{}{"kyc_data": g.kyc(owner)})
	inner := &housetypes.MsgDeposit{Creator: g.accts[owner].String(), MarketUID: m.uid, Amount: sdkmath.NewInt(amt), Ticket: tk}
	return detMsg{label: "sub.house-deposit", mod: "subaccount", msg: &subtypes.MsgHouseDeposit{Msg: inner}}
}

func (g *detGen) ovmPropose() detMsg {
	r := g.r
	// the leader (key 0) stays first, so that the tickets of the rest of the history keep verifying whatever
	// the outcome of the vote is; one of the other keys is replaced by a new one; sometimes a repeated entry
	// (RemoveDuplicateStrs) and sometimes surrounding blanks (TrimSpace)
	nk := 4 + r.Intn(detOvmKeys-4)
	keys := []string{g.pem[0], g.pem[1], g.pem[2], g.pem[3]}
	keys[1+r.Intn(3)] = g.pem[nk]
	if r.Chance(40) {
		keys = append(keys, keys[r.Intn(len(keys))])
	}
	if r.Chance(30) {
		keys = append(keys, g.pem[4+r.Intn(detOvmKeys-4)])
	}
	if r.Chance(20) {
		keys[2] = "  " + keys[2] + "\n"
	}
	leader := 0
	if r.Chance(5) {
		leader = 9
	}
	g.nProps++
	tk := g.ticket(r.Intn(4), map[string]interface{}{"public_keys": keys, "leader_index": leader})
	return detMsg{label: "ovm.propose", mod: "ovm", msg: &ovmtypes.MsgSubmitPubkeysChangeProposalRequest{Creator: g.accts[1+r.Intn(5)].String(), Ticket: tk}}
}

func (g *detGen) ovmVote() detMsg {
	r := g.r
	pid := uint64(1)
	if g.nProps > 0 {
		pid = uint64(g.nProps) // mostly the latest proposal (earlier ones are usually decided)
		if r.Chance(25) {
			pid = uint64(1 + r.Intn(g.nProps))
		}
	}
	voter := r.Intn(4)
	signer := voter
	if r.Chance(10) {
		signer = r.Intn(detOvmKeys)
	}
	vote := int(r.Pick([]int64{2, 2, 2, 2, 2, 2, 1, 1, 1, 0}))
	tk := g.ticket(signer, map[string]interface{}{"proposal_id": pid, "vote": vote})
	return detMsg{label: "ovm.vote", mod: "ovm", msg: &ovmtypes.MsgVotePubkeysChangeRequest{Creator: g.accts[1+r.Intn(5)].String(), Ticket: tk, VoterKeyIndex: uint32(voter)}}
}

func (g *detGen) bankSend() detMsg {
	r := g.r
	a, b := r.Intn(NAcct), r.Intn(NAcct)
	amt := sdk.NewCoins(sdk.NewCoin(params.DefaultBondDenom, sdkmath.NewInt(r.Range(1, 5000))))
	return detMsg{label: "bank.send", mod: "bank", msg: banktypes.NewMsgSend(g.accts[a], g.accts[b], amt)}
}

func (g *detGen) campaign() detMsg {
	r := g.r
	g.nCamp++
	claims := map[string]interface{}{
		"promoter": g.accts[g.prom].String(), "start_ts": g.now - 5, "end_ts": g.now + r.Range(50, 5000),
		"category": rewardtypes.RewardCategory_REWARD_CATEGORY_SIGNUP, "reward_type": rewardtypes.RewardType_REWARD_TYPE_SIGNUP,
		"reward_amount_type": rewardtypes.RewardAmountType_REWARD_AMOUNT_TYPE_FIXED,
		"reward_amount":      rewardtypes.RewardAmount{SubaccountAmount: sdkmath.NewInt(r.Pick([]int64{10, 100, 500})), UnlockPeriod: uint64(r.Pick([]int64{10, 100, 1000}))},
		"is_active":          true, "meta": "c", "cap_count": r.Pick([]int64{0, 1, 2}),
	}
	creator := g.prom
	if r.Chance(8) {
		creator = 1 + r.Intn(5)
	}
	tk := g.ticket(g.signKey(), claims)
	return detMsg{label: "reward.campaign", mod: "reward", msg: &rewardtypes.MsgCreateCampaign{Creator: g.accts[creator].String(), Uid: UID(0x05, g.nCamp),
		TotalFunds: sdkmath.NewInt(r.Pick([]int64{100, 1000, 5000})), Ticket: tk}}
}

func (g *detGen) grantReward() detMsg {
	r := g.r
	g.nRew++
	camp := 1
	if g.nCamp > 0 {
		camp = 1 + r.Intn(g.nCamp)
	}
	recv := 6 + r.Intn(5)
	common := rewardtypes.RewardPayloadCommon{Receiver: g.accts[recv].String(), SourceUID: "", Meta: "r"}
	claims := map[string]interface{}{"common": map[string]interface{}{"receiver": common.Receiver, "source_uid": "", "meta": "r",
		"kyc_data": map[string]interface{}{"ignore": false, "approved": true, "id": common.Receiver}}}
	tk := g.ticket(g.signKey(), claims)
	g.subs[recv] = true
	return detMsg{label: "reward.grant", mod: "reward", msg: &rewardtypes.MsgGrantReward{Creator: g.accts[g.prom].String(), Uid: UID(0x06, g.nRew),
		CampaignUid: UID(0x05, camp), Ticket: tk}}
}

// genDetHistory: the history `h` of run `seed`. Pure: no application, no clock, no global state.
func genDetHistory(seed uint64, h int) *detHist {
	r := NewRng(seed*1_000_003 + uint64(h))
	g := &detGen{r: r, accts: detAccounts(), nextBet: 1, subs: map[int]bool{}}
	for i := 0; i < detOvmKeys; i++ {
		_, priv, pem := detKey(strconv.Itoa(i))
		g.priv = append(g.priv, priv)
		g.pem = append(g.pem, pem)
	}
	small := r.Intn(4) == 0 // many tiny participations: bets split over several participations and rounds
	hd := &detHist{}
	hd.p = detParams{
		betBatch: uint32(r.Pick([]int64{1, 2, 3, 5, 1000})), betMin: r.Pick([]int64{2, 2, 5, 10, 50}), betFee: r.Pick([]int64{0, 0, 1, 1, 2}),
		houseMin: r.Pick([]int64{2, 10, 100}), houseFee: []string{"0", "0.1", "0.01", "0.05", "0.333333333333333333"}[r.Intn(5)],
		houseMaxW: uint64(r.Range(1, 3)), obMaxPart: uint64(r.Pick([]int64{2, 4, 8, 100, 100, 100})), obBatch: uint64(r.Pick([]int64{1, 2, 3, 100})),
		obRequeue: uint64(r.Pick([]int64{0, 0, 1, 5, 29, 1000})), promoterOf: 1 + r.Intn(5),
		govPeriod: r.Pick([]int64{3, 10, 10, 40}),
	}
	if small {
		hd.p.houseMin, hd.p.houseFee, hd.p.obMaxPart, hd.p.betMin = 2, "0", 100, 2
		hd.p.obRequeue = uint64(r.Pick([]int64{0, 0, 0, 1}))
	}
	if hd.p.betFee >= hd.p.betMin {
		hd.p.betFee = hd.p.betMin - 1 // x/bet: the fee must be lower than the minimum bet amount
	}
	g.prom, g.betMin, g.govPeriod = hd.p.promoterOf, hd.p.betMin, hd.p.govPeriod
	g.now = BaseTime + 100
	nBlocks := 6 + r.Intn(9)
	for b := 0; b < nBlocks; b++ {
		g.now += r.Pick([]int64{1, 5, 5, 30, 200})
		blk := detBlock{time: g.now}
		g.txn = 0
		nMsgs := r.Intn(9)
		if b == 0 {
			nMsgs = 4 + r.Intn(5)
		}
		if r.Chance(8) {
			nMsgs = 0 // empty block: settlement batches and the mint go on
		}
		if b == 0 {
			// prologue: a market with liquidity, two subaccounts, a reward campaign
			blk.msgs = append(blk.msgs, g.marketAdd())
			for len(g.markets) == 0 {
				blk.msgs = append(blk.msgs, g.marketAdd())
			}
			for i, k := 0, 2+r.Intn(3); i < k; i++ {
				blk.msgs = append(blk.msgs, g.houseDeposit(small)...)
			}
			blk.msgs = append(blk.msgs, g.subCreate(), g.subCreate())
			if r.Chance(60) {
				blk.msgs = append(blk.msgs, g.campaign())
			}
		}
		for i := 0; i < nMsgs; i++ {
			c := r.Intn(100)
			if small && b < 2 && r.Chance(70) && len(g.markets) > 0 {
				c = 30
			}
			live := 0
			for _, m := range g.markets {
				if !m.resolved && !m.inactive {
					live++
				}
			}
			if live == 0 && len(g.markets) < 8 && r.Chance(85) {
				// every market is resolved or switched off: open a new one and fund it
				blk.msgs = append(blk.msgs, g.marketAdd())
				if len(g.markets) > 0 {
					blk.msgs = append(blk.msgs, g.houseDeposit(small)...)
				}
				continue
			}
			// operations that can separate process memory from the committed store (suite_determinism_tx.go)
			if c2 := r.Intn(100); c2 < 16 && len(g.markets) > 0 {
				switch {
				case c2 < 4:
					blk.msgs = append(blk.msgs, g.govExec()...)
				case c2 < 7:
					blk.msgs = append(blk.msgs, g.govProposal()...)
				case c2 < 9:
					blk.msgs = append(blk.msgs, g.legacyChange())
				default:
					blk.msgs = append(blk.msgs, g.userTx(small)...)
				}
				continue
			}
			switch {
			case len(g.markets) == 0 || (c < 5 && len(g.markets) < 4):
				blk.msgs = append(blk.msgs, g.marketAdd())
			case c < 8:
				blk.msgs = append(blk.msgs, g.marketUpdate())
			case c < 15:
				if b*2 < nBlocks && r.Chance(70) {
					blk.msgs = append(blk.msgs, g.wager(small))
				} else {
					blk.msgs = append(blk.msgs, g.marketResolve())
				}
			case c < 36:
				blk.msgs = append(blk.msgs, g.houseDeposit(small)...)
			case c < 41:
				blk.msgs = append(blk.msgs, g.houseWithdraw())
			case c < 72:
				blk.msgs = append(blk.msgs, g.wager(small))
			case c < 76:
				blk.msgs = append(blk.msgs, g.subCreate())
			case c < 78:
				blk.msgs = append(blk.msgs, g.subTopUp())
			case c < 80:
				blk.msgs = append(blk.msgs, g.subWithdraw())
			case c < 86:
				blk.msgs = append(blk.msgs, g.subWager(small))
			case c < 87:
				if r.Chance(30) {
					blk.msgs = append(blk.msgs, g.subHouseDeposit()) // disabled in the message server: error path only
				} else {
					blk.msgs = append(blk.msgs, g.grantReward())
				}
			case c < 90:
				blk.msgs = append(blk.msgs, g.ovmPropose())
				if r.Chance(35) {
					// a super-majority at once: the end-blocker replaces the vault (RemoveDuplicateStrs, leader first)
					for v := 0; v < 3; v++ {
						tk := g.ticket(v, map[string]interface{}{"proposal_id": g.nProps, "vote": 2})
						blk.msgs = append(blk.msgs, detMsg{label: "ovm.vote", mod: "ovm", msg: &ovmtypes.MsgVotePubkeysChangeRequest{
							Creator: g.accts[1+r.Intn(5)].String(), Ticket: tk, VoterKeyIndex: uint32(v)}})
					}
				}
			case c < 95:
				if g.nProps == 0 && r.Chance(90) {
					blk.msgs = append(blk.msgs, g.ovmPropose())
				} else {
					blk.msgs = append(blk.msgs, g.ovmVote())
				}
			case c < 97:
				blk.msgs = append(blk.msgs, g.campaign())
			case c < 99:
				if g.nCamp == 0 && r.Chance(90) {
					blk.msgs = append(blk.msgs, g.campaign())
				} else {
					blk.msgs = append(blk.msgs, g.grantReward())
				}
			default:
				blk.msgs = append(blk.msgs, g.bankSend())
			}
		}
		for i := range blk.msgs {
			var err error
			blk.msgs[i].bz, err = proto.Marshal(blk.msgs[i].msg)
			must(err)
			if blk.msgs[i].alt != nil {
				blk.msgs[i].altBz, err = proto.Marshal(blk.msgs[i].alt)
				must(err)
			}
		}
		hd.blocks = append(hd.blocks, blk)
	}
	hd.restarts = g.drawRestarts(hd.blocks)
	return hd
}

// ---------------------------------------------------------------------------------------------
// execution

type detRec struct {
	kind string // apphash | events | result | message | block
	mod  string // module / phase the line belongs to
	line string
}

type detRun struct {
	recs []detRec
	// statistics of this execution
	ok, fail map[string]int
	events   int
	reach    map[string]int
	halted   bool
	// atomic groups (suite_determinism_tx.go): messages that succeeded in a group that was rolled back, messages
	// never executed because an earlier one of their group failed, groups per outcome, failed messages / groups
	// that had written to the cache context before failing
	rolled, skipped, groups, wrote map[string]int
	// restarted replica
	restarts   int
	restartErr string
	simulated  int     // messages executed in simulations (simulating replica)
	dump       []detKV // contents of the store opts.dumpStore after the Commit of height opts.dumpAt
}

type detKV struct{ k, v string }

// detOpts selects the variant of an execution.
type detOpts struct {
	alt       bool   // wager tickets with the all_odds list reversed
	restart   bool   // stop and start the application (Env.Restart) at the boundaries hd.restarts
	simulate  bool   // serve a simulation (gas estimation) of every transaction of a block before the block is executed
	dumpAt    int64  // dump the store dumpStore after the Commit of this height (0: never)
	dumpStore string //
}

var detAddrRe = regexp.MustCompile(`0x[0-9a-f]{6,}`)

// detHalt runs a begin/end-blocker; a panic is returned as text (first line, bounded; the panic value of a
// node that halts is not chain data, and Go prints pointers in it: addresses are masked), "" otherwise.
func detHalt(f func()) (what string) {
	defer func() {
		if r := recover(); r != nil {
			what = strconv.Quote(trunc(detAddrRe.ReplaceAllString(strings.SplitN(fmt.Sprint(r), "\n", 2)[0], "0x?"), 160))
		}
	}()
	f()
	return ""
}

func (d *detRun) add(kind, mod, format string, a ...interface{}) {
	d.recs = append(d.recs, detRec{kind: kind, mod: mod, line: fmt.Sprintf(format, a...)})
}

func fmtEvent(where string, ev abci.Event) string {
	var sb strings.Builder
	sb.WriteString("ev ")
	sb.WriteString(where)
	sb.WriteByte(' ')
	sb.WriteString(ev.Type)
	for _, a := range ev.Attributes {
		sb.WriteByte(' ')
		sb.WriteString(strconv.Quote(a.Key))
		sb.WriteByte('=')
		sb.WriteString(strconv.Quote(a.Value))
	}
	return sb.String()
}

func eventModule(ev abci.Event) string {
	for _, a := range ev.Attributes {
		if a.Key == "module" {
			return a.Value
		}
	}
	return ev.Type
}

func short(b []byte) string {
	h := sha256.Sum256(b)
	return hex.EncodeToString(h[:8])
}

// storeHashes: commit hash of every store of the multistore after the last Commit, sorted by store name.
func storeHashes(e *Env) string {
	rs, ok := e.App.CommitMultiStore().(*rootmulti.Store)
	if !ok {
		return "-"
	}
	ci, err := rs.GetCommitInfo(rs.LastCommitID().Version)
	if err != nil {
		return "-"
	}
	var ss []string
	for _, si := range ci.StoreInfos {
		ss = append(ss, si.Name+"="+hex.EncodeToString(si.CommitId.Hash)[:10])
	}
	sort.Strings(ss)
	return strings.Join(ss, " ")
}

// execDet executes a history on a fresh application.
func execDet(hd *detHist, opts detOpts) *detRun {
	alt := opts.alt
	d := &detRun{ok: map[string]int{}, fail: map[string]int{}, rolled: map[string]int{}, skipped: map[string]int{},
		groups: map[string]int{}, wrote: map[string]int{}}
	e := NewEnv(1_000_000, 4) // the MemDB under the multistore is e.DB
	for i, a := range detAccounts() {
		if !a.Equals(e.Accts[i]) {
			panic("determinism suite: account derivation differs from NewEnv")
		}
	}
	app := e.App
	d.add("apphash", "genesis", "g %s", hex.EncodeToString(app.LastCommitID().Hash))
	d.add("apphash", "genesis", "gs %s", storeHashes(e))

	// set-up block (height 2; NewEnv has already run its BeginBlock): parameters of the history, reward promoter
	bp := app.BetKeeper.GetParams(e.Ctx)
	bp.BatchSettlementCount = hd.p.betBatch
	bp.Constraints.MinAmount = sdkmath.NewInt(hd.p.betMin)
	bp.Constraints.Fee = sdkmath.NewInt(hd.p.betFee)
	if err := bp.Validate(); err == nil {
		app.BetKeeper.SetParams(e.Ctx, bp)
	} else {
		d.add("result", "setup", "p bet default (drawn set rejected by Params.Validate)") // the tree's validators decide
	}
	hp := app.HouseKeeper.GetParams(e.Ctx)
	hp.MinDeposit = sdkmath.NewInt(hd.p.houseMin)
	hp.HouseParticipationFee = sdkmath.LegacyMustNewDecFromStr(hd.p.houseFee)
	hp.MaxWithdrawalCount = hd.p.houseMaxW
	if err := hp.Validate(); err == nil {
		app.HouseKeeper.SetParams(e.Ctx, hp)
	} else {
		d.add("result", "setup", "p house default (drawn set rejected by Params.Validate)")
	}
	op := app.OrderbookKeeper.GetParams(e.Ctx)
	op.MaxOrderBookParticipations = hd.p.obMaxPart
	op.BatchSettlementCount = hd.p.obBatch
	op.RequeueThreshold = hd.p.obRequeue
	if err := op.Validate(); err == nil {
		app.OrderbookKeeper.SetParams(e.Ctx, op)
	} else {
		d.add("result", "setup", "p orderbook default (drawn set rejected by Params.Validate)")
	}
	prom := e.Accts[hd.p.promoterOf].String()
	app.RewardKeeper.SetPromoter(e.Ctx, rewardtypes.Promoter{Creator: prom, UID: UID(0x04, 1), Addresses: []string{prom},
		Conf: rewardtypes.PromoterConf{CategoryCap: []rewardtypes.CategoryCap{{Category: rewardtypes.RewardCategory_REWARD_CATEGORY_SIGNUP, CapPerAcc: 2}}}})
	app.RewardKeeper.SetPromoterByAddress(e.Ctx, rewardtypes.PromoterByAddress{Address: prom, PromoterUID: UID(0x04, 1)})
	// x/gov: deposits in usge, a voting period of seconds (the chain's would be days)
	gp := app.GovKeeper.GetParams(e.Ctx)
	gp.MinDeposit = sdk.NewCoins(sdk.NewCoin(params.DefaultBondDenom, sdkmath.NewInt(detGovDeposit)))
	vp := time.Duration(hd.p.govPeriod) * time.Second
	gp.VotingPeriod = &vp
	must(app.GovKeeper.SetParams(e.Ctx, gp))
	height := e.Height
	eb := app.EndBlock(abci.RequestEndBlock{Height: height})
	for _, ev := range eb.Events {
		d.add("events", "setup/"+eventModule(ev), "%s", fmtEvent("S", ev))
	}
	app.Commit()
	d.add("apphash", "setup", "s %s", hex.EncodeToString(app.LastCommitID().Hash))
	d.add("apphash", "setup", "ss %s", storeHashes(e))

	// boundary: the restarted replica stops here and a new application instance is started over the same database
	boundary := func(b int) bool {
		d.dumpIf(e, opts, height)
		if !opts.restart {
			return true
		}
		for _, rb := range hd.restarts {
			if rb == b {
				if what := e.Restart(); what != "" {
					d.restartErr = fmt.Sprintf("after block index %d (height %d): %s", b, height, what)
					return false
				}
				app = e.App
				d.restarts++
			}
		}
		return true
	}
	if !boundary(-1) {
		return d
	}
	for bi, blk := range hd.blocks {
		height++
		hdr := tmproto.Header{Height: height, Time: time.Unix(blk.time, 0).UTC(), AppHash: app.LastCommitID().Hash}
		if opts.simulate {
			d.simulated += simulateBlock(app.NewContext(true, hdr), func(msg sdk.Msg) func(ctx sdk.Context, req sdk.Msg) (*sdk.Result, error) {
				return app.MsgServiceRouter().Handler(msg)
			}, blk.msgs, func(m *detMsg) sdk.Msg { return m.fresh(alt, app.InterfaceRegistry()) })
		}
		d.add("block", "block", "b %d %d %d", height, blk.time, len(blk.msgs))
		var bb abci.ResponseBeginBlock
		if what := detHalt(func() { bb = app.BeginBlock(abci.RequestBeginBlock{Header: hdr}) }); what != "" {
			d.add("result", "beginblock", "halt B %d %s", height, what)
			d.halted = true
			break
		}
		for _, ev := range bb.Events {
			d.events++
			d.add("events", "beginblock/"+eventModule(ev), "%s", fmtEvent("B", ev))
		}
		ctx := app.NewContext(false, hdr)
		route := func(msg sdk.Msg) func(ctx sdk.Context, req sdk.Msg) (*sdk.Result, error) {
			return app.MsgServiceRouter().Handler(msg)
		}
		decode := func(m *detMsg) sdk.Msg { return m.fresh(alt, app.InterfaceRegistry()) }
		for i := 0; i < len(blk.msgs); {
			j := i + 1
			for blk.msgs[i].tx != 0 && j < len(blk.msgs) && blk.msgs[j].tx == blk.msgs[i].tx {
				j++
			}
			d.deliverGroup(route, ctx, blk.msgs[i:j], i, alt, decode)
			i = j
		}
		var eb abci.ResponseEndBlock
		if what := detHalt(func() { eb = app.EndBlock(abci.RequestEndBlock{Height: height}) }); what != "" {
			// a panic in an end-blocker halts the chain (property C05, not C15): every replica must halt here,
			// for the same reason; nothing is committed for this block
			d.add("result", "endblock", "halt E %d %s", height, what)
			d.halted = true
			break
		}
		for _, ev := range eb.Events {
			d.events++
			d.add("events", "endblock/"+eventModule(ev), "%s", fmtEvent("E", ev))
			if ev.Type == "active_proposal" { // x/gov's EndBlocker closed the voting period of a proposal
				for _, at := range ev.Attributes {
					if at.Key == "proposal_result" {
						d.groups["x/gov-endblocker."+at.Value]++
					}
				}
			}
		}
		d.add("result", "endblock", "eb %d validator_updates=%d", height, len(eb.ValidatorUpdates))
		app.Commit()
		d.add("apphash", "block", "h %d %s", height, hex.EncodeToString(app.LastCommitID().Hash))
		d.add("apphash", "block", "hs %d %s", height, storeHashes(e))
		if bi < len(hd.blocks)-1 && !boundary(bi) {
			return d
		}
		if bi == len(hd.blocks)-1 {
			d.dumpIf(e, opts, height)
		}
	}
	if d.halted {
		d.reach = map[string]int{"chain-halt(begin/end-blocker panic, see C05)": 1}
		return d
	}
	// what the history reached (statistics only, read from the committed state)
	qctx := app.NewContext(true, tmproto.Header{Height: height})
	d.reach = map[string]int{}
	if bets, err := app.BetKeeper.GetBets(qctx); err == nil {
		for _, b := range bets {
			d.reach["bets"]++
			if len(b.BetFulfillment) >= 2 {
				d.reach["bets.split-over-participations"]++
			}
			if b.Status == bettypes.Bet_STATUS_SETTLED {
				d.reach["bets.settled."+b.Result.String()]++
			}
		}
	}
	if hs, err := app.OrderbookKeeper.GetAllHistoricalParticipationExposures(qctx); err == nil {
		d.reach["exposures.moved-to-history(requeue)"] = len(hs)
	}
	if ps, err := app.OrderbookKeeper.GetAllOrderBookParticipations(qctx); err == nil {
		for _, p := range ps {
			d.reach["participations"]++
			if p.IsSettled {
				d.reach["participations.settled"]++
			}
		}
	}
	if kv, ok := app.OVMKeeper.GetKeyVault(qctx); ok && len(kv.PublicKeys) > 0 && kv.PublicKeys[len(kv.PublicKeys)-1] != e.OvmPub[3] {
		d.reach["ovm.vault-changed"]++
	}
	return d
}

// dumpIf records the contents of one store of the committed multistore (first-differing-key report).
func (d *detRun) dumpIf(e *Env, opts detOpts, height int64) {
	if opts.dumpAt == 0 || opts.dumpAt != height || d.dump != nil {
		return
	}
	d.dump = []detKV{}
	rs, ok := e.App.CommitMultiStore().(*rootmulti.Store)
	if !ok {
		return
	}
	kv, ok := rs.GetStoreByName(opts.dumpStore).(storetypes.KVStore)
	if !ok {
		return
	}
	it := kv.Iterator(nil, nil)
	defer it.Close()
	for ; it.Valid(); it.Next() {
		d.dump = append(d.dump, detKV{hex.EncodeToString(it.Key()), trunc(hex.EncodeToString(it.Value()), 96) + "#" + short(it.Value())})
	}
}

var detDebug = os.Getenv("VERIF_DET_DEBUG") == "1"

var errDetPanic = sdkerrors.Register("verifdet", 2, "panic")

// ---------------------------------------------------------------------------------------------
// comparison

// firstDiff returns the index of the first differing line of two record streams restricted to `kinds`
// (nil = all), or -1. Streams of different length differ at the end of the shorter one.
func firstDiff(a, b []detRec, kinds map[string]bool) (int, int) {
	fa := filterRecs(a, kinds)
	fb := filterRecs(b, kinds)
	for i := 0; i < len(fa) || i < len(fb); i++ {
		if i >= len(fa) || i >= len(fb) || a[fa[i]].line != b[fb[i]].line {
			ia, ib := -1, -1
			if i < len(fa) {
				ia = fa[i]
			}
			if i < len(fb) {
				ib = fb[i]
			}
			return ia, ib
		}
	}
	return -2, -2
}

func filterRecs(a []detRec, kinds map[string]bool) []int {
	var ix []int
	for i, r := range a {
		if kinds == nil || kinds[r.kind] {
			ix = append(ix, i)
		}
	}
	return ix
}

// diffStores names the first store whose commit hash differs between two "hs"/"gs"/"ss" lines.
func diffStores(a, b string) string {
	fa, fb := strings.Fields(a), strings.Fields(b)
	for i := 0; i < len(fa) && i < len(fb); i++ {
		if fa[i] != fb[i] && strings.Contains(fa[i], "=") {
			return fa[i][:strings.Index(fa[i], "=")]
		}
	}
	return "?"
}

// classify: "<kind>/<module>" of the first difference; for an app hash the module is the first differing store.
func classify(a, b []detRec, ia, ib int) (string, string) {
	get := func(x []detRec, i int) detRec {
		if i >= 0 && i < len(x) {
			return x[i]
		}
		return detRec{kind: "length", mod: "stream-ends", line: "<end of stream>"}
	}
	ra, rb := get(a, ia), get(b, ib)
	kind, mod := ra.kind, ra.mod
	if ra.kind == "length" {
		kind, mod = rb.kind, rb.mod
	}
	if kind == "apphash" && ia >= 0 && ib >= 0 && ia+1 < len(a) && ib+1 < len(b) {
		mod = "store-" + diffStores(a[ia+1].line, b[ib+1].line)
	}
	if kind == "message" {
		kind = "history-generation" // the replicas were not handed the same messages: a defect of this harness
	}
	return kind + "/" + mod, fmt.Sprintf("first difference: %q vs %q", trunc(ra.line, 400), trunc(rb.line, 400))
}

// recsFromLines rebuilds records from the child's stream (kinds and modules from the line prefixes; the module
// of message lines is taken from the corresponding line of execution 1 when the streams are aligned).
func recsFromLines(lines []string, like []detRec) []detRec {
	out := make([]detRec, len(lines))
	for i, l := range lines {
		r := detRec{line: l, kind: "result", mod: "?"}
		switch {
		case strings.HasPrefix(l, "g ") || strings.HasPrefix(l, "gs ") || strings.HasPrefix(l, "s ") || strings.HasPrefix(l, "ss ") ||
			strings.HasPrefix(l, "h ") || strings.HasPrefix(l, "hs "):
			r.kind = "apphash"
		case strings.HasPrefix(l, "ev "):
			r.kind = "events"
		case strings.HasPrefix(l, "m "):
			r.kind = "message"
		case strings.HasPrefix(l, "b "):
			r.kind = "block"
		}
		if i < len(like) && like[i].kind == r.kind {
			r.mod = like[i].mod
		}
		out[i] = r
	}
	return out
}

// ---------------------------------------------------------------------------------------------
// the suite

func detIsChild() bool { return os.Getenv("VERIF_DET_CHILD") == "1" }

// startChild re-invokes this test binary as a fresh process executing the same histories once each.
func startChild(seed uint64, n int, dir string) (*exec.Cmd, string) {
	cdir := filepath.Join(dir, "child")
	must(os.RemoveAll(cdir))
	must(os.MkdirAll(filepath.Join(cdir, "cwd"), 0o755))
	self, err := os.Executable() // = os.Args[0] made absolute (the child gets its own working directory)
	must(err)
	cmd := exec.Command(self, "-test.run", "^TestSuite$", "-test.timeout", "0")
	cmd.Dir = filepath.Join(cdir, "cwd") // own working directory (the app creates its wasm directories there)
	env := []string{}
	for _, kv := range os.Environ() {
		if strings.HasPrefix(kv, "GOMAXPROCS=") || strings.HasPrefix(kv, "VERIF_OUT=") || strings.HasPrefix(kv, "VERIF_DET_CHILD=") ||
			strings.HasPrefix(kv, "VERIF_SEED=") || strings.HasPrefix(kv, "VERIF_N=") || strings.HasPrefix(kv, "VERIF_SUITE=") {
			continue
		}
		env = append(env, kv)
	}
	env = append(env, "GOMAXPROCS=1", "VERIF_DET_CHILD=1", "VERIF_SUITE=determinism", "VERIF_OUT="+cdir,
		fmt.Sprintf("VERIF_SEED=%d", seed), fmt.Sprintf("VERIF_N=%d", n))
	cmd.Env = env
	var buf bytes.Buffer
	cmd.Stdout, cmd.Stderr = &buf, &buf
	must(cmd.Start())
	childLog = &buf
	return cmd, cdir
}

var childLog *bytes.Buffer

func readChild(cdir string) map[int][]string {
	f, err := os.Open(filepath.Join(cdir, "impl.txt"))
	must(err)
	defer f.Close()
	res := map[int][]string{}
	h := -1
	sc := bufio.NewScanner(f)
	sc.Buffer(make([]byte, 1<<20), 1<<26)
	for sc.Scan() {
		l := sc.Text()
		if strings.HasPrefix(l, "n ") {
			h, _ = strconv.Atoi(l[2:])
			res[h] = []string{}
			continue
		}
		res[h] = append(res[h], l)
	}
	must(sc.Err())
	return res
}

func runDeterminism(seed uint64, n int, out *Out) {
	if detIsChild() {
		// fresh-process replica: one execution per history, the stream goes to impl.txt of the child's directory
		for h := 0; h < n; h++ {
			if skipHist(h) {
				continue
			}
			d := execDet(genDetHistory(seed, h), detOpts{})
			out.Op("N %d", h)
			out.Impl("n %d", h)
			for _, r := range d.recs {
				out.Impl("%s", r.line)
			}
		}
		out.Stats["child.gomaxprocs"] = int64(runtime.GOMAXPROCS(0))
		out.Stats["child.pid"] = int64(os.Getpid())
		return
	}
	prev := runtime.GOMAXPROCS(8)
	defer runtime.GOMAXPROCS(prev)
	child, cdir := startChild(seed, n, out.dir)

	type kept struct {
		h    int
		recs []detRec
	}
	var all []kept
	appKinds := map[string]bool{"apphash": true, "events": true}
	for h := 0; h < n; h++ {
		if skipHist(h) {
			continue
		}
		hd := genDetHistory(seed, h)
		d1 := execDet(hd, detOpts{})
		d2 := execDet(hd, detOpts{})
		d3 := execDet(hd, detOpts{alt: true})
		d4 := execDet(hd, detOpts{restart: true})
		d5 := execDet(hd, detOpts{simulate: true})
		all = append(all, kept{h, d1.recs})
		out.Count("histories")
		out.Stats["blocks"] += int64(len(hd.blocks))
		out.Stats["events"] += int64(d1.events)
		out.Stats["executions.in-process"] += 5
		out.Stats["simulating-replica.handler-runs-in-simulations"] += int64(d5.simulated)
		out.Stats["restarts"] += int64(d4.restarts)
		for _, rb := range hd.restarts {
			if rb < 0 {
				out.Count("restarts.after-setup-block")
			}
		}
		for _, b := range hd.blocks {
			out.Stats["messages"] += int64(len(b.msgs))
			lastTx := 0
			for _, m := range b.msgs {
				if m.tx != 0 && m.tx != lastTx {
					if m.gov {
						out.Count("groups.authority(gov.exec)")
					} else {
						out.Count("groups.user-tx")
					}
				}
				lastTx = m.tx
				if m.tx != 0 {
					out.Count("messages.in-atomic-groups")
				}
				if strings.HasPrefix(m.label, "gov.legacy-param-change.") {
					out.Count("legacy-param-change.messages") // stand-alone, in a group, or inside a proposal: see msg.* for outcomes
				}
				if m.alt != nil {
					out.Count("messages.with-reversed-all_odds-variant")
				}
			}
		}
		for k, v := range d1.ok {
			out.Stats["msg."+k+".ok"] += int64(v)
		}
		for k, v := range d1.fail {
			out.Stats["msg."+k+".err"] += int64(v)
		}
		for k, v := range d1.reach {
			out.Stats["reach."+k] += int64(v)
		}
		for k, v := range d1.rolled {
			out.Stats["msg."+k+".ok-but-group-rolled-back"] += int64(v)
		}
		for k, v := range d1.skipped {
			out.Stats["msg."+k+".not-executed(earlier message of the group failed)"] += int64(v)
		}
		for k, v := range d1.groups {
			out.Stats["groups."+k] += int64(v)
		}
		for k, v := range d1.wrote {
			out.Stats["failed-after-writes."+k] += int64(v)
		}
		// (2) second in-process execution
		if ia, ib := firstDiff(d1.recs, d2.recs, nil); ia != -2 {
			cls, det := classify(d1.recs, d2.recs, ia, ib)
			out.Fail(MonFail{Property: "C15", Monitor: "replica_agreement", Class: cls, History: h,
				Detail: "two executions of the same history in one process disagree; " + det})
			// the list-order question is only meaningful against a reproducible baseline
			out.Count("ticket_list_order.skipped(no reproducible baseline)")
			continue
		}
		// (5) restarted replica: same blocks, the application stopped and started again at hd.restarts
		if d4.restartErr != "" {
			out.Fail(MonFail{Property: "C15", Monitor: "replica_agreement", Class: "restarted-replica-differs", History: h,
				Detail: "a new application instance over the same database does not resume the committed state " + d4.restartErr})
		} else if ia, ib := firstDiff(d1.recs, d4.recs, nil); ia != -2 {
			out.Fail(MonFail{Property: "C15", Monitor: "replica_agreement", Class: "restarted-replica-differs", History: h,
				Detail: restartDetail(hd, d1, d4, ia, ib)})
		}
		// (6) simulating replica: the same blocks, every transaction first simulated on the check state
		if ia, ib := firstDiff(d1.recs, d5.recs, nil); ia != -2 {
			cls, det := classify(d1.recs, d5.recs, ia, ib)
			i := ia
			if i < 0 {
				i = ib
			}
			out.Fail(MonFail{Property: "C15", Monitor: "replica_agreement", Class: "simulating-replica-differs", History: h,
				Detail: fmt.Sprintf("the replica that served a simulation of every transaction before executing the block disagrees with the replica that served none; in block %d: %s, %s",
					heightOf(d1.recs, i), cls, det)})
		}
		// (4) reversed all_odds lists: state and events are those of the original tickets
		if ia, ib := firstDiff(d1.recs, d3.recs, appKinds); ia != -2 {
			cls, det := classify(d1.recs, d3.recs, ia, ib)
			out.Fail(MonFail{Property: "C15", Monitor: "ticket_list_order", Class: cls, History: h,
				Detail: "reversing the all_odds list of the wager tickets changes the outcome; " + det})
		}
		// the two result streams must also agree on ok/err per message (the response data carries the ticket)
		if a, b := okErrLines(d1.recs), okErrLines(d3.recs); a != b {
			out.Fail(MonFail{Property: "C15", Monitor: "ticket_list_order", Class: "result/accept-reject", History: h,
				Detail: "reversing the all_odds list of the wager tickets changes which messages succeed: " + trunc(a, 200) + " vs " + trunc(b, 200)})
		}
	}

	// (3) fresh process
	if err := child.Wait(); err != nil {
		panic(fmt.Sprintf("determinism suite: fresh-process execution failed: %v\n%s", err, trunc(childLog.String(), 3000)))
	}
	cl := readChild(cdir)
	out.Stats["executions.fresh-process"] = int64(len(cl))
	for _, k := range all {
		out.Op("N %d", k.h)
		out.Impl("n %d", k.h)
		for _, r := range k.recs {
			out.Impl("%s", r.line)
		}
		lines, ok := cl[k.h]
		if !ok {
			out.Fail(MonFail{Property: "C15", Monitor: "replica_agreement", Class: "length/fresh-process-missing-history", History: k.h,
				Detail: "the fresh process did not execute this history"})
			continue
		}
		for _, l := range lines {
			out.Op("%s", l)
		}
		cr := recsFromLines(lines, k.recs)
		if ia, ib := firstDiff(k.recs, cr, nil); ia != -2 {
			cls, det := classify(k.recs, cr, ia, ib)
			out.Fail(MonFail{Property: "C15", Monitor: "replica_agreement", Class: cls, History: k.h,
				Detail: "the execution in a fresh process (GOMAXPROCS=1) disagrees with the execution in this process; " + det})
		}
	}
}

// heightOf: the block ("b <height> ...") a record belongs to; 0 = genesis / set-up block.
func heightOf(rs []detRec, i int) int64 {
	for ; i >= 0 && i < len(rs); i-- {
		if rs[i].kind == "block" {
			f := strings.Fields(rs[i].line)
			if len(f) >= 2 {
				h, _ := strconv.ParseInt(f[1], 10, 64)
				return h
			}
		}
	}
	return 0
}

// restartDetail describes the first disagreement between the never-restarted execution a and the restarted one b:
// the first differing record with its block, the first block whose app hash differs with the stores that differ,
// and — from a re-execution of both variants that dumps that store at that height — the first differing key.
func restartDetail(hd *detHist, a, b *detRun, ia, ib int) string {
	cls, det := classify(a.recs, b.recs, ia, ib)
	var hs []string
	for _, rb := range hd.restarts {
		hs = append(hs, strconv.Itoa(rb+3)) // set-up block = height 2, blocks[i] = height i+3
	}
	i := ia
	if i < 0 {
		i = ib
	}
	out := fmt.Sprintf("the replica that was restarted after the Commit of height(s) %s disagrees with the replica that was never restarted; "+
		"in block %d: %s, %s", strings.Join(hs, ","), heightOf(a.recs, i), cls, det)
	// first differing per-store hash line
	ka, kb := filterRecs(a.recs, map[string]bool{"apphash": true}), filterRecs(b.recs, map[string]bool{"apphash": true})
	for k := 0; k < len(ka) && k < len(kb); k++ {
		la, lb := a.recs[ka[k]].line, b.recs[kb[k]].line
		if la == lb || !(strings.HasPrefix(la, "hs ") || strings.HasPrefix(la, "ss ")) {
			continue
		}
		fa, fb := strings.Fields(la), strings.Fields(lb)
		var stores []string
		for x := 0; x < len(fa) && x < len(fb); x++ {
			if fa[x] != fb[x] && strings.Contains(fa[x], "=") {
				stores = append(stores, fa[x][:strings.Index(fa[x], "=")])
			}
		}
		height := int64(2)
		if strings.HasPrefix(la, "hs ") {
			height, _ = strconv.ParseInt(fa[1], 10, 64)
		}
		out += fmt.Sprintf("; first differing app hash at height %d, stores that differ: %v", height, stores)
		if len(stores) > 0 {
			da := execDet(hd, detOpts{dumpAt: height, dumpStore: stores[0]})
			db := execDet(hd, detOpts{restart: true, dumpAt: height, dumpStore: stores[0]})
			out += "; store " + stores[0] + ": " + firstKeyDiff(da.dump, db.dump)
		}
		return out
	}
	return out + "; no committed app hash differs (results, events or gas only)"
}

func firstKeyDiff(a, b []detKV) string {
	for i := 0; i < len(a) || i < len(b); i++ {
		switch {
		case i >= len(a) || (i < len(b) && b[i].k < a[i].k):
			return fmt.Sprintf("key %s (%s) only in the restarted replica, value %s", b[i].k, printableKey(b[i].k), b[i].v)
		case i >= len(b) || a[i].k < b[i].k:
			return fmt.Sprintf("key %s (%s) only in the never-restarted replica, value %s", a[i].k, printableKey(a[i].k), a[i].v)
		case a[i].v != b[i].v:
			return fmt.Sprintf("first differing key %s (%s): never-restarted %s vs restarted %s", a[i].k, printableKey(a[i].k), a[i].v, b[i].v)
		}
	}
	return "no differing key found in a re-execution (the disagreement is not reproducible)"
}

func printableKey(hx string) string {
	bz, _ := hex.DecodeString(hx)
	var sb strings.Builder
	for _, c := range bz {
		if c >= 0x20 && c < 0x7f {
			sb.WriteByte(c)
		} else {
			sb.WriteByte('.')
		}
	}
	return strconv.Quote(trunc(sb.String(), 80))
}

func okErrLines(rs []detRec) string {
	var sb strings.Builder
	for _, r := range rs {
		if r.kind == "result" && strings.HasPrefix(r.line, "r ") {
			f := strings.Fields(r.line)
			if len(f) >= 3 {
				sb.WriteString(f[2][:1])
				if f[2] == "err" && len(f) >= 5 {
					sb.WriteString("(" + f[3] + ":" + f[4] + ")")
				}
			}
		}
	}
	return sb.String()
}
