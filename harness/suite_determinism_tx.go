package harness

// Suite "determinism", second part: the operations that can SEPARATE PROCESS MEMORY FROM THE COMMITTED STORE, and
// the execution of atomic message groups. (The restarted replica that observes such a separation is in
// suite_determinism.go.)
//
// Everything here is chain behaviour that a validator set executes; nothing writes a store directly.
//
//   - ATOMIC GROUPS. A block's message list is partitioned into transactions: a detMsg with tx == 0 is a
//     transaction of its own, consecutive detMsgs with the same tx > 0 form one transaction. A group is executed
//     as baseapp.runTx/runMsgs executes the messages of one transaction and as x/gov's EndBlocker executes the
//     messages of a passed proposal: ValidateBasic of every message first, then every handler on ONE cache context
//     and under one gas meter, stop at the first failure, write the cache (and emit the events) only if all
//     succeeded.
//       user groups ("tx")   2..4 messages of the ordinary generators (deposit, wager, top-up, bank send, ...),
//                            sometimes closed by a message that is bound to fail;
//       authority groups     ("gov.exec") the message list of a governance proposal, run as x/gov runs it after
//                            the vote: one or two parameter changes signed by the x/gov module account —
//                            MsgUpdateParams of bet / house / orderbook / subaccount / reward / mint / market / ovm
//                            or a legacy x/params ParameterChangeProposal wrapped in MsgExecLegacyContent — and,
//                            in about half of the groups, a message that passes ValidateBasic and fails in its
//                            handler (before or after the valid ones).
//   - REAL GOVERNANCE. The same message lists submitted with MsgSubmitProposal (deposit >= MinDeposit, so the
//     voting period starts at once), voted by the delegator of the only bonded validator (MsgVote; sometimes No,
//     sometimes nobody votes), and executed — or not — by x/gov's own EndBlocker when the block time passes the
//     end of the voting period (set to a few seconds in the set-up block of the history).
//   - LEGACY PARAMETER CHANGE. `paramproposal.ParameterChangeProposal` reaches the module's x/params subspace
//     through the route the app registers (app/keepers: govRouter.AddRoute(paramproposal.RouterKey,
//     params.NewParamChangeProposalHandler(ParamsKeeper)); MsgExecLegacyContent is x/gov's message that calls the
//     legacy router). All eight custom modules have a subspace with a key table (every NewKeeper calls
//     WithKeyTable); market, ovm and reward register no pair, so bet, house, orderbook, subaccount and mint are the
//     ones a ParameterChangeProposal can change. The handler calls Subspace.Update: the module keeper's SetParams
//     is NOT on this path.
//   - FAILED MESSAGES THAT WROTE BEFORE FAILING. Every message runs on a cache multistore whose KV stores count
//     Set/Delete calls (wcMultiStore); the statistics `failed-after-writes.*` say how many failed messages (and
//     rolled-back groups) had already written when they failed, i.e. how often "a setter ran, then the cache was
//     discarded" happens in the histories.

import (
	"fmt"
	"os"
	"strconv"

	sdkerrors "cosmossdk.io/errors"
	sdkmath "cosmossdk.io/math"
	"github.com/cosmos/cosmos-sdk/codec"
	storetypes "github.com/cosmos/cosmos-sdk/store/types"
	sdk "github.com/cosmos/cosmos-sdk/types"
	authtypes "github.com/cosmos/cosmos-sdk/x/auth/types"
	banktypes "github.com/cosmos/cosmos-sdk/x/bank/types"
	distrtypes "github.com/cosmos/cosmos-sdk/x/distribution/types"
	govtypes "github.com/cosmos/cosmos-sdk/x/gov/types"
	govv1 "github.com/cosmos/cosmos-sdk/x/gov/types/v1"
	paramproposal "github.com/cosmos/cosmos-sdk/x/params/types/proposal"

	"github.com/sge-network/sge/app/params"
	bettypes "github.com/sge-network/sge/x/bet/types"
	housetypes "github.com/sge-network/sge/x/house/types"
	markettypes "github.com/sge-network/sge/x/market/types"
	minttypes "github.com/sge-network/sge/x/mint/types"
	obtypes "github.com/sge-network/sge/x/orderbook/types"
	ovmtypes "github.com/sge-network/sge/x/ovm/types"
	rewardtypes "github.com/sge-network/sge/x/reward/types"
	subtypes "github.com/sge-network/sge/x/subaccount/types"
)

// ---------------------------------------------------------------------------------------------
// generator

func detGovAuthority() string { return authtypes.NewModuleAddress(govtypes.ModuleName).String() }

var detAmino = codec.NewLegacyAmino()

// aminoJSON: the value syntax of a legacy ParamChange (what Subspace.Update decodes).
func aminoJSON(v interface{}) string {
	bz, err := detAmino.MarshalJSON(v)
	must(err)
	return string(bz)
}

// modules whose parameters an authority message can change; the first five also through x/params
var detParamMods = []string{"bet", "bet", "bet", "bet", "house", "house", "house", "orderbook", "orderbook", "orderbook",
	"subaccount", "mint", "reward", "market", "ovm"}
var detLegacyMods = []string{"bet", "bet", "bet", "bet", "house", "house", "house", "orderbook", "orderbook", "orderbook", "subaccount", "mint"}

// drawParams draws a parameter set of module `mod` and returns it as MsgUpdateParams and as the list of legacy
// ParamChanges that writes the same values (one entry per registered pair).
func (g *detGen) drawParams(mod string) (sdk.Msg, []paramproposal.ParamChange) {
	r := g.r
	auth := detGovAuthority()
	ch := func(key string, v interface{}) paramproposal.ParamChange {
		return paramproposal.ParamChange{Subspace: mod, Key: key, Value: aminoJSON(v)}
	}
	switch mod {
	case "bet":
		min := r.Pick([]int64{2, 2, 5, 10, 50})
		fee := r.Pick([]int64{0, 0, 1, 1, 2, 3})
		if fee >= min {
			fee = min - 1
		}
		p := bettypes.Params{BatchSettlementCount: uint32(r.Pick([]int64{1, 1, 2, 3, 5, 1000})), MaxBetByUidQueryCount: uint32(r.Pick([]int64{10, 10, 5})),
			Constraints: bettypes.Constraints{MinAmount: sdkmath.NewInt(min), Fee: sdkmath.NewInt(fee)}}
		g.drawnBetMin = min
		return &bettypes.MsgUpdateParams{Authority: auth, Params: p}, []paramproposal.ParamChange{
			ch("BatchSettlementCount", p.BatchSettlementCount), ch("MaxBetByUidQueryCount", p.MaxBetByUidQueryCount), ch("WagerConstraints", p.Constraints)}
	case "house":
		p := housetypes.Params{MinDeposit: sdkmath.NewInt(r.Pick([]int64{2, 10, 100, 100})),
			HouseParticipationFee: sdkmath.LegacyMustNewDecFromStr([]string{"0", "0.1", "0.01", "0.05", "0.333333333333333333"}[r.Intn(5)]),
			MaxWithdrawalCount:    uint64(r.Range(1, 4))}
		return &housetypes.MsgUpdateParams{Authority: auth, Params: p}, []paramproposal.ParamChange{
			ch("MinDeposit", p.MinDeposit), ch("HouseParticipationFee", p.HouseParticipationFee), ch("MaxWithdrawalCount", p.MaxWithdrawalCount)}
	case "orderbook":
		p := obtypes.Params{MaxOrderBookParticipations: uint64(r.Pick([]int64{2, 4, 8, 100, 100})), BatchSettlementCount: uint64(r.Pick([]int64{1, 2, 3, 100})),
			RequeueThreshold: uint64(r.Pick([]int64{0, 0, 1, 5, 29, 1000}))}
		return &obtypes.MsgUpdateParams{Authority: auth, Params: p}, []paramproposal.ParamChange{
			ch("MaxOrderBookParticipations", p.MaxOrderBookParticipations), ch("BatchSettlementCount", p.BatchSettlementCount), ch("RequeueThreshold", p.RequeueThreshold)}
	case "subaccount":
		p := subtypes.Params{WagerEnabled: !r.Chance(25), DepositEnabled: r.Chance(60)}
		return &subtypes.MsgUpdateParams{Authority: auth, Params: p}, []paramproposal.ParamChange{
			ch("WagerEnabled", p.WagerEnabled), ch("DepositEnabled", p.DepositEnabled)}
	case "mint":
		p := minttypes.DefaultParams()
		p.BlocksPerYear = r.Pick([]int64{p.BlocksPerYear, p.BlocksPerYear / 2, 100, 1000})
		p.ExcludeAmount = sdkmath.NewInt(r.Pick([]int64{0, 0, 1000, 1_000_000}))
		return &minttypes.MsgUpdateParams{Authority: auth, Params: p}, []paramproposal.ParamChange{
			ch("BlocksPerYear", p.BlocksPerYear), ch("ExcludeAmount", p.ExcludeAmount)}
	case "reward":
		return &rewardtypes.MsgUpdateParams{Authority: auth, Params: rewardtypes.Params{}}, nil
	case "market":
		return &markettypes.MsgUpdateParams{Authority: auth, Params: markettypes.Params{}}, nil
	default:
		return &ovmtypes.MsgUpdateParams{Authority: auth, Params: ovmtypes.Params{}}, nil
	}
}

func legacyContentMsg(changes []paramproposal.ParamChange) sdk.Msg {
	c, err := govv1.NewLegacyContent(paramproposal.NewParameterChangeProposal("p", "parameter change", changes), detGovAuthority())
	must(err)
	return c
}

// paramChange: one valid authority message that changes module parameters (MsgUpdateParams or legacy content).
func (g *detGen) paramChange() detMsg {
	r := g.r
	if r.Chance(35) {
		mod := detLegacyMods[r.Intn(len(detLegacyMods))]
		_, changes := g.drawParams(mod)
		// a ParameterChangeProposal usually changes one pair, sometimes several
		if !r.Chance(25) {
			changes = []paramproposal.ParamChange{changes[r.Intn(len(changes))]}
		}
		g.noteBetMin(mod, changes)
		return detMsg{label: "gov.legacy-param-change." + mod, mod: mod, msg: legacyContentMsg(changes)}
	}
	mod := detParamMods[r.Intn(len(detParamMods))]
	m, _ := g.drawParams(mod)
	if mod == "bet" {
		g.pendingBetMin = g.drawnBetMin
	}
	return detMsg{label: "gov.update-params." + mod, mod: mod, msg: m}
}

func (g *detGen) noteBetMin(mod string, changes []paramproposal.ParamChange) {
	for _, c := range changes {
		if mod == "bet" && c.Key == "WagerConstraints" {
			g.pendingBetMin = g.drawnBetMin
		}
	}
}

// failingAuthorityMsg: a message the x/gov account may sign (so a proposal may carry it), that passes
// ValidateBasic and fails in its handler.
//
// x/gov's SubmitProposal runs every MsgExecLegacyContent of a proposal once on a throw-away cache context and
// refuses the proposal if it fails, so a proposal that is to reach its execution carries a failing message of
// another kind (proposal = true); a group executed in place may fail in its legacy content as well.
func (g *detGen) failingAuthorityMsg(proposal bool) detMsg {
	r := g.r
	c := r.Intn(6)
	if proposal {
		c = 4 + r.Intn(2)
	}
	switch c {
	case 0: // a value the pair's validator rejects
		return detMsg{label: "gov.fail.legacy-invalid-value", mod: "bet",
			msg: legacyContentMsg([]paramproposal.ParamChange{{Subspace: "bet", Key: "BatchSettlementCount", Value: "0"}})}
	case 1: // first change valid (written into the cache context by Subspace.Update), second one rejected
		_, changes := g.drawParams("house")
		return detMsg{label: "gov.fail.legacy-second-change-invalid", mod: "house",
			msg: legacyContentMsg([]paramproposal.ParamChange{changes[r.Intn(len(changes))], {Subspace: "house", Key: "HouseParticipationFee", Value: `"-1.000000000000000000"`}})}
	case 2:
		return detMsg{label: "gov.fail.legacy-unknown-subspace", mod: "params",
			msg: legacyContentMsg([]paramproposal.ParamChange{{Subspace: "nosuchmodule", Key: "X", Value: "1"}})}
	case 3: // the subspace has no such pair: Subspace.Update panics, x/gov (and baseapp) recover
		return detMsg{label: "gov.fail.legacy-unknown-key", mod: "orderbook",
			msg: legacyContentMsg([]paramproposal.ParamChange{{Subspace: "orderbook", Key: "NoSuchParameter", Value: "1"}})}
	case 4: // more than the community pool holds
		amt := sdk.NewCoins(sdk.NewCoin(params.DefaultBondDenom, sdkmath.NewInt(1_000_000_000_000)))
		return detMsg{label: "gov.fail.community-pool-spend", mod: "distribution",
			msg: &distrtypes.MsgCommunityPoolSpend{Authority: detGovAuthority(), Recipient: g.accts[r.Intn(NAcct)].String(), Amount: amt}}
	default: // the module account holds the deposits of open proposals at most
		amt := sdk.NewCoins(sdk.NewCoin(params.DefaultBondDenom, sdkmath.NewInt(1_000_000_000_000)))
		return detMsg{label: "gov.fail.bank-send-insufficient", mod: "bank",
			msg: &banktypes.MsgSend{FromAddress: detGovAuthority(), ToAddress: g.accts[r.Intn(NAcct)].String(), Amount: amt}}
	}
}

// govBatch: the message list of one governance proposal. commits: every message is expected to succeed.
func (g *detGen) govBatch(proposal bool) (msgs []detMsg, commits bool) {
	r := g.r
	g.pendingBetMin = 0
	failing := r.Chance(50)
	if failing && r.Chance(15) {
		msgs = append(msgs, g.failingAuthorityMsg(proposal)) // fails first: the valid messages are never executed
	}
	for i, n := 0, 1+r.Intn(2); i < n; i++ {
		msgs = append(msgs, g.paramChange())
	}
	if failing && len(msgs) <= 2 {
		msgs = append(msgs, g.failingAuthorityMsg(proposal))
	}
	return msgs, !failing
}

// govExec: an authority group executed in place (what x/gov's EndBlocker does with a passed proposal).
func (g *detGen) govExec() []detMsg {
	msgs, commits := g.govBatch(false)
	g.txn++
	for i := range msgs {
		msgs[i].tx, msgs[i].gov = g.txn, true
	}
	if commits && g.pendingBetMin != 0 {
		g.betMin = g.pendingBetMin
	}
	g.driftAt = append(g.driftAt, g.now)
	return msgs
}

// govProposal: the same through x/gov itself: MsgSubmitProposal with the full deposit, and the vote.
func (g *detGen) govProposal() []detMsg {
	r := g.r
	batch, commits := g.govBatch(true)
	var inner []sdk.Msg
	for _, m := range batch {
		inner = append(inner, m.msg)
	}
	proposer := g.accts[1+r.Intn(5)]
	sp, err := govv1.NewMsgSubmitProposal(inner, sdk.NewCoins(sdk.NewCoin(params.DefaultBondDenom, sdkmath.NewInt(detGovDeposit))),
		proposer.String(), "", "proposal "+strconv.Itoa(g.nGov+1), "parameters", false)
	must(err)
	g.nGov++
	kind := "all-valid"
	if !commits {
		kind = "with-failing-message"
	}
	out := []detMsg{{label: "gov.submit." + kind, mod: "gov", msg: sp}}
	switch c := r.Intn(100); {
	case c < 80:
		out = append(out, detMsg{label: "gov.vote.yes", mod: "gov", msg: govv1.NewMsgVote(detAddr(1000), uint64(g.nGov), govv1.OptionYes, "")})
		if commits && g.pendingBetMin != 0 {
			g.betMin = g.pendingBetMin // slightly early (the change takes effect when the voting period ends)
		}
		g.driftAt = append(g.driftAt, g.now+g.govPeriod)
	case c < 90:
		out = append(out, detMsg{label: "gov.vote.no", mod: "gov", msg: govv1.NewMsgVote(detAddr(1000), uint64(g.nGov), govv1.OptionNo, "")})
	default: // nobody votes: no quorum, the deposit is burnt or refunded as the gov parameters say
	}
	return out
}

// legacyChange: a single-message authority transaction carrying a ParameterChangeProposal.
func (g *detGen) legacyChange() detMsg {
	r := g.r
	mod := detLegacyMods[r.Intn(len(detLegacyMods))]
	_, changes := g.drawParams(mod)
	if !r.Chance(25) {
		changes = []paramproposal.ParamChange{changes[r.Intn(len(changes))]}
	}
	g.pendingBetMin = 0
	g.noteBetMin(mod, changes)
	if g.pendingBetMin != 0 {
		g.betMin = g.pendingBetMin
	}
	g.driftAt = append(g.driftAt, g.now)
	return detMsg{label: "gov.legacy-param-change." + mod, mod: mod, msg: legacyContentMsg(changes), gov: true}
}

// userTx: one transaction with several ordinary messages (any signers), sometimes closed by one bound to fail.
func (g *detGen) userTx(small bool) []detMsg {
	r := g.r
	var msgs []detMsg
	for i, n := 0, 2+r.Intn(2); i < n && len(g.markets) > 0; i++ {
		switch c := r.Intn(100); {
		case c < 30:
			msgs = append(msgs, g.houseDeposit(small)...) // with its authz grant when the depositor is another account
		case c < 65:
			msgs = append(msgs, g.wager(small))
		case c < 72:
			msgs = append(msgs, g.subWager(small))
		case c < 78:
			msgs = append(msgs, g.subTopUp())
		case c < 84:
			msgs = append(msgs, g.houseWithdraw())
		case c < 88:
			msgs = append(msgs, g.subCreate())
		case c < 92:
			msgs = append(msgs, g.grantReward())
		default:
			msgs = append(msgs, g.bankSend())
		}
	}
	if r.Chance(20) || len(msgs) < 2 {
		a, b := r.Intn(NAcct), r.Intn(NAcct)
		amt := sdk.NewCoins(sdk.NewCoin(params.DefaultBondDenom, sdkmath.NewInt(1_000_000_000_000)))
		msgs = append(msgs, detMsg{label: "bank.send-insufficient", mod: "bank", msg: banktypes.NewMsgSend(g.accts[a], g.accts[b], amt)})
	}
	g.txn++
	for i := range msgs {
		msgs[i].tx = g.txn
	}
	return msgs
}

const detGovDeposit = 1000

// drawRestarts chooses the block boundaries at which the restarted replica is stopped and started again:
// -1 = after the set-up block, b = after the Commit of block b (never after the last block). One or two
// boundaries; the first one is, three times out of four, the end of a block at or after which a parameter change
// of this history takes effect (if the history has one), so that "changed, then restarted, then used" is frequent.
func (g *detGen) drawRestarts(blocks []detBlock) []int {
	r := g.r
	n := len(blocks)
	if n < 2 {
		return nil
	}
	var cands []int
	for _, t := range g.driftAt {
		for b := 0; b < n-1; b++ {
			if blocks[b].time >= t {
				cands = append(cands, b)
				if b+1 < n-1 && r.Chance(30) {
					cands = append(cands, b+1)
				}
				break
			}
		}
	}
	set := map[int]bool{}
	for k, want := 0, 1+r.Intn(2); k < want; k++ {
		b := r.Intn(n) - 1 // -1 .. n-2
		if k == 0 && len(cands) > 0 && r.Chance(75) {
			b = cands[r.Intn(len(cands))]
		}
		set[b] = true
	}
	var out []int
	for b := -1; b < n-1; b++ {
		if set[b] {
			out = append(out, b)
		}
	}
	return out
}

// ---------------------------------------------------------------------------------------------
// execution of atomic groups

// wcMultiStore is the cache multistore of one transaction with KV stores that count Set/Delete calls.
// (A handler that opens a nested cache context writes into it uncounted until it flushes: the count is a lower
// bound, used for statistics only. Gas is charged by the gaskv wrapper sdk.Context puts around whatever
// GetKVStore returns, so counting does not change gas.)
type wcMultiStore struct {
	cacheMS
	n *int
}

type cacheMS = storetypes.CacheMultiStore // (embedded under a name that does not hide the method CacheMultiStore)

func (w wcMultiStore) GetKVStore(k storetypes.StoreKey) storetypes.KVStore {
	return wcKV{w.cacheMS.GetKVStore(k), w.n}
}

func (w wcMultiStore) GetStore(k storetypes.StoreKey) storetypes.Store {
	s := w.cacheMS.GetStore(k)
	if kv, ok := s.(storetypes.KVStore); ok {
		return wcKV{kv, w.n}
	}
	return s
}

type wcKV struct {
	storetypes.KVStore
	n *int
}

func (s wcKV) Set(k, v []byte) { *s.n++; s.KVStore.Set(k, v) }
func (s wcKV) Delete(k []byte) { *s.n++; s.KVStore.Delete(k) }

type detRouter func(msg sdk.Msg) func(ctx sdk.Context, req sdk.Msg) (*sdk.Result, error)

// deliverGroup executes the messages blk[i:j] as ONE transaction and records it. Single messages (j == i+1)
// keep the record format of the first version of the suite ("m", "r", events).
func (d *detRun) deliverGroup(route detRouter, ctx sdk.Context, msgs []detMsg, first int, alt bool, decode func(m *detMsg) sdk.Msg) {
	single := len(msgs) == 1
	kind := "tx"
	if msgs[0].gov {
		kind = "gov"
	}
	if !single {
		d.add("result", "tx", "t %d-%d %s begin", first, first+len(msgs)-1, kind)
	}
	decoded := make([]sdk.Msg, len(msgs))
	for k := range msgs {
		m := &msgs[k]
		decoded[k] = decode(m)
		bz := m.bz
		if alt && m.alt != nil {
			bz = m.altBz
		}
		d.add("message", m.mod, "m %d %s %s %s", first+k, m.label, sdk.MsgTypeURL(decoded[k]), short(bz))
	}
	// baseapp.validateBasicTxMsgs / MsgSubmitProposal.ValidateBasic: every message before any handler runs
	failedAt, failErr := -1, error(nil)
	for k, msg := range decoded {
		if route(msg) == nil {
			failedAt, failErr = k, fmt.Errorf("no handler for %s (message servers are registered only under testing.Testing())", sdk.MsgTypeURL(msg))
			break
		}
		if err := msg.ValidateBasic(); err != nil {
			failedAt, failErr = k, err
			break
		}
	}
	writes := 0
	cms := ctx.MultiStore().CacheMultiStore()
	gm := sdk.NewInfiniteGasMeter()
	cctx := ctx.WithMultiStore(wcMultiStore{cms, &writes}).WithEventManager(sdk.NewEventManager()).WithGasMeter(gm)
	type done struct {
		res *sdk.Result
		gas uint64
	}
	var results []done
	if failedAt >= 0 {
		d.failMsg(&msgs[failedAt], first+failedAt, failErr, 0, "")
	} else {
		for k, msg := range decoded {
			before := gm.GasConsumed()
			var res *sdk.Result
			var err error
			func() {
				defer func() {
					if r := recover(); r != nil {
						err = sdkerrors.Wrapf(errDetPanic, "%v", r)
					}
				}()
				res, err = route(msg)(cctx, msg)
			}()
			gas := gm.GasConsumed() - before
			if err != nil {
				failedAt = k
				if writes > 0 {
					d.wrote["msg."+msgs[k].label]++
				}
				d.failMsg(&msgs[k], first+k, err, gas, "")
				break
			}
			results = append(results, done{res, gas})
		}
	}
	if failedAt >= 0 {
		// nothing is written, no event of the transaction is emitted
		if !single {
			for k, r := range results {
				d.rolled[msgs[k].label]++
				d.add("result", msgs[k].mod, "r %d ok-rolled-back gas=%d data=%s", first+k, r.gas, short(r.res.Data))
			}
			for k := failedAt + 1; k < len(msgs); k++ {
				d.skipped[msgs[k].label]++
				d.add("result", msgs[k].mod, "r %d not-executed", first+k)
			}
			if writes > 0 {
				d.wrote["group."+kind]++
			}
			d.groups[kind+".rolled-back"]++
			d.add("result", "tx", "t %d-%d %s rollback at %d", first, first+len(msgs)-1, kind, first+failedAt)
		}
		return
	}
	cms.Write()
	for k, r := range results {
		m := &msgs[k]
		d.ok[m.label]++
		d.add("result", m.mod, "r %d ok gas=%d data=%s", first+k, r.gas, short(r.res.Data))
		for _, ev := range r.res.Events {
			d.events++
			d.add("events", m.mod, "%s", fmtEvent("m"+strconv.Itoa(first+k), ev))
		}
	}
	if !single {
		d.groups[kind+".committed"]++
		d.add("result", "tx", "t %d-%d %s commit", first, first+len(msgs)-1, kind)
	}
}

// simulateBlock: what a node does that is asked to estimate the gas of the block's transactions before they are
// included (the Simulate query of the tx service; signatures are not verified in simulations, so anybody can ask
// for any message list, authority messages included): every transaction runs through the same handlers on a
// branch of the node's CHECK state, and the branch is thrown away. Whether a node served such queries is not
// part of the chain: a replica that did must agree with one that did not. Returns the number of handler runs.
func simulateBlock(checkCtx sdk.Context, route detRouter, msgs []detMsg, decode func(m *detMsg) sdk.Msg) (n int) {
	for i := 0; i < len(msgs); {
		j := i + 1
		for msgs[i].tx != 0 && j < len(msgs) && msgs[j].tx == msgs[i].tx {
			j++
		}
		sctx, _ := checkCtx.CacheContext()
		sctx = sctx.WithGasMeter(sdk.NewInfiniteGasMeter())
		for k := i; k < j; k++ {
			msg := decode(&msgs[k])
			h := route(msg)
			if h == nil || msg.ValidateBasic() != nil {
				break
			}
			failed := false
			func() {
				defer func() {
					if r := recover(); r != nil {
						failed = true
					}
				}()
				_, err := h(sctx, msg)
				failed = err != nil
			}()
			n++
			if failed {
				break
			}
		}
		i = j
	}
	return n
}

func (d *detRun) failMsg(m *detMsg, i int, err error, gas uint64, _ string) {
	space, code, _ := sdkerrors.ABCIInfo(err, false)
	d.fail[m.label]++
	if detDebug {
		fmt.Fprintf(os.Stderr, "DET %s: %s\n", m.label, trunc(err.Error(), 300))
	}
	d.add("result", m.mod, "r %d err %s %d gas=%d", i, space, code, gas)
}
