package main

import (
	"fmt"
	"go/ast"
	"go/types"
	"sort"
	"strings"

	"golang.org/x/tools/go/packages"
)

// Sge.Gen.Handlers: every method of every `msgServer` type of the custom modules with its request type,
// whether the request carries a Ticket, and the effect paths (effects.go).

var atomCtor = map[byte]string{'v': ".verify", 'x': ".reject", 'k': ".kyc", 'w': ".write", 's': ".send", 'a': ".authz", 'e': ".ext"}

// ticketPath finds a string field named Ticket in a request struct, directly or inside (pointers to)
// nested message structs (`Props.Ticket`, `Msg.Ticket`); "" when there is none.
func ticketPath(t types.Type, depth int) string {
	n := namedOf(t)
	if n == nil || depth > 3 {
		return ""
	}
	st, ok := n.Underlying().(*types.Struct)
	if !ok {
		return ""
	}
	for i := 0; i < st.NumFields(); i++ {
		f := st.Field(i)
		if bt, ok := f.Type().Underlying().(*types.Basic); ok && f.Name() == "Ticket" && bt.Kind() == types.String {
			return "Ticket"
		}
	}
	for i := 0; i < st.NumFields(); i++ {
		f := st.Field(i)
		if fn := namedOf(f.Type()); fn != nil && inModule(fn.Obj().Pkg()) {
			if p := ticketPath(f.Type(), depth+1); p != "" {
				return f.Name() + "." + p
			}
		}
	}
	return ""
}

func genHandlers(w *World) string {
	var sb strings.Builder
	sb.WriteString(header("Sge.Gen.Handlers", "Message handlers of the custom modules with their effect paths (C06). Atom semantics: extract/effects.go."))
	sb.WriteString(`inductive Atom where
  | verify | reject | kyc | write | send | authz | ext
deriving DecidableEq, Repr

structure Site where
  kind : Atom
  callee : String
  pos : String
deriving DecidableEq, Repr

structure Handler where
  module : String             -- "bet"
  name : String               -- "Wager"
  msgType : String            -- "MsgWager"
  hasTicket : Bool
  ticketPath : String         -- "Ticket", "Props.Ticket", "Msg.Ticket" or ""
  pos : String
  paths : List (List Atom)    -- distinct effect paths (any outcome), adjacent equal atoms collapsed
  commitPaths : List (List Atom)  -- the paths that may return a nil error (the only ones whose writes persist)
  truncated : Bool            -- inlining depth or path limit hit (the paths are then not exhaustive)
  recursive : Bool            -- a recursive call was cut
  unresolved : List String    -- calls of function values met on the way (not followed)
  sites : List Site           -- where the atoms come from (diagnostics)
deriving Repr

`)
	an := newAnalyzer(w)
	var items []string
	count := 0
	w.eachFunc(func(p *packages.Package, _ string) bool {
		return moduleOf(p.PkgPath) != "" && strings.HasSuffix(p.PkgPath, "/keeper")
	}, func(p *packages.Package, fd *ast.FuncDecl) {
		if fd.Recv == nil || !fd.Name.IsExported() {
			return
		}
		fn, ok := p.TypesInfo.Defs[fd.Name].(*types.Func)
		if !ok || typeName(recvType(fn)) != "msgServer" {
			return
		}
		sig := fn.Type().(*types.Signature)
		if sig.Params().Len() != 2 || sig.Results().Len() != 2 {
			return
		}
		req := sig.Params().At(1).Type()
		tp := ticketPath(req, 0)
		s := an.summarize(fn)
		render := func(ps set) string {
			var paths []string
			for _, pth := range sortedPaths(ps) {
				var atoms []string
				for i := 0; i < len(pth); i++ {
					atoms = append(atoms, atomCtor[pth[i]])
				}
				paths = append(paths, "["+strings.Join(atoms, ", ")+"]")
			}
			return strings.Join(paths, ", ")
		}
		seen := map[site]bool{}
		var sites []string
		for _, st := range s.sites {
			if !seen[st] {
				seen[st] = true
				sites = append(sites, fmt.Sprintf("⟨%s, %s, %s⟩", atomCtor[st.kind[0]], q(st.callee), q(st.pos)))
			}
		}
		sort.Strings(sites)
		unres := append([]string{}, s.unresolved...)
		sort.Strings(unres)
		unres = uniq(unres)
		count++
		items = append(items, fmt.Sprintf("{ module := %s, name := %s, msgType := %s, hasTicket := %s, ticketPath := %s, pos := %s,\n    truncated := %s, recursive := %s, unresolved := %s,\n    paths := [%s],\n    commitPaths := [%s],\n    sites := [%s] }",
			q(moduleOf(p.PkgPath)), q(fd.Name.Name), q(typeName(req)), b(tp != ""), q(tp), q(w.pos(fd.Pos())),
			b(s.truncated), b(s.recursive), qs(unres),
			render(s.all()), render(union(s.ok, s.unk)), strings.Join(sites, ",\n      ")))
	})
	if count == 0 {
		w.problem("no msgServer methods found under x/*/keeper")
	}
	sort.Strings(items)
	sb.WriteString("def handlers : List Handler := " + list(items) + "\n\nend Sge.Gen.Handlers\n")
	return sb.String()
}

func uniq(xs []string) []string {
	var r []string
	for i, x := range xs {
		if i == 0 || x != xs[i-1] {
			r = append(r, x)
		}
	}
	return r
}
