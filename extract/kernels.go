package main

import (
	"fmt"
	"go/ast"
	"go/constant"
	"go/token"
	"go/types"
	"sort"
	"strconv"
	"strings"
)

// Sge.Gen.Kernels: the ARITHMETIC KERNELS of the repository translated from their AST into Lean definitions over
// `Int` / `Sge.Dec`. lean/SgeProofs/Properties/KernelsTie/*.lean prove, for all inputs, that each generated
// definition equals the hand-written model function the property theorems are about; a change of that arithmetic
// in the repository therefore breaks a Lean theorem at build time. The supported subset, the shape of the
// generated definitions and the trusted base are documented in extract/KERNELS.md.
//
// A requested function that is missing or uses a construct outside the subset is NOT a failure of the translator:
// it is recorded as "unsupported:<construct>" in `kernelStatus`, no definition is emitted and its tie theorem is
// left out of Sge.Gen.KernelsTieList.

// kernelRequest names one function of the repository and the tie module (under SgeProofs.Properties.KernelsTie)
// that proves it equal to the model; tie "" = requested for the status table only.
// pins are the places the function is expected to read (receiver fields "0.F", fields of the i-th parameter "i.F",
// an IsNil flag "0.F?nil"): they are arguments of the definition even when the body stops reading them, so that a
// change that DROPS a term keeps the signature and is refuted on the lattice instead of merely not type-checking.
type kernelRequest struct {
	pkg, recv, name string
	tie             string
	pins            []string
}

var kernelRequests = []kernelRequest{
	{"x/house/types", "Deposit", "CalcHouseParticipationFeeAmount", "HouseFee", []string{"0.Amount"}},
	{"x/orderbook/types", "OrderBookParticipation", "maxWithdrawalAmount", "MaxWithdraw", []string{"0.CurrentRoundLiquidity", "0.CurrentRoundMaxLoss"}},
	{"x/orderbook/types", "OrderBookParticipation", "IsEligibleForNextRound", "Eligible", []string{"0.CurrentRoundLiquidity"}},
	{"x/orderbook/types", "OrderBookParticipation", "IsEligibleForNextRoundPreLiquidityReduction", "EligiblePre", []string{"0.CurrentRoundLiquidity", "0.CurrentRoundMaxLoss"}},
	{"x/orderbook/types", "OrderBookParticipation", "TrimCurrentRoundLiquidity", "TrimLiquidity", []string{"0.CurrentRoundLiquidity", "0.CurrentRoundMaxLoss"}},
	{"x/orderbook/types", "OrderBookParticipation", "SetLiquidityAfterWithdrawal", "LiquidityAfterWithdrawal", []string{"0.Liquidity", "0.CurrentRoundLiquidity"}},
	{"x/orderbook/types", "OrderBookParticipation", "setMaxLoss", "SetMaxLoss", []string{"0.CurrentRoundTotalBetAmount", "0.CurrentRoundMaxLoss", "0.CurrentRoundMaxLoss?nil", "0.CurrentRoundMaxLossOddsUID", "1.Exposure", "1.BetAmount"}},
	{"x/orderbook/types", "OrderBookParticipation", "SetCurrentRound", "SetCurrentRound", []string{"0.TotalBetAmount", "0.CurrentRoundTotalBetAmount", "0.CurrentRoundMaxLoss", "0.CurrentRoundMaxLoss?nil", "0.CurrentRoundMaxLossOddsUID", "1.Exposure", "1.BetAmount"}},
	{"x/orderbook/types", "OrderBookParticipation", "WithdrawableAmount", "", nil},
	{"x/orderbook/types", "ParticipationExposure", "SetCurrentRound", "ExposureSetCurrentRound", []string{"0.Exposure", "0.BetAmount"}},
	{"x/orderbook/keeper", "fulfillmentItem", "calcAvailableLiquidity", "AvailLiq", []string{"0.participation.CurrentRoundLiquidity", "0.participationExposure.Exposure"}},
	{"x/bet/types", "", "CalculateBetAmountInt", "BetAmountInt", nil},
	{"x/bet/types", "", "CalculatePayoutProfit", "PayoutProfit", nil},
	{"x/mint/types", "Minter", "NextPhaseProvisions", "NextPhaseProvisions", []string{"0.Inflation", "3.YearCoefficient"}},
	{"x/mint/types", "Minter", "BlockProvisions", "", nil},
	{"x/mint/types", "Params", "getPhaseBlocks", "", nil},
	{"x/subaccount/types", "AccountSummary", "Available", "SubAvailable", []string{"0.DepositedAmount", "0.SpentAmount", "0.WithdrawnAmount", "0.LostAmount"}},
	{"x/subaccount/types", "AccountSummary", "WithdrawableUnlockedBalance", "SubWithdrawableUnlocked", []string{"0.DepositedAmount", "0.SpentAmount", "0.WithdrawnAmount", "0.LostAmount"}},
	{"x/subaccount/types", "AccountSummary", "WithdrawableBalance", "SubWithdrawable", []string{"0.DepositedAmount", "0.SpentAmount", "0.WithdrawnAmount", "0.LostAmount"}},
	{"x/subaccount/types", "AccountSummary", "Spend", "SubSpend", []string{"0.DepositedAmount", "0.SpentAmount", "0.WithdrawnAmount", "0.LostAmount"}},
	{"x/subaccount/types", "AccountSummary", "Unspend", "SubUnspend", []string{"0.SpentAmount"}},
	{"x/subaccount/types", "AccountSummary", "AddLoss", "SubAddLoss", []string{"0.LostAmount"}},
	{"x/subaccount/types", "AccountSummary", "Withdraw", "SubWithdraw", []string{"0.DepositedAmount", "0.SpentAmount", "0.WithdrawnAmount", "0.LostAmount"}},
	{"x/reward/types", "Pool", "AvailableAmount", "PoolAvail", []string{"0.Total", "0.Spent", "0.Withdrawn"}},
	{"x/reward/types", "Pool", "CheckBalance", "PoolCheckBalance", []string{"0.Total", "0.Spent", "0.Withdrawn"}},
}

const (
	mathPkg     = "cosmossdk.io/math"
	sdkTypesPkg = "github.com/cosmos/cosmos-sdk/types"
	errorsPkg   = "cosmossdk.io/errors"
)

// ------------------------------------------------------------------------------------------------
// Lean-side types of leaf values

type ktype int

const (
	ktInt   ktype = iota // sdkmath.Int -> Int
	ktDec                // sdkmath.LegacyDec -> Sge.Dec
	ktBool               // bool -> Bool
	ktID                 // string used only under == / != -> Nat (an injective identifier)
	ktParse              // string used only as the argument of LegacyNewDecFromStr -> Option Dec (the parse result)
	ktMach               // int, int64, uint64, ...: only compared and converted -> Int
	ktStr                // string whose use is not known yet (becomes ktID or ktParse at its first use)
)

func (t ktype) lean() string {
	switch t {
	case ktInt, ktMach:
		return "Int"
	case ktDec:
		return "Dec"
	case ktBool:
		return "Bool"
	case ktID, ktStr:
		return "Nat"
	case ktParse:
		return "Option Dec"
	}
	return "?"
}

// kunsupported is the error of a construct outside the subset.
type kunsupported struct{ what string }

func (e kunsupported) Error() string { return e.what }

func kfail(format string, a ...any) { panic(kunsupported{fmt.Sprintf(format, a...)}) }

// kval is the symbolic value of a Go expression: a Lean term of a leaf type, or a reference to a struct-valued
// place (receiver, struct parameter, nested struct field) from which only fields are selected.
type kval struct {
	ty   ktype
	s    string // Lean term (for ktBool when prop == "": a Bool term)
	prop string // ktBool only: the value as a Prop; the Bool term is `decide (prop)`
	ref  string // struct reference: place key ("0" = receiver, "2" = second parameter, "0.participation")
	rt   types.Type
	in   *kinput // set when the value is an untouched input (needed by IsNil and by the string typing)
}

func (v kval) isRef() bool { return v.ref != "" }

func (v kval) asProp() string {
	if v.ty != ktBool {
		kfail("non-bool-condition")
	}
	if v.prop != "" {
		return v.prop
	}
	return "(" + v.s + " = true)"
}

func (v kval) asBool() string {
	if v.ty != ktBool {
		kfail("non-bool-value")
	}
	if v.prop != "" {
		return "(decide " + v.prop + ")"
	}
	return v.s
}

func (v kval) term() string {
	if v.isRef() {
		kfail("struct-value")
	}
	if v.ty == ktBool {
		return v.asBool()
	}
	return v.s
}

// kinput is one argument of a generated definition.
type kinput struct {
	key  string // place key of the value: "0.CurrentRoundMaxLoss", "1", "3.YearCoefficient"; "…?nil" for an IsNil flag
	sort []int  // position: parameter (receiver = 0), then field indexes; an IsNil flag sorts right after its value
	name string // Lean binder name
	ty   ktype
	doc  string // Go spelling, for the doc comment
}

// kdef is one translated function.
type kdef struct {
	fn       *types.Func
	name     string
	inputs   []*kinput
	hasErr   bool     // last Go result is `error`: the Lean result is an Option
	results  []ktype  // Go results without the trailing error
	mutated  []string // receiver fields assigned through a pointer receiver (field names, struct order)
	mutTypes []ktype
	body     string
}

func (d *kdef) resultTypes() []ktype { return append(append([]ktype{}, d.results...), d.mutTypes...) }

func (d *kdef) leanResult() string {
	var parts []string
	for _, t := range d.resultTypes() {
		p := t.lean()
		if strings.Contains(p, " ") {
			p = "(" + p + ")"
		}
		parts = append(parts, p)
	}
	r := "Unit"
	if len(parts) > 0 {
		r = strings.Join(parts, " × ")
	}
	if d.hasErr {
		if len(parts) > 1 {
			r = "(" + r + ")"
		}
		return "Option " + r
	}
	return r
}

type ktrans struct {
	w     *World
	done  map[*types.Func]*kdef
	fails map[*types.Func]string
	busy  map[*types.Func]bool
	order []*kdef
	names map[string]*types.Func
	pins  map[*types.Func][]string
}

// ------------------------------------------------------------------------------------------------
// per-function state

type kfunc struct {
	k       *ktrans
	fn      *types.Func
	info    *types.Info
	def     *kdef
	recv    *types.Var
	roots   map[types.Object]string // receiver / struct parameters -> place key
	rootDoc map[string]string       // place key -> Go name
	rootPos map[string]int
	inputs  map[string]*kinput
	mutSet  map[string]bool // receiver field names assigned through a pointer receiver
	fresh   int
}

type kenv struct {
	vars    map[types.Object]kval
	places  map[string]kval // current value of a leaf place that was read or assigned
	mutated bool            // a receiver field was assigned on this path
}

func (e *kenv) clone() *kenv {
	c := &kenv{vars: map[types.Object]kval{}, places: map[string]kval{}, mutated: e.mutated}
	for k, v := range e.vars {
		c.vars[k] = v
	}
	for k, v := range e.places {
		c.places[k] = v
	}
	return c
}

var leanReserved = map[string]bool{"at": true, "from": true, "end": true, "open": true, "in": true, "fun": true, "let": true,
	"do": true, "if": true, "then": true, "else": true, "by": true, "with": true, "have": true, "show": true, "match": true,
	"Type": true, "Prop": true, "Sort": true, "def": true, "theorem": true, "namespace": true, "section": true, "import": true,
	"where": true, "deriving": true, "instance": true, "structure": true, "class": true, "mut": true, "return": true,
	"for": true, "unless": true, "try": true, "catch": true, "finally": true, "some": true, "none": true, "true": true, "false": true,
	"max": true, "min": true, "using": true, "calc": true, "exact": true, "this": true, "forall": true, "exists": true,
	"Dec": true, "Int": true, "Nat": true, "Bool": true, "Option": true, "PREC": true, "maxI": true, "minI": true, "tquo": true}

func leanIdent(s string) string {
	var b strings.Builder
	for _, r := range s {
		if r == '_' || (r >= '0' && r <= '9') || (r >= 'a' && r <= 'z') || (r >= 'A' && r <= 'Z') {
			b.WriteRune(r)
		} else {
			b.WriteByte('_')
		}
	}
	t := b.String()
	if t == "" || t == "_" || leanReserved[t] || (t[0] >= '0' && t[0] <= '9') {
		t = "v_" + t
	}
	return t
}

func (k *ktrans) leafType(t types.Type) (ktype, bool) {
	t = types.Unalias(t)
	if n, ok := t.(*types.Named); ok && n.Obj().Pkg() != nil && n.Obj().Pkg().Path() == mathPkg {
		switch n.Obj().Name() {
		case "Int":
			return ktInt, true
		case "LegacyDec":
			return ktDec, true
		}
		return 0, false
	}
	if b, ok := t.Underlying().(*types.Basic); ok {
		if _, named := t.(*types.Named); named {
			return 0, false // enums and other named basic types are outside the subset
		}
		switch {
		case b.Kind() == types.Bool || b.Kind() == types.UntypedBool:
			return ktBool, true
		case b.Kind() == types.String:
			return ktStr, true
		case b.Info()&types.IsInteger != 0:
			return ktMach, true
		}
	}
	return 0, false
}

// structOf: the module-declared struct behind t (through one pointer), or nil.
func structOf(t types.Type) *types.Struct {
	t = types.Unalias(t)
	if p, ok := t.(*types.Pointer); ok {
		t = types.Unalias(p.Elem())
	}
	n, ok := t.(*types.Named)
	if !ok || !inModule(n.Obj().Pkg()) {
		return nil
	}
	s, _ := n.Underlying().(*types.Struct)
	return s
}

// ------------------------------------------------------------------------------------------------
// translation of one function

func (k *ktrans) kernel(fn *types.Func) (d *kdef, why string) {
	if d, ok := k.done[fn]; ok {
		return d, ""
	}
	if s, ok := k.fails[fn]; ok {
		return nil, s
	}
	if k.busy[fn] {
		return nil, "recursion"
	}
	k.busy[fn] = true
	defer func() {
		delete(k.busy, fn)
		if r := recover(); r != nil {
			u, ok := r.(kunsupported)
			if !ok {
				panic(r)
			}
			d, why = nil, u.what
			k.fails[fn] = why
		}
	}()
	d = k.translate(fn)
	k.done[fn] = d
	k.order = append(k.order, d)
	return d, ""
}

func (k *ktrans) defName(fn *types.Func) string {
	parts := []string{}
	if m := moduleOf(fn.Pkg().Path()); m != "" {
		parts = append(parts, m)
	} else {
		parts = append(parts, strings.ReplaceAll(relPkg(fn.Pkg().Path()), "/", "_"))
	}
	if sig := fn.Type().(*types.Signature); sig.Recv() != nil {
		parts = append(parts, typeName(sig.Recv().Type()))
	}
	parts = append(parts, fn.Name())
	name := leanIdent(strings.Join(parts, "_"))
	for other, ok := k.names[name]; ok && other != fn; other, ok = k.names[name] {
		name += "_" + leanIdent(strings.ReplaceAll(relPkg(fn.Pkg().Path()), "/", "_"))
	}
	k.names[name] = fn
	return name
}

func (k *ktrans) translate(fn *types.Func) *kdef {
	w := k.w
	fd := w.decls[fn]
	if fd == nil || fd.Body == nil {
		kfail("no-body")
	}
	sig := fn.Type().(*types.Signature)
	if sig.Variadic() {
		kfail("variadic")
	}
	if sig.TypeParams().Len() > 0 {
		kfail("generic")
	}
	f := &kfunc{k: k, fn: fn, info: w.declPkg[fn].TypesInfo, def: &kdef{fn: fn}, roots: map[types.Object]string{},
		rootDoc: map[string]string{}, rootPos: map[string]int{}, inputs: map[string]*kinput{}, mutSet: map[string]bool{}}
	d := f.def
	env := &kenv{vars: map[types.Object]kval{}, places: map[string]kval{}}

	// results
	res := sig.Results()
	n := res.Len()
	if n > 0 && isErrorType(res.At(n-1).Type()) {
		d.hasErr = true
		n--
	}
	for i := 0; i < n; i++ {
		if res.At(i).Name() != "" {
			kfail("named-result")
		}
		t, ok := k.leafType(res.At(i).Type())
		if !ok || t == ktStr {
			kfail("result-type(%s)", typeName2(res.At(i).Type()))
		}
		d.results = append(d.results, t)
	}

	// receiver and parameters
	ptrRecv := false
	if r := sig.Recv(); r != nil {
		if structOf(r.Type()) == nil {
			kfail("receiver-type(%s)", typeName2(r.Type()))
		}
		_, ptrRecv = types.Unalias(r.Type()).(*types.Pointer)
		f.recv = r
		f.roots[r] = "0"
		name := r.Name()
		if name == "" || name == "_" {
			name = "self"
		}
		f.rootDoc["0"] = name
		f.rootPos["0"] = 0
	}
	for i := 0; i < sig.Params().Len(); i++ {
		p := sig.Params().At(i)
		key := strconv.Itoa(i + 1)
		name := p.Name()
		if name == "" || name == "_" {
			name = "arg" + key
		}
		f.rootDoc[key] = name
		f.rootPos[key] = i + 1
		if t, ok := k.leafType(p.Type()); ok {
			// every scalar parameter is an argument of the definition, read or not (a stable signature)
			in := f.input(key, []int{i + 1, 0}, name, t, name)
			env.vars[p] = kval{ty: t, s: in.name, in: in}
			continue
		}
		if structOf(p.Type()) != nil {
			f.roots[p] = key
			continue
		}
		// a parameter of another type is tolerated as long as the body never reads it
	}

	// which receiver fields does a pointer-receiver method assign (directly or through a callee)?
	if ptrRecv {
		f.scanMutations(fd.Body)
	}
	if st := structOf0(sig.Recv()); st != nil {
		for i := 0; i < st.NumFields(); i++ {
			if f.mutSet[st.Field(i).Name()] {
				t, ok := k.leafType(st.Field(i).Type())
				if !ok {
					kfail("mutated-field-type(%s)", st.Field(i).Name())
				}
				if t == ktStr {
					t = ktID
				}
				d.mutated = append(d.mutated, st.Field(i).Name())
				d.mutTypes = append(d.mutTypes, t)
			}
		}
	}
	if !d.hasErr && len(d.results) == 0 && len(d.mutated) == 0 {
		kfail("no-result")
	}

	d.name = k.defName(fn)
	d.body = f.block(fd.Body.List, env)
	if len(d.body) > 40000 {
		kfail("too-large")
	}
	for _, pin := range k.pins[fn] {
		f.pin(pin)
	}

	// the mutated string fields and string inputs that were never used stay identifiers
	for _, in := range f.inputs {
		if in.ty == ktStr {
			in.ty = ktID
		}
		d.inputs = append(d.inputs, in)
	}
	sort.Slice(d.inputs, func(i, j int) bool { return lessInts(d.inputs[i].sort, d.inputs[j].sort) })
	return d
}

func structOf0(v *types.Var) *types.Struct {
	if v == nil {
		return nil
	}
	return structOf(v.Type())
}

func typeName2(t types.Type) string {
	return types.TypeString(t, func(p *types.Package) string { return p.Name() })
}

func lessInts(a, b []int) bool {
	for i := 0; i < len(a) && i < len(b); i++ {
		if a[i] != b[i] {
			return a[i] < b[i]
		}
	}
	return len(a) < len(b)
}

func (f *kfunc) input(key string, pos []int, name string, t ktype, doc string) *kinput {
	if in, ok := f.inputs[key]; ok {
		return in
	}
	name = leanIdent(name)
	for taken := true; taken; {
		taken = false
		for _, o := range f.inputs {
			if o.name == name {
				taken = true
				name += "_"
			}
		}
	}
	in := &kinput{key: key, sort: pos, name: name, ty: t, doc: doc}
	f.inputs[key] = in
	return in
}

// pin makes a place an argument of the definition whether or not the body reads it.
func (f *kfunc) pin(key string) {
	place := strings.TrimSuffix(key, "?nil")
	root, rest, _ := strings.Cut(place, ".")
	var t types.Type
	for obj, k := range f.roots {
		if k == root {
			t = obj.Type()
		}
	}
	if t == nil || rest == "" {
		kfail("pinned-place(%s)", key)
	}
	fresh := &kenv{vars: map[types.Object]kval{}, places: map[string]kval{}}
	v := f.fieldOfRef(fresh, kval{ref: root, rt: t}, []int{f.rootPos[root]}, f.rootDoc[root], rest)
	if v.isRef() {
		kfail("pinned-place(%s)", key)
	}
	if strings.HasSuffix(key, "?nil") {
		f.isNilOf(v)
	}
}

// scanMutations collects the receiver fields assigned in the body (syntactically, on any path).
func (f *kfunc) scanMutations(body *ast.BlockStmt) {
	ast.Inspect(body, func(n ast.Node) bool {
		switch x := n.(type) {
		case *ast.AssignStmt:
			for _, l := range x.Lhs {
				if sel, ok := ast.Unparen(l).(*ast.SelectorExpr); ok {
					if id, ok := ast.Unparen(sel.X).(*ast.Ident); ok && f.info.ObjectOf(id) == f.recv {
						f.mutSet[sel.Sel.Name] = true
					}
				}
			}
		case *ast.IncDecStmt:
			if sel, ok := ast.Unparen(x.X).(*ast.SelectorExpr); ok {
				if id, ok := ast.Unparen(sel.X).(*ast.Ident); ok && f.info.ObjectOf(id) == f.recv {
					f.mutSet[sel.Sel.Name] = true
				}
			}
		case *ast.ExprStmt:
			if call, ok := ast.Unparen(x.X).(*ast.CallExpr); ok {
				if sel, ok := ast.Unparen(call.Fun).(*ast.SelectorExpr); ok {
					if id, ok := ast.Unparen(sel.X).(*ast.Ident); ok && f.info.ObjectOf(id) == f.recv {
						if fn, ok := f.info.Uses[sel.Sel].(*types.Func); ok && inModule(fn.Pkg()) {
							cd, why := f.k.kernel(fn)
							if cd == nil {
								kfail("callee(%s):%s", fn.Name(), why)
							}
							for _, m := range cd.mutated {
								f.mutSet[m] = true
							}
						}
					}
				}
			}
		}
		return true
	})
}

// ------------------------------------------------------------------------------------------------
// places

// place resolves a selector chain rooted at the receiver or a struct parameter to (key, sort, doc, type).
func (f *kfunc) place(e ast.Expr) (key string, pos []int, doc string, t types.Type, ok bool) {
	e = ast.Unparen(e)
	switch x := e.(type) {
	case *ast.StarExpr:
		return f.place(x.X)
	case *ast.UnaryExpr:
		if x.Op == token.AND {
			return f.place(x.X)
		}
	case *ast.IndexExpr:
		kfail("index-expression")
	case *ast.Ident:
		obj := f.info.ObjectOf(x)
		if key, ok := f.roots[obj]; ok {
			return key, []int{f.rootPos[key]}, f.rootDoc[key], obj.Type(), true
		}
	case *ast.SelectorExpr:
		sel, isSel := f.info.Selections[x]
		if !isSel || sel.Kind() != types.FieldVal {
			return
		}
		bk, bp, bd, _, bok := f.place(x.X)
		if !bok {
			return
		}
		if len(sel.Index()) != 1 {
			kfail("embedded-field(%s)", x.Sel.Name)
		}
		return bk + "." + x.Sel.Name, append(append([]int{}, bp...), sel.Index()[0]), bd + "." + x.Sel.Name, sel.Type(), true
	}
	return
}

// readPlace returns the current value of a leaf place (the input on its first read).
func (f *kfunc) readPlace(env *kenv, key string, pos []int, doc string, t types.Type) kval {
	if structOf(t) != nil {
		return kval{ref: key, rt: t}
	}
	if v, ok := env.places[key]; ok {
		return v
	}
	lt, ok := f.k.leafType(t)
	if !ok {
		kfail("field-type(%s:%s)", doc, typeName2(t))
	}
	in := f.input(key, append(append([]int{}, pos...), 0), strings.ReplaceAll(doc, ".", "_"), lt, doc)
	v := kval{ty: in.ty, s: in.name, in: in}
	env.places[key] = v
	return v
}

// fieldOfRef: the value of field path `rest` ("A.B") below the struct place `ref`.
func (f *kfunc) fieldOfRef(env *kenv, ref kval, basePos []int, baseDoc string, rest string) kval {
	key, pos, doc, t := ref.ref, basePos, baseDoc, ref.rt
	for _, name := range strings.Split(rest, ".") {
		st := structOf(t)
		if st == nil {
			kfail("field-of-non-struct(%s)", doc)
		}
		found := false
		for i := 0; i < st.NumFields(); i++ {
			if st.Field(i).Name() == name {
				key, pos, doc, t = key+"."+name, append(append([]int{}, pos...), i), doc+"."+name, st.Field(i).Type()
				found = true
				break
			}
		}
		if !found {
			kfail("no-field(%s.%s)", doc, name)
		}
	}
	return f.readPlace(env, key, pos, doc, t)
}

// ------------------------------------------------------------------------------------------------
// statements. The rest of the block is translated again in each branch of an `if` (the definitions are small), so
// every path through the body is one path through the generated if-then-else tree and local variables are
// substituted away.

func (f *kfunc) block(stmts []ast.Stmt, env *kenv) string {
	if len(stmts) == 0 {
		// falling off the end: only a function without Go results does that
		if len(f.def.results) > 0 || f.def.hasErr {
			kfail("missing-return")
		}
		return f.result(env, nil, true)
	}
	s, rest := stmts[0], stmts[1:]
	switch x := s.(type) {
	case *ast.EmptyStmt:
		return f.block(rest, env)
	case *ast.BlockStmt:
		return f.block(append(append([]ast.Stmt{}, x.List...), rest...), env)
	case *ast.DeclStmt:
		gd, ok := x.Decl.(*ast.GenDecl)
		if !ok || gd.Tok != token.VAR {
			kfail("declaration")
		}
		for _, sp := range gd.Specs {
			vs := sp.(*ast.ValueSpec)
			if len(vs.Values) != 0 && len(vs.Values) != len(vs.Names) {
				kfail("var-multi-value")
			}
			for i, id := range vs.Names {
				if len(vs.Values) == 0 {
					// zero value: a nil Int / Dec is not a value of the subset; reading it before an assignment fails
					delete(env.vars, f.info.Defs[id])
					continue
				}
				env.vars[f.info.Defs[id]] = f.expr(vs.Values[i], env)
			}
		}
		return f.block(rest, env)
	case *ast.AssignStmt:
		return f.assign(x, rest, env)
	case *ast.IfStmt:
		if x.Init != nil {
			y := *x
			y.Init = nil
			return f.block(append([]ast.Stmt{x.Init, &y}, rest...), env)
		}
		c := f.expr(x.Cond, env).asProp()
		var els []ast.Stmt
		if x.Else != nil {
			els = []ast.Stmt{x.Else}
		}
		a := f.block(append(append([]ast.Stmt{}, x.Body.List...), rest...), env.clone())
		b := f.block(append(els, rest...), env.clone())
		return kite(c, a, b)
	case *ast.SwitchStmt:
		if x.Tag != nil {
			kfail("switch-tag")
		}
		if x.Init != nil {
			kfail("switch-init")
		}
		var clauses []*ast.CaseClause
		var deflt *ast.CaseClause
		for _, c := range x.Body.List {
			cc := c.(*ast.CaseClause)
			for _, st := range cc.Body {
				if br, ok := st.(*ast.BranchStmt); ok {
					kfail("branch(%s)", br.Tok)
				}
			}
			if cc.List == nil {
				deflt = cc
			} else {
				clauses = append(clauses, cc)
			}
		}
		var chain func(i int) string
		chain = func(i int) string {
			if i == len(clauses) {
				var body []ast.Stmt
				if deflt != nil {
					body = deflt.Body
				}
				return f.block(append(append([]ast.Stmt{}, body...), rest...), env.clone())
			}
			var ps []string
			for _, ce := range clauses[i].List {
				ps = append(ps, f.expr(ce, env).asProp())
			}
			c := ps[0]
			if len(ps) > 1 {
				c = "(" + strings.Join(ps, " ∨ ") + ")"
			}
			a := f.block(append(append([]ast.Stmt{}, clauses[i].Body...), rest...), env.clone())
			return kite(c, a, chain(i+1))
		}
		return chain(0)
	case *ast.ReturnStmt:
		return f.ret(x, env)
	case *ast.ExprStmt:
		call, ok := ast.Unparen(x.X).(*ast.CallExpr)
		if !ok {
			kfail("expression-statement")
		}
		f.mutatingCall(call, env)
		return f.block(rest, env)
	}
	kfail("statement(%T)", s)
	return ""
}

func kite(c, a, b string) string {
	return "if " + c + " then\n" + kindent(a) + "\nelse\n" + kindent(b)
}

func kindent(s string) string {
	return "  " + strings.ReplaceAll(s, "\n", "\n  ")
}

// result builds the value of a finished path: the Go results, then the mutated receiver fields.
func (f *kfunc) result(env *kenv, vals []kval, ok bool) string {
	d := f.def
	if !ok {
		if env.mutated {
			// a pointer-receiver method that fails after an assignment keeps the assignment: not an Option
			kfail("mutation-before-error")
		}
		return "none"
	}
	var parts []string
	for i, v := range vals {
		if v.isRef() || (v.ty != d.results[i] && !(v.ty == ktStr && d.results[i] == ktID)) {
			kfail("result-type-mismatch")
		}
		parts = append(parts, v.term())
	}
	if len(d.mutated) > 0 {
		rv := kval{ref: "0", rt: f.recv.Type()}
		for i, m := range d.mutated {
			v := f.fieldOfRef(env, rv, []int{0}, f.rootDoc["0"], m)
			f.unify(&v, d.mutTypes[i])
			parts = append(parts, v.term())
		}
	}
	r := "()"
	if len(parts) == 1 {
		r = parts[0]
	} else if len(parts) > 1 {
		r = "(" + strings.Join(parts, ", ") + ")"
	}
	if d.hasErr {
		return "some " + kparen(r)
	}
	return r
}

func kparen(s string) string {
	if strings.ContainsAny(s, " \n") && !(strings.HasPrefix(s, "(") && matchingParen(s) == len(s)-1) {
		return "(" + s + ")"
	}
	return s
}

func matchingParen(s string) int {
	depth := 0
	for i, r := range s {
		switch r {
		case '(':
			depth++
		case ')':
			depth--
			if depth == 0 {
				return i
			}
		}
	}
	return -1
}

func (f *kfunc) ret(x *ast.ReturnStmt, env *kenv) string {
	d := f.def
	want := len(d.results)
	if d.hasErr {
		want++
	}
	if len(x.Results) != want {
		kfail("return-arity") // includes `return f(...)` of a multi-valued call
	}
	if d.hasErr {
		switch f.errorExpr(x.Results[want-1], nil) {
		case "nil":
		case "error":
			return f.result(env, nil, false)
		default:
			kfail("return-error-unknown")
		}
	}
	var vals []kval
	for _, r := range x.Results[:len(d.results)] {
		vals = append(vals, f.expr(r, env))
	}
	return f.result(env, vals, true)
}

// errorExpr classifies an expression of type error: "nil", "error" (certainly non-nil) or "" (unknown).
// nonNil is an error variable known to be non-nil at this point.
func (f *kfunc) errorExpr(e ast.Expr, nonNil types.Object) string {
	e = ast.Unparen(e)
	if id, ok := e.(*ast.Ident); ok {
		obj := f.info.ObjectOf(id)
		if _, isNil := obj.(*types.Nil); isNil {
			return "nil"
		}
		if nonNil != nil && obj == nonNil {
			return "error"
		}
		return ""
	}
	call, ok := e.(*ast.CallExpr)
	if !ok {
		return ""
	}
	obj, _ := callee(f.info, call)
	fn, ok := obj.(*types.Func)
	if !ok || fn.Pkg() == nil {
		return ""
	}
	switch fn.Pkg().Path() + "." + fn.Name() {
	case "fmt.Errorf", "errors.New":
		return "error"
	case errorsPkg + ".Wrapf", errorsPkg + ".Wrap":
		// Wrap(nil, …) is nil: the wrapped error must be a registered (package-level) error or the known one
		if len(call.Args) > 0 {
			a := ast.Unparen(call.Args[0])
			var id *ast.Ident
			switch y := a.(type) {
			case *ast.Ident:
				id = y
			case *ast.SelectorExpr:
				id = y.Sel
			}
			if id != nil {
				if v, ok := f.info.ObjectOf(id).(*types.Var); ok {
					if (v.Pkg() != nil && v.Parent() == v.Pkg().Scope()) || (nonNil != nil && v == nonNil) {
						return "error"
					}
				}
			}
		}
	}
	return ""
}

func (f *kfunc) assign(x *ast.AssignStmt, rest []ast.Stmt, env *kenv) string {
	if x.Tok != token.ASSIGN && x.Tok != token.DEFINE {
		kfail("op-assign(%s)", x.Tok)
	}
	if len(x.Rhs) == 1 && len(x.Lhs) > 1 {
		return f.assignCall(x, rest, env)
	}
	if len(x.Lhs) != len(x.Rhs) {
		kfail("assign-arity")
	}
	// Go evaluates all right-hand sides first
	vals := make([]kval, len(x.Rhs))
	for i, r := range x.Rhs {
		vals[i] = f.expr(r, env)
	}
	for i, l := range x.Lhs {
		f.store(l, vals[i], env)
	}
	return f.block(rest, env)
}

func (f *kfunc) store(l ast.Expr, v kval, env *kenv) {
	l = ast.Unparen(l)
	if id, ok := l.(*ast.Ident); ok {
		if id.Name == "_" {
			return
		}
		obj := f.info.ObjectOf(id)
		if _, isRoot := f.roots[obj]; isRoot {
			kfail("assign-to-struct(%s)", id.Name)
		}
		if v.isRef() {
			kfail("struct-local(%s)", id.Name)
		}
		if vr, ok := obj.(*types.Var); !ok || vr.Parent() == nil || (vr.Pkg() != nil && vr.Parent() == vr.Pkg().Scope()) {
			kfail("assign-to-global(%s)", id.Name)
		}
		env.vars[obj] = v
		return
	}
	key, _, doc, t, ok := f.place(l)
	if !ok {
		kfail("assign-target(%s)", exprString(l))
	}
	if structOf(t) != nil || v.isRef() {
		kfail("assign-struct(%s)", doc)
	}
	lt, lok := f.k.leafType(t)
	if !lok {
		kfail("field-type(%s:%s)", doc, typeName2(t))
	}
	if lt == ktStr {
		lt = ktID // a string stored into a field is an identifier
	}
	f.unify(&v, lt)
	if strings.HasPrefix(key, "0.") {
		if _, ptr := types.Unalias(f.recv.Type()).(*types.Pointer); ptr {
			if strings.Count(key, ".") != 1 {
				kfail("nested-mutation(%s)", doc)
			}
			env.mutated = true
		}
	} else if root := strings.SplitN(key, ".", 2)[0]; root != "0" {
		for obj, k := range f.roots {
			if k == root {
				if _, ptr := types.Unalias(obj.Type()).(*types.Pointer); ptr {
					kfail("param-mutation(%s)", doc)
				}
			}
		}
	}
	v.in = nil
	env.places[key] = v
}

// unify makes a string value agree with the wanted string flavour (identifier or parse result).
func (f *kfunc) unify(v *kval, want ktype) {
	if v.isRef() {
		kfail("struct-value")
	}
	if v.ty == want {
		return
	}
	isStr := func(t ktype) bool { return t == ktStr || t == ktID || t == ktParse }
	if !isStr(v.ty) || !isStr(want) {
		kfail("type-mismatch(%s,%s)", v.ty.lean(), want.lean())
	}
	if want == ktStr {
		return
	}
	if v.ty == ktStr && v.in != nil {
		if v.in.ty == ktStr {
			v.in.ty = want
		}
		if v.in.ty != want {
			kfail("string-used-two-ways(%s)", v.in.doc)
		}
		v.ty = want
		return
	}
	kfail("string-used-two-ways")
}

// assignCall handles `v…, err := call(…)` followed by `if err != nil { return …, err }`.
func (f *kfunc) assignCall(x *ast.AssignStmt, rest []ast.Stmt, env *kenv) string {
	call, ok := ast.Unparen(x.Rhs[0]).(*ast.CallExpr)
	if !ok {
		kfail("multi-assign")
	}
	last, ok := ast.Unparen(x.Lhs[len(x.Lhs)-1]).(*ast.Ident)
	if !ok || !isErrorType(f.info.TypeOf(last)) {
		kfail("multi-assign-without-error")
	}
	errObj := f.info.ObjectOf(last)
	if !f.def.hasErr {
		kfail("error-in-total-function")
	}
	// the guard
	if len(rest) == 0 {
		kfail("unchecked-error")
	}
	guard, ok := rest[0].(*ast.IfStmt)
	if !ok || guard.Init != nil || guard.Else != nil || len(guard.Body.List) != 1 {
		kfail("error-guard-shape")
	}
	cond, ok := ast.Unparen(guard.Cond).(*ast.BinaryExpr)
	if !ok || cond.Op != token.NEQ {
		kfail("error-guard-shape")
	}
	ci, ok1 := ast.Unparen(cond.X).(*ast.Ident)
	cn, ok2 := ast.Unparen(cond.Y).(*ast.Ident)
	if !ok1 || !ok2 || f.info.ObjectOf(ci) != errObj {
		kfail("error-guard-shape")
	}
	if _, isNil := f.info.ObjectOf(cn).(*types.Nil); !isNil {
		kfail("error-guard-shape")
	}
	gret, ok := guard.Body.List[0].(*ast.ReturnStmt)
	if !ok || len(gret.Results) == 0 || f.errorExpr(gret.Results[len(gret.Results)-1], errObj) != "error" {
		kfail("error-guard-shape")
	}
	if env.mutated {
		kfail("mutation-before-error")
	}
	rest = rest[1:]

	// the call: LegacyNewDecFromStr(s) (the parse result is an input) or a function of the module
	var scrut string
	var tys []ktype
	obj, _ := callee(f.info, call)
	fn, _ := obj.(*types.Func)
	switch {
	case fn != nil && fn.Pkg() != nil && fn.Pkg().Path() == mathPkg && fn.Name() == "LegacyNewDecFromStr":
		v := f.expr(call.Args[0], env)
		f.unify(&v, ktParse)
		scrut, tys = v.s, []ktype{ktDec}
	case fn != nil && inModule(fn.Pkg()):
		app, cd := f.callKernel(call, fn, env)
		if !cd.hasErr || len(cd.mutated) > 0 {
			kfail("multi-assign-callee(%s)", fn.Name())
		}
		scrut, tys = app, cd.results
	default:
		kfail("multi-assign-call(%s)", exprString(call.Fun))
	}
	if len(tys) != len(x.Lhs)-1 {
		kfail("multi-assign-arity")
	}
	f.fresh++
	r := "r" + strconv.Itoa(f.fresh)
	for i, l := range x.Lhs[:len(x.Lhs)-1] {
		proj := r
		if len(tys) > 1 {
			proj = r + strings.Repeat(".2", i)
			if i < len(tys)-1 {
				proj += ".1"
			}
		}
		f.store(l, kval{ty: tys[i], s: proj}, env)
	}
	pat := "some " + r
	if len(tys) == 0 {
		pat = "some _"
	}
	return "(match " + scrut + " with\n| none => none\n| " + pat + " =>\n" + kindent(f.block(rest, env)) + ")"
}

// mutatingCall: `p.method(args)` as a statement, where method assigns fields of the same pointer receiver.
func (f *kfunc) mutatingCall(call *ast.CallExpr, env *kenv) {
	obj, _ := callee(f.info, call)
	fn, ok := obj.(*types.Func)
	if !ok || !inModule(fn.Pkg()) {
		kfail("call-statement(%s)", exprString(call.Fun))
	}
	sel, ok := ast.Unparen(call.Fun).(*ast.SelectorExpr)
	if !ok {
		kfail("call-statement(%s)", exprString(call.Fun))
	}
	if id, ok := ast.Unparen(sel.X).(*ast.Ident); !ok || f.info.ObjectOf(id) != f.recv {
		kfail("call-statement-on-other-object(%s)", exprString(call.Fun))
	}
	app, cd := f.callKernel(call, fn, env)
	if cd.hasErr || len(cd.results) > 0 || len(cd.mutated) == 0 {
		kfail("call-statement-result(%s)", fn.Name())
	}
	for i, m := range cd.mutated {
		proj := app
		if len(cd.mutated) > 1 {
			proj = app + strings.Repeat(".2", i)
			if i < len(cd.mutated)-1 {
				proj += ".1"
			}
		}
		env.places["0."+m] = kval{ty: cd.mutTypes[i], s: proj}
		env.mutated = true
	}
}

// callKernel translates the callee (memoised) and applies its definition to the caller's values.
func (f *kfunc) callKernel(call *ast.CallExpr, fn *types.Func, env *kenv) (string, *kdef) {
	cd, why := f.k.kernel(fn)
	if cd == nil {
		kfail("callee(%s):%s", fn.Name(), why)
	}
	var recv kval
	var rpos []int
	var rdoc string
	if fn.Type().(*types.Signature).Recv() != nil {
		sel, ok := ast.Unparen(call.Fun).(*ast.SelectorExpr)
		if !ok {
			kfail("method-value")
		}
		key, pos, doc, t, ok := f.place(sel.X)
		if !ok || structOf(t) == nil {
			kfail("receiver-expression(%s)", exprString(sel.X))
		}
		recv, rpos, rdoc = kval{ref: key, rt: t}, pos, doc
	}
	args := []string{}
	for _, in := range cd.inputs {
		root, restPath, _ := strings.Cut(in.key, ".")
		isNil := strings.HasSuffix(in.key, "?nil")
		restPath = strings.TrimSuffix(restPath, "?nil")
		var v kval
		if root == "0" {
			if isNil {
				v = f.isNilOf(f.fieldOfRef(env, recv, rpos, rdoc, restPath))
			} else {
				v = f.fieldOfRef(env, recv, rpos, rdoc, restPath)
			}
		} else {
			i, _ := strconv.Atoi(strings.TrimSuffix(root, "?nil"))
			a := call.Args[i-1]
			if restPath == "" {
				v = f.expr(a, env)
				if strings.HasSuffix(root, "?nil") || isNil {
					v = f.isNilOf(v)
				}
			} else {
				key, pos, doc, t, ok := f.place(a)
				if !ok || structOf(t) == nil {
					kfail("struct-argument(%s)", exprString(a))
				}
				v = f.fieldOfRef(env, kval{ref: key, rt: t}, pos, doc, restPath)
				if isNil {
					v = f.isNilOf(v)
				}
			}
		}
		f.unify(&v, in.ty)
		args = append(args, kparen(v.term()))
	}
	app := cd.name
	if len(args) > 0 {
		app = "(" + cd.name + " " + strings.Join(args, " ") + ")"
	}
	return app, cd
}

// isNilOf: the IsNil flag of an untouched Int/Dec input, a separate Bool argument of the definition.
func (f *kfunc) isNilOf(v kval) kval {
	if v.in == nil || (v.ty != ktInt && v.ty != ktDec) {
		kfail("IsNil-of-computed-value")
	}
	pos := append(append([]int{}, v.in.sort[:len(v.in.sort)-1]...), 1)
	in := f.input(v.in.key+"?nil", pos, v.in.name+"_isNil", ktBool, v.in.doc+".IsNil()")
	return kval{ty: ktBool, s: in.name, in: in}
}

// ------------------------------------------------------------------------------------------------
// expressions

func (f *kfunc) expr(e ast.Expr, env *kenv) kval {
	e = ast.Unparen(e)
	// constants (typed or untyped)
	if tv, ok := f.info.Types[e]; ok && tv.Value != nil {
		switch tv.Value.Kind() {
		case constant.Int:
			if _, named := types.Unalias(tv.Type).(*types.Named); named {
				kfail("named-constant(%s)", exprString(e))
			}
			return kval{ty: ktMach, s: kintLit(tv.Value.ExactString())}
		case constant.Bool:
			if constant.BoolVal(tv.Value) {
				return kval{ty: ktBool, s: "true", prop: "True"}
			}
			return kval{ty: ktBool, s: "false", prop: "False"}
		}
		kfail("constant(%s)", exprString(e))
	}
	switch x := e.(type) {
	case *ast.Ident:
		obj := f.info.ObjectOf(x)
		if v, ok := env.vars[obj]; ok {
			return v
		}
		if key, ok := f.roots[obj]; ok {
			return kval{ref: key, rt: obj.Type()}
		}
		kfail("identifier(%s)", x.Name)
	case *ast.StarExpr:
		return f.expr(x.X, env)
	case *ast.SelectorExpr:
		if key, pos, doc, t, ok := f.place(x); ok {
			return f.readPlace(env, key, pos, doc, t)
		}
		kfail("selector(%s)", exprString(x))
	case *ast.UnaryExpr:
		switch x.Op {
		case token.NOT:
			return kval{ty: ktBool, prop: "(¬ " + f.expr(x.X, env).asProp() + ")"}
		case token.AND:
			v := f.expr(x.X, env)
			if v.isRef() {
				return v
			}
		}
		kfail("unary(%s)", x.Op)
	case *ast.BinaryExpr:
		return f.binary(x, env)
	case *ast.CallExpr:
		return f.call(x, env)
	}
	kfail("expression(%T)", e)
	return kval{}
}

func kintLit(s string) string { return "(" + s + " : Int)" }

func (f *kfunc) binary(x *ast.BinaryExpr, env *kenv) kval {
	switch x.Op {
	case token.LAND, token.LOR:
		a, b := f.expr(x.X, env).asProp(), f.expr(x.Y, env).asProp()
		op := " ∧ "
		if x.Op == token.LOR {
			op = " ∨ "
		}
		return kval{ty: ktBool, prop: "(" + a + op + b + ")"}
	case token.EQL, token.NEQ, token.LSS, token.LEQ, token.GTR, token.GEQ:
		a, b := f.expr(x.X, env), f.expr(x.Y, env)
		if a.isRef() || b.isRef() {
			kfail("struct-comparison")
		}
		switch {
		case a.ty == ktMach && b.ty == ktMach:
		case (a.ty == ktStr || a.ty == ktID) && (b.ty == ktStr || b.ty == ktID) && (x.Op == token.EQL || x.Op == token.NEQ):
			f.unify(&a, ktID)
			f.unify(&b, ktID)
		case a.ty == ktBool && b.ty == ktBool && (x.Op == token.EQL || x.Op == token.NEQ):
			return kval{ty: ktBool, prop: "(" + a.asBool() + map[token.Token]string{token.EQL: " = ", token.NEQ: " ≠ "}[x.Op] + b.asBool() + ")"}
		default:
			kfail("comparison(%s)", exprString(x))
		}
		l, r := a.s, b.s
		var p string
		switch x.Op {
		case token.EQL:
			p = l + " = " + r
		case token.NEQ:
			p = l + " ≠ " + r
		case token.LSS:
			p = l + " < " + r
		case token.LEQ:
			p = l + " ≤ " + r
		case token.GTR:
			p = r + " < " + l
		case token.GEQ:
			p = r + " ≤ " + l
		}
		return kval{ty: ktBool, prop: "(" + p + ")"}
	}
	// + - * / % on machine integers wrap around in Go: outside the subset
	kfail("machine-arithmetic(%s)", x.Op)
	return kval{}
}

func (f *kfunc) call(call *ast.CallExpr, env *kenv) kval {
	// conversions int64(x) …
	if tv, ok := f.info.Types[call.Fun]; ok && tv.IsType() {
		kfail("conversion(%s)", exprString(call.Fun))
	}
	obj, _ := callee(f.info, call)
	if obj == nil || obj.Pkg() == nil {
		kfail("call(%s)", exprString(call.Fun))
	}
	pkg, name := obj.Pkg().Path(), obj.Name()
	arg := func(i int, want ktype) string {
		if i >= len(call.Args) {
			kfail("call-arity(%s)", name)
		}
		v := f.expr(call.Args[i], env)
		if v.isRef() || v.ty != want {
			kfail("argument-type(%s)", name)
		}
		return v.s
	}
	// package-level functions of cosmossdk.io/math, and their aliases in the sdk types package (sdk.MaxInt …)
	fn, isFunc := obj.(*types.Func)
	pkgLevel := (isFunc && fn.Type().(*types.Signature).Recv() == nil) || !isFunc
	if pkgLevel && (pkg == mathPkg || pkg == sdkTypesPkg) {
		switch name {
		case "ZeroInt":
			return kval{ty: ktInt, s: "(0 : Int)"}
		case "OneInt":
			return kval{ty: ktInt, s: "(1 : Int)"}
		case "NewInt", "NewIntFromUint64":
			return kval{ty: ktInt, s: arg(0, ktMach)}
		case "MaxInt":
			return kval{ty: ktInt, s: "(maxI " + arg(0, ktInt) + " " + arg(1, ktInt) + ")"}
		case "MinInt":
			return kval{ty: ktInt, s: "(minI " + arg(0, ktInt) + " " + arg(1, ktInt) + ")"}
		case "LegacyZeroDec", "ZeroDec":
			return kval{ty: ktDec, s: "Dec.zero"}
		case "LegacyOneDec", "OneDec":
			return kval{ty: ktDec, s: "Dec.one"}
		case "LegacyNewDecFromInt", "NewDecFromInt":
			return kval{ty: ktDec, s: "(Dec.ofInt " + arg(0, ktInt) + ")"}
		case "LegacyNewDec", "NewDec":
			return kval{ty: ktDec, s: "(Dec.ofInt " + arg(0, ktMach) + ")"}
		case "LegacyMaxDec", "MaxDec":
			a, b := arg(0, ktDec), arg(1, ktDec)
			return kval{ty: ktDec, s: "(if " + a + ".raw < " + b + ".raw then " + b + " else " + a + ")"}
		case "LegacyMinDec", "MinDec":
			a, b := arg(0, ktDec), arg(1, ktDec)
			return kval{ty: ktDec, s: "(if " + a + ".raw < " + b + ".raw then " + a + " else " + b + ")"}
		}
		kfail("call(%s.%s)", obj.Pkg().Name(), name)
	}
	if !isFunc {
		kfail("call(%s)", exprString(call.Fun))
	}
	sig := fn.Type().(*types.Signature)
	// methods of sdkmath.Int and sdkmath.LegacyDec
	if sig.Recv() != nil && pkg == mathPkg {
		sel := ast.Unparen(call.Fun).(*ast.SelectorExpr)
		rv := f.expr(sel.X, env)
		if rv.isRef() {
			kfail("method-receiver(%s)", name)
		}
		if name == "IsNil" {
			return f.isNilOf(rv)
		}
		switch rv.ty {
		case ktInt:
			return f.intMethod(name, rv.s, call, arg)
		case ktDec:
			return f.decMethod(name, rv.s, call, arg)
		}
		kfail("method(%s)", name)
	}
	// functions and methods of the module: translated on their own and applied
	if inModule(fn.Pkg()) {
		app, cd := f.callKernel(call, fn, env)
		if cd.hasErr {
			kfail("error-call-in-expression(%s)", name)
		}
		if len(cd.mutated) > 0 {
			kfail("mutating-call-in-expression(%s)", name)
		}
		if len(cd.results) != 1 {
			kfail("multi-valued-call(%s)", name)
		}
		return kval{ty: cd.results[0], s: app}
	}
	kfail("call(%s.%s)", obj.Pkg().Name(), name)
	return kval{}
}

func kcmp(op, a, b string) kval {
	switch op {
	case "GT":
		return kval{ty: ktBool, prop: "(" + b + " < " + a + ")"}
	case "GTE":
		return kval{ty: ktBool, prop: "(" + b + " ≤ " + a + ")"}
	case "LT":
		return kval{ty: ktBool, prop: "(" + a + " < " + b + ")"}
	case "LTE":
		return kval{ty: ktBool, prop: "(" + a + " ≤ " + b + ")"}
	case "Equal":
		return kval{ty: ktBool, prop: "(" + a + " = " + b + ")"}
	}
	return kval{}
}

func (f *kfunc) intMethod(name, r string, call *ast.CallExpr, arg func(int, ktype) string) kval {
	switch name {
	case "Add":
		return kval{ty: ktInt, s: "(" + r + " + " + arg(0, ktInt) + ")"}
	case "Sub":
		return kval{ty: ktInt, s: "(" + r + " - " + arg(0, ktInt) + ")"}
	case "Mul":
		return kval{ty: ktInt, s: "(" + r + " * " + arg(0, ktInt) + ")"}
	case "Quo":
		return kval{ty: ktInt, s: "(tquo " + r + " " + arg(0, ktInt) + ")"}
	case "AddRaw":
		return kval{ty: ktInt, s: "(" + r + " + " + arg(0, ktMach) + ")"}
	case "SubRaw":
		return kval{ty: ktInt, s: "(" + r + " - " + arg(0, ktMach) + ")"}
	case "MulRaw":
		return kval{ty: ktInt, s: "(" + r + " * " + arg(0, ktMach) + ")"}
	case "QuoRaw":
		return kval{ty: ktInt, s: "(tquo " + r + " " + arg(0, ktMach) + ")"}
	case "Neg":
		return kval{ty: ktInt, s: "(- " + r + ")"}
	case "Abs":
		return kval{ty: ktInt, s: "(if " + r + " < 0 then - " + r + " else " + r + ")"}
	case "ToLegacyDec":
		return kval{ty: ktDec, s: "(Dec.ofInt " + r + ")"}
	case "IsZero":
		return kval{ty: ktBool, prop: "(" + r + " = (0 : Int))"}
	case "IsNegative":
		return kval{ty: ktBool, prop: "(" + r + " < (0 : Int))"}
	case "IsPositive":
		return kval{ty: ktBool, prop: "((0 : Int) < " + r + ")"}
	case "GT", "GTE", "LT", "LTE", "Equal":
		return kcmp(name, r, arg(0, ktInt))
	}
	kfail("method(Int.%s)", name)
	return kval{}
}

func (f *kfunc) decMethod(name, r string, call *ast.CallExpr, arg func(int, ktype) string) kval {
	bin := map[string]string{"Add": "Dec.add", "Sub": "Dec.sub", "Mul": "Dec.mul", "Quo": "Dec.quo",
		"MulTruncate": "Dec.mulTruncate", "QuoTruncate": "Dec.quoTruncate"}
	if op, ok := bin[name]; ok {
		return kval{ty: ktDec, s: "(" + op + " " + r + " " + arg(0, ktDec) + ")"}
	}
	switch name {
	case "MulInt":
		return kval{ty: ktDec, s: "(Dec.mulInt " + r + " " + arg(0, ktInt) + ")"}
	case "QuoInt":
		return kval{ty: ktDec, s: "(Dec.quoInt " + r + " " + arg(0, ktInt) + ")"}
	case "MulInt64":
		return kval{ty: ktDec, s: "(Dec.mulInt " + r + " " + arg(0, ktMach) + ")"}
	case "QuoInt64":
		return kval{ty: ktDec, s: "(Dec.quoInt " + r + " " + arg(0, ktMach) + ")"}
	case "Neg":
		return kval{ty: ktDec, s: "(Dec.neg " + r + ")"}
	case "Abs":
		return kval{ty: ktDec, s: "(if " + r + ".raw < 0 then Dec.neg " + r + " else " + r + ")"}
	case "TruncateInt":
		return kval{ty: ktInt, s: "(Dec.truncInt " + r + ")"}
	case "RoundInt":
		return kval{ty: ktInt, s: "(Dec.roundInt " + r + ")"}
	case "TruncateDec":
		return kval{ty: ktDec, s: "(Dec.truncDec " + r + ")"}
	case "Ceil":
		return kval{ty: ktDec, s: "(Dec.ceil " + r + ")"}
	case "IsZero":
		return kval{ty: ktBool, prop: "(" + r + ".raw = (0 : Int))"}
	case "IsNegative":
		return kval{ty: ktBool, prop: "(" + r + ".raw < (0 : Int))"}
	case "IsPositive":
		return kval{ty: ktBool, prop: "((0 : Int) < " + r + ".raw)"}
	case "GT", "GTE", "LT", "LTE", "Equal":
		return kcmp(name, r+".raw", arg(0, ktDec)+".raw")
	}
	kfail("method(LegacyDec.%s)", name)
	return kval{}
}

// ------------------------------------------------------------------------------------------------
// output

func (k *ktrans) lookup(r kernelRequest) *types.Func {
	p := k.w.byPath[modPath+"/"+r.pkg]
	if p == nil {
		return nil
	}
	if r.recv == "" {
		fn, _ := p.Types.Scope().Lookup(r.name).(*types.Func)
		return fn
	}
	tn, ok := p.Types.Scope().Lookup(r.recv).(*types.TypeName)
	if !ok {
		return nil
	}
	obj, _, _ := types.LookupFieldOrMethod(types.NewPointer(tn.Type()), true, p.Types, r.name)
	fn, _ := obj.(*types.Func)
	if fn == nil || k.w.decls[fn] == nil {
		return nil
	}
	return fn
}

func requestName(r kernelRequest) string {
	parts := []string{moduleOf(modPath + "/" + r.pkg)}
	if r.recv != "" {
		parts = append(parts, r.recv)
	}
	return leanIdent(strings.Join(append(parts, r.name), "_"))
}

// genKernels returns Kernels.lean and KernelsTieList.lean.
func genKernels(w *World) (string, string) {
	k := &ktrans{w: w, done: map[*types.Func]*kdef{}, fails: map[*types.Func]string{}, busy: map[*types.Func]bool{},
		names: map[string]*types.Func{}, pins: map[*types.Func][]string{}}
	reqs := append([]kernelRequest{}, kernelRequests...)
	sort.Slice(reqs, func(i, j int) bool { return requestName(reqs[i]) < requestName(reqs[j]) })
	for _, r := range reqs {
		if fn := k.lookup(r); fn != nil {
			k.pins[fn] = r.pins
		}
	}
	type row struct{ name, status, tie, src string }
	var rows []row
	for _, r := range reqs {
		fn := k.lookup(r)
		if fn == nil {
			rows = append(rows, row{requestName(r), "unsupported:missing-function", r.tie, r.pkg})
			continue
		}
		d, why := k.kernel(fn)
		if d == nil {
			rows = append(rows, row{requestName(r), "unsupported:" + why, r.tie, w.pos(w.decls[fn].Pos())})
			continue
		}
		rows = append(rows, row{d.name, "translated", r.tie, w.pos(w.decls[fn].Pos())})
	}

	var b strings.Builder
	b.WriteString("/-\n  GENERATED by extract/kernels.go from the working tree of sge-network/sge. DO NOT EDIT: overwritten by every\n" +
		"  `bin/check` / `bin/kernelstie` run.\n" +
		"  The arithmetic kernels of the repository, translated from their Go AST (subset and trusted base: extract/KERNELS.md).\n" +
		"  One argument per scalar parameter and per field read; local variables are substituted away; a pointer-receiver\n" +
		"  method returns its results followed by the assigned receiver fields; a trailing `error` result makes the value an\n" +
		"  `Option` (`none` = the function returns an error). SgeProofs/Properties/KernelsTie/*.lean prove each definition\n" +
		"  equal to the hand-written model function, for all inputs.\n-/\n")
	b.WriteString("import Sge.Dec\nset_option linter.unusedVariables false\nnamespace Sge.Gen.Kernels\nopen Sge\n\n")
	for _, d := range k.order {
		fmt.Fprintf(&b, "/-- `%s` @ %s\n", funcName(d.fn), w.pos(w.decls[d.fn].Pos()))
		for _, in := range d.inputs {
			fmt.Fprintf(&b, "    %s : %s  -- %s\n", in.name, in.ty.lean(), in.doc)
		}
		var outs []string
		sig := d.fn.Type().(*types.Signature)
		for i := range d.results {
			outs = append(outs, "result "+strconv.Itoa(i+1)+" ("+typeName2(sig.Results().At(i).Type())+")")
		}
		for _, m := range d.mutated {
			outs = append(outs, "new "+m)
		}
		if len(outs) == 0 {
			outs = []string{"()"}
		}
		fmt.Fprintf(&b, "    value: %s", strings.Join(outs, ", "))
		if d.hasErr {
			b.WriteString("; none = error")
		}
		b.WriteString(" -/\n")
		fmt.Fprintf(&b, "def %s", d.name)
		for _, in := range d.inputs {
			fmt.Fprintf(&b, " (%s : %s)", in.name, in.ty.lean())
		}
		fmt.Fprintf(&b, " : %s :=\n%s\n\n", d.leanResult(), kindent(d.body))
	}
	b.WriteString("/-- every requested kernel: \"translated\" or \"unsupported:<construct>\" (then no definition is emitted) -/\n")
	var items, ties, srcs []string
	for _, r := range rows {
		items = append(items, "("+q(r.name)+", "+q(r.status)+")")
		if r.tie != "" {
			ties = append(ties, "("+q(r.name)+", "+q(r.tie)+")")
		}
		srcs = append(srcs, "("+q(r.name)+", "+q(r.src)+")")
	}
	b.WriteString("def kernelStatus : List (String × String) := " + list(items) + "\n\n")
	b.WriteString("/-- kernel ↦ its tie module SgeProofs.Properties.KernelsTie.<name> (and lattice module SgeProofs.Lemmas.KernelsLattice.<name>) -/\n")
	b.WriteString("def kernelTie : List (String × String) := " + list(ties) + "\n\n")
	b.WriteString("/-- kernel ↦ source position of the Go function -/\n")
	b.WriteString("def kernelSource : List (String × String) := " + list(srcs) + "\n\n")
	b.WriteString("end Sge.Gen.Kernels\n")

	var t strings.Builder
	t.WriteString("/-\n  GENERATED by extract/kernels.go. DO NOT EDIT. Imports the tie theorem of every kernel that was translated;\n" +
		"  the theorem of an \"unsupported\" kernel is left out (nothing to tie).\n-/\n")
	t.WriteString("import Sge.Gen.Kernels\n")
	var mods []string
	for _, r := range rows {
		if r.status == "translated" && r.tie != "" {
			mods = append(mods, "SgeProofs.Properties.KernelsTie."+r.tie)
		}
	}
	sort.Strings(mods)
	for _, m := range mods {
		t.WriteString("import " + m + "\n")
	}
	return b.String(), t.String()
}
