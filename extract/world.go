package main

import (
	"fmt"
	"go/ast"
	"go/constant"
	"go/token"
	"go/types"
	"path/filepath"
	"sort"
	"strings"

	"golang.org/x/tools/go/packages"
)

const modPath = "github.com/sge-network/sge"

// the custom modules of the chain (directories under x/)
var sgeModules = []string{"bet", "house", "market", "mint", "orderbook", "ovm", "reward", "subaccount"}

// World is the loaded program: every non-test package of the module reachable from x/ app/ utils/ types/.
type World struct {
	repo     string
	fset     *token.FileSet
	pkgs     []*packages.Package // module packages, sorted by path
	byPath   map[string]*packages.Package
	decls    map[*types.Func]*ast.FuncDecl
	declPkg  map[*types.Func]*packages.Package
	concrete []*types.Named // non-interface named types declared in the module
	impls    map[string][]*types.Func
	problems []string
}

func load(repo string) (*World, error) {
	abs, err := filepath.Abs(repo)
	if err != nil {
		return nil, err
	}
	if p, err := filepath.EvalSymlinks(abs); err == nil {
		abs = p
	}
	cfg := &packages.Config{
		Mode: packages.NeedName | packages.NeedFiles | packages.NeedSyntax | packages.NeedTypes |
			packages.NeedTypesInfo | packages.NeedImports | packages.NeedDeps,
		Dir:   abs,
		Tests: false,
	}
	roots, err := packages.Load(cfg, "./x/...", "./app/...", "./utils/...", "./types/...")
	if err != nil {
		return nil, err
	}
	w := &World{repo: abs, byPath: map[string]*packages.Package{}, decls: map[*types.Func]*ast.FuncDecl{},
		declPkg: map[*types.Func]*packages.Package{}, impls: map[string][]*types.Func{}}
	var visit func(p *packages.Package)
	visit = func(p *packages.Package) {
		if !strings.HasPrefix(p.PkgPath, modPath) || w.byPath[p.PkgPath] != nil {
			return
		}
		w.byPath[p.PkgPath] = p
		w.pkgs = append(w.pkgs, p)
		for _, q := range p.Imports {
			visit(q)
		}
	}
	for _, p := range roots {
		visit(p)
	}
	sort.Slice(w.pkgs, func(i, j int) bool { return w.pkgs[i].PkgPath < w.pkgs[j].PkgPath })
	for _, p := range w.pkgs {
		for _, e := range p.Errors {
			// the tree must type-check: facts read off a broken tree would be meaningless
			return nil, fmt.Errorf("package %s does not type-check: %v", p.PkgPath, e)
		}
		if w.fset == nil {
			w.fset = p.Fset
		}
		for _, f := range p.Syntax {
			for _, d := range f.Decls {
				if fd, ok := d.(*ast.FuncDecl); ok {
					if fn, ok := p.TypesInfo.Defs[fd.Name].(*types.Func); ok {
						w.decls[fn] = fd
						w.declPkg[fn] = p
					}
				}
			}
		}
		sc := p.Types.Scope()
		for _, n := range sc.Names() {
			if tn, ok := sc.Lookup(n).(*types.TypeName); ok && !tn.IsAlias() {
				if nt, ok := tn.Type().(*types.Named); ok && !types.IsInterface(nt) && nt.TypeParams().Len() == 0 {
					w.concrete = append(w.concrete, nt)
				}
			}
		}
	}
	if len(w.pkgs) == 0 {
		return nil, fmt.Errorf("no packages of %s found under %s", modPath, abs)
	}
	return w, nil
}

func (w *World) problem(format string, a ...any) {
	w.problems = append(w.problems, fmt.Sprintf(format, a...))
}

// pos renders a source position relative to the repository root: "x/bet/keeper/wager.go:12".
func (w *World) pos(p token.Pos) string {
	q := w.fset.Position(p)
	return fmt.Sprintf("%s:%d", w.relFile(q.Filename), q.Line)
}

func (w *World) relFile(name string) string {
	return strings.TrimPrefix(name, w.repo+string(filepath.Separator))
}

func relPkg(path string) string {
	if path == modPath {
		return "."
	}
	return strings.TrimPrefix(path, modPath+"/")
}

func inModule(p *types.Package) bool {
	return p != nil && strings.HasPrefix(p.Path(), modPath)
}

// moduleOf returns the custom module a package belongs to ("bet" for x/bet/keeper), or "" .
func moduleOf(pkgPath string) string {
	parts := strings.Split(relPkg(pkgPath), "/")
	if len(parts) >= 2 && parts[0] == "x" {
		return parts[1]
	}
	return ""
}

func namedOf(t types.Type) *types.Named {
	if t == nil {
		return nil
	}
	if p, ok := t.(*types.Pointer); ok {
		t = p.Elem()
	}
	n, _ := t.(*types.Named)
	return n
}

func typeName(t types.Type) string {
	if n := namedOf(t); n != nil {
		return n.Obj().Name()
	}
	return ""
}

// funcName renders "x/bet/keeper.Keeper.Wager" / "utils.ValidateMsgAuthorization".
func funcName(fn *types.Func) string {
	s := ""
	if fn.Pkg() != nil {
		s = relPkg(fn.Pkg().Path()) + "."
	}
	if sig, ok := fn.Type().(*types.Signature); ok && sig.Recv() != nil {
		if n := typeName(sig.Recv().Type()); n != "" {
			s += n + "."
		}
	}
	return s + fn.Name()
}

// declName renders the name of a declared function the same way as funcName.
func (w *World) declName(p *packages.Package, fd *ast.FuncDecl) string {
	if fn, ok := p.TypesInfo.Defs[fd.Name].(*types.Func); ok {
		return funcName(fn)
	}
	return relPkg(p.PkgPath) + "." + fd.Name.Name
}

// callee resolves the called object of a call expression and, for method calls, the static type of the
// receiver expression (the interface type for calls through an expected-keeper field).
func callee(info *types.Info, call *ast.CallExpr) (types.Object, types.Type) {
	fun := ast.Unparen(call.Fun)
	switch f := fun.(type) {
	case *ast.IndexExpr:
		fun = ast.Unparen(f.X)
	case *ast.IndexListExpr:
		fun = ast.Unparen(f.X)
	}
	switch f := fun.(type) {
	case *ast.Ident:
		return info.Uses[f], nil
	case *ast.SelectorExpr:
		if sel, ok := info.Selections[f]; ok {
			return sel.Obj(), sel.Recv()
		}
		return info.Uses[f.Sel], nil
	}
	return nil, nil
}

func isInterfaceMethod(fn *types.Func) bool {
	sig, ok := fn.Type().(*types.Signature)
	return ok && sig.Recv() != nil && types.IsInterface(sig.Recv().Type())
}

// implementers: for a call of method `name` through the interface type recv (declared in the module), the
// methods of the module's concrete types that implement the interface. Empty for keepers of other modules
// of the SDK (bank, authz, auth): those are classified by name instead.
func (w *World) implementers(recv types.Type, name string) []*types.Func {
	n := namedOf(recv)
	if n == nil || !inModule(n.Obj().Pkg()) {
		return nil
	}
	iface, ok := n.Underlying().(*types.Interface)
	if !ok || iface.NumMethods() == 0 {
		return nil
	}
	key := n.Obj().Pkg().Path() + "." + n.Obj().Name() + "." + name
	if r, ok := w.impls[key]; ok {
		return r
	}
	var res []*types.Func
	seen := map[*types.Func]bool{}
	for _, c := range w.concrete {
		var t types.Type = c
		if !types.Implements(t, iface) {
			t = types.NewPointer(c)
			if !types.Implements(t, iface) {
				continue
			}
		}
		obj, _, _ := types.LookupFieldOrMethod(t, true, c.Obj().Pkg(), name)
		if fn, ok := obj.(*types.Func); ok && w.decls[fn] != nil && !seen[fn] {
			seen[fn] = true
			res = append(res, fn)
		}
	}
	sort.Slice(res, func(i, j int) bool { return funcName(res[i]) < funcName(res[j]) })
	w.impls[key] = res
	return res
}

// constString evaluates an expression to a string constant: a constant expression, or a call of a
// parameterless method/function of the module whose body is a single `return <constant>` (the
// `XFunder{}.GetModuleAcc()` idiom).
func (w *World) constString(info *types.Info, e ast.Expr) (string, bool) {
	if tv, ok := info.Types[e]; ok && tv.Value != nil && tv.Value.Kind() == constant.String {
		return constant.StringVal(tv.Value), true
	}
	if call, ok := ast.Unparen(e).(*ast.CallExpr); ok && len(call.Args) == 0 {
		if obj, _ := callee(info, call); obj != nil {
			if fn, ok := obj.(*types.Func); ok {
				return w.constReturn(fn)
			}
		}
	}
	return "", false
}

func (w *World) constReturn(fn *types.Func) (string, bool) {
	fd := w.decls[fn]
	if fd == nil || fd.Body == nil || len(fd.Body.List) != 1 {
		return "", false
	}
	ret, ok := fd.Body.List[0].(*ast.ReturnStmt)
	if !ok || len(ret.Results) != 1 {
		return "", false
	}
	return w.constString(w.declPkg[fn].TypesInfo, ret.Results[0])
}

// funderAccount: if t is a concrete type with a constant-returning method GetModuleAcc, its account name.
func (w *World) funderAccount(t types.Type) (string, string, bool) {
	n := namedOf(t)
	if n == nil || types.IsInterface(n) || !inModule(n.Obj().Pkg()) {
		return "", "", false
	}
	obj, _, _ := types.LookupFieldOrMethod(n, true, n.Obj().Pkg(), "GetModuleAcc")
	fn, ok := obj.(*types.Func)
	if !ok {
		return "", "", false
	}
	acc, ok := w.constReturn(fn)
	if !ok {
		return "", "", false
	}
	return relPkg(n.Obj().Pkg().Path()) + "." + n.Obj().Name(), acc, true
}

// eachFunc calls f for every function declaration (with body) of the given packages, in a stable order.
func (w *World) eachFunc(keep func(p *packages.Package, file string) bool, f func(p *packages.Package, fd *ast.FuncDecl)) {
	for _, p := range w.pkgs {
		for _, file := range p.Syntax {
			name := w.relFile(w.fset.Position(file.Pos()).Filename)
			if !keep(p, name) {
				continue
			}
			for _, d := range file.Decls {
				if fd, ok := d.(*ast.FuncDecl); ok && fd.Body != nil {
					f(p, fd)
				}
			}
		}
	}
}

// eachDecl is eachFunc plus the package-level variable initialisers (fname "<package-level>"); function names
// are given without the package ("Keeper.Wager").
func (w *World) eachDecl(keep func(p *packages.Package, file string) bool, f func(p *packages.Package, fname string, body ast.Node)) {
	for _, p := range w.pkgs {
		for _, file := range p.Syntax {
			if !keep(p, w.relFile(w.fset.Position(file.Pos()).Filename)) {
				continue
			}
			for _, d := range file.Decls {
				switch x := d.(type) {
				case *ast.FuncDecl:
					if x.Body != nil {
						f(p, strings.TrimPrefix(w.declName(p, x), relPkg(p.PkgPath)+"."), x.Body)
					}
				case *ast.GenDecl:
					if x.Tok == token.VAR {
						f(p, "<package-level>", x)
					}
				}
			}
		}
	}
}

func exprString(e ast.Expr) string {
	s := types.ExprString(e)
	if len(s) > 80 {
		s = s[:77] + "..."
	}
	return s
}
