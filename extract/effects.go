package main

import (
	"fmt"
	"go/ast"
	"go/token"
	"go/types"
	"os"
	"regexp"
	"sort"
	"strconv"
	"strings"
)

// Effect analysis for Sge.Gen.Handlers.
//
// A *path* is the ordered list of effect atoms met on one control-flow path through a function, callees of
// the repository (x/, utils/, types/ ...) inlined. Atoms:
//
//	v verify  call of a function/method whose name starts with "VerifyTicket" (any case): the OVM keeper's
//	          VerifyTicket, VerifyTicketUnmarshal, verifyTicketWithKeyUnmarshal — not inlined — that returned nil
//	x reject  the same call, returning an error (a handler that goes on after `x` ignores the verdict)
//	k kyc     call of types.KycDataPayload.Validate
//	w write   Set/Delete on an SDK store, Set* on a params subspace, or a method named Set*/Remove*/Delete* of
//	          a repository type called msgServer, *Keeper or *Hooks (the method is still inlined, so the store
//	          write under it shows too)
//	s send    bank keeper Send*/Mint*/Burn*/Delegate*/Undelegate*/InputOutput*
//	a authz   authz keeper method other than Get*
//	e ext     call through an expected-keeper interface that no type of the repository implements and that
//	          is neither bank nor authz nor a recognised read (Get*/Has*/Is*/Iterate*/...)
//
// Control flow is walked structurally: sequence, if/else, switch/select (each clause an alternative, plus
// "no clause" when there is no default), loops (body zero times or once), return ends a path, panic aborts
// the whole handler, break/continue leave the clause/loop, `a && b` evaluates b optionally, function
// literals are an optional detour at the place where they are written, defer/go are taken at the statement.
// A call through an interface declared in the repository is the union over the repository types
// implementing it (hooks, reward factories, keepers of the other custom modules). Adjacent equal atoms are
// collapsed (w w w = w): only the ORDER of different kinds matters for the theorems.
//
// Error correlation (otherwise every early `return err` of a callee would look like a way to reach the
// caller's later statements): every path through a function whose last result is `error` is classified as
// returning nil (ok), non-nil (err) or unknown; after `..., e := f(...)` / `e = f(...)` / `if e := f(...); …`
// on a repository function the paths remember "e is nil"/"e is non-nil", and a condition `e != nil` /
// `e == nil` on that same variable only lets the matching paths into each branch. A return is `ok` when its
// last result is the literal nil or a variable known to be nil, `err` when it is a variable known to be
// non-nil, a package-level variable, or a call of an error constructor (cosmossdk.io/errors, errors, fmt,
// grpc status), the callee's own classification for `return g(...)`, else unknown; a bare return is judged by
// the named error result. A test `e != nil` on a path that knows nothing about e teaches each branch what it
// says; `e = nil`, `e = ErrX`, `e = errors.Wrap(...)` are understood; any other assignment to an error
// variable forgets what was known. Only one error variable is remembered per path (the latest).
//
// Recursion is cut (the inner call contributes nothing) and flagged; an inlining depth above maxDepth yields
// `e` and is flagged, as is a path set larger than maxPaths.
const (
	maxDepth = 40
	maxPaths = 4000
)

var (
	verifyName = regexp.MustCompile(`(?i)^verifyticket`)
	writeName  = regexp.MustCompile(`^(Set|Remove|Delete)`)
	sendName   = regexp.MustCompile(`^(Send|Mint|Burn|Delegate|Undelegate|InputOutput)`)
	readName   = regexp.MustCompile(`^(Get|Has|Is|Iterate|Spendable|Locked|AllBalances|Validate|Blocked|Params$)`)
	errCtorPkg = map[string]bool{"cosmossdk.io/errors": true, "errors": true, "fmt": true, "google.golang.org/grpc/status": true}
)

// A path is a string of atom letters, optionally followed by a mark "+<id>" (error variable <id> is nil) or
// "-<id>" (it is non-nil). Relative sets (expression effects, callee summaries) carry no marks.
type set map[string]bool

func unit() set           { return set{"": true} }
func single(a string) set { return set{a: true} }

func split(p string) (string, string) {
	if i := strings.IndexAny(p, "+-"); i >= 0 {
		return p[:i], p[i:]
	}
	return p, ""
}

func joinAtoms(a, b string) string {
	if a != "" && b != "" && a[len(a)-1] == b[0] {
		return a + b[1:]
	}
	return a + b
}

// cat appends the relative (unmarked) paths of b to the paths of a, keeping a's marks.
func cat(a, b set) set {
	if len(b) == 1 && b[""] {
		return a
	}
	r := set{}
	for x := range a {
		ax, mx := split(x)
		for y := range b {
			r[joinAtoms(ax, y)+mx] = true
		}
	}
	return r
}

func union(ss ...set) set {
	r := set{}
	for _, s := range ss {
		for x := range s {
			r[x] = true
		}
	}
	return r
}

func unmarked(s set) set {
	r := set{}
	for x := range s {
		a, _ := split(x)
		r[a] = true
	}
	return r
}

func marked(s set, mark string) set {
	r := set{}
	for x := range s {
		a, _ := split(x)
		r[a+mark] = true
	}
	return r
}

// outcome of a statement for a set of incoming paths: paths that fall through, return with a nil / non-nil /
// unknown error, abort (panic), break, continue
type outcome struct{ fall, ok, err, unk, abt, brk, cnt set }

func newOutcome() outcome {
	return outcome{set{}, set{}, set{}, set{}, set{}, set{}, set{}}
}

func merge(a, b outcome) outcome {
	return outcome{union(a.fall, b.fall), union(a.ok, b.ok), union(a.err, b.err), union(a.unk, b.unk),
		union(a.abt, b.abt), union(a.brk, b.brk), union(a.cnt, b.cnt)}
}

type site struct{ kind, callee, pos string }

// summary of a function: its paths relative to the call, by the error it returns
type summary struct {
	ok, err, unk, abt set
	sites             []site
	truncated         bool
	recursive         bool
	unresolved        []string
}

func (s *summary) all() set { return union(s.ok, s.err, s.unk, s.abt) }

func atomSummary(a string) *summary {
	return &summary{ok: set{}, err: set{}, unk: single(a), abt: set{}}
}

var noEffect = atomSummary("")

type analyzer struct {
	w      *World
	info   *types.Info
	fn     *types.Func // function being walked
	memo   map[*types.Func]*summary
	active map[*types.Func]bool
	depth  int
	cur    *summary // collector of the function being summarised
	varID  map[types.Object]int
}

func newAnalyzer(w *World) *analyzer {
	return &analyzer{w: w, memo: map[*types.Func]*summary{}, active: map[*types.Func]bool{}, varID: map[types.Object]int{}}
}

func (a *analyzer) id(o types.Object) string {
	if _, ok := a.varID[o]; !ok {
		a.varID[o] = len(a.varID) + 1
	}
	return strconv.Itoa(a.varID[o])
}

func (a *analyzer) atom(kind, callee string, pos token.Pos) *summary {
	a.cur.sites = append(a.cur.sites, site{kind, callee, a.w.pos(pos)})
	return atomSummary(kind)
}

func isErrorType(t types.Type) bool {
	return t != nil && types.Identical(t, types.Universe.Lookup("error").Type())
}

// isPkgLevelError: a package-level variable of a type implementing error (the registered Err... values)
func isPkgLevelError(obj types.Object) bool {
	v, ok := obj.(*types.Var)
	if !ok || v.Pkg() == nil || v.Parent() != v.Pkg().Scope() {
		return false
	}
	return types.Implements(v.Type(), types.Universe.Lookup("error").Type().Underlying().(*types.Interface))
}

func returnsError(fn *types.Func) bool {
	sig, ok := fn.Type().(*types.Signature)
	return ok && sig.Results().Len() > 0 && isErrorType(sig.Results().At(sig.Results().Len()-1).Type())
}

// summarize returns the paths through fn (memoised).
func (a *analyzer) summarize(fn *types.Func) *summary {
	if s, ok := a.memo[fn]; ok {
		return s
	}
	fd := a.w.decls[fn]
	if fd == nil || fd.Body == nil {
		return noEffect
	}
	if a.active[fn] {
		s := atomSummary("")
		s.recursive = true
		return s
	}
	if a.depth >= maxDepth {
		s := atomSummary("e")
		s.truncated = true
		return s
	}
	savedInfo, savedCur, savedFn := a.info, a.cur, a.fn
	a.info, a.cur, a.fn = a.w.declPkg[fn].TypesInfo, &summary{}, fn
	a.active[fn] = true
	a.depth++
	o := a.block(fd.Body.List, unit())
	a.depth--
	delete(a.active, fn)
	s := a.cur
	a.info, a.cur, a.fn = savedInfo, savedCur, savedFn
	rest := unmarked(union(o.fall, o.unk, o.brk, o.cnt))
	if returnsError(fn) {
		s.ok, s.err, s.unk = unmarked(o.ok), unmarked(o.err), rest
	} else {
		s.ok, s.err, s.unk = set{}, set{}, union(rest, unmarked(o.ok), unmarked(o.err))
	}
	s.abt = unmarked(o.abt)
	if len(s.all()) > maxPaths {
		s.truncated = true
	}
	if dbg := os.Getenv("EXTRACT_DEBUG"); dbg != "" && strings.Contains(funcName(fn), dbg) {
		fmt.Fprintf(os.Stderr, "summary %s: ok=%q err=%q unk=%q abt=%q\n", funcName(fn), sortedPaths(s.ok), sortedPaths(s.err), sortedPaths(s.unk), sortedPaths(s.abt))
	}
	if !s.recursive { // a summary cut by recursion depends on the entry point: do not reuse it
		a.memo[fn] = s
	}
	return s
}

// use notes in the current collector that a callee summary was spliced in
func (a *analyzer) use(s *summary) *summary {
	a.cur.sites = append(a.cur.sites, s.sites...)
	a.cur.truncated = a.cur.truncated || s.truncated
	a.cur.recursive = a.cur.recursive || s.recursive
	a.cur.unresolved = append(a.cur.unresolved, s.unresolved...)
	return s
}

func (a *analyzer) block(list []ast.Stmt, in set) outcome {
	res := newOutcome()
	cur := in
	for _, st := range list {
		o := a.stmt(st, cur)
		cur = o.fall
		o.fall = set{}
		res = merge(res, o)
		if len(cur) == 0 {
			break
		}
	}
	res.fall = cur
	return res
}

func (a *analyzer) exprs(es []ast.Expr) set {
	cur := unit()
	for _, e := range es {
		cur = cat(cur, a.expr(e))
	}
	return cur
}

func falls(s set) outcome {
	o := newOutcome()
	o.fall = s
	return o
}

// principal evaluates a call that is a whole statement / the right-hand side of an assignment: operands first,
// then the callee's summary, kept apart by returned error.
func (a *analyzer) principal(x *ast.CallExpr, in set) (ok, err, unk, abt set) {
	pre := cat(in, cat(a.expr(x.Fun), a.exprs(x.Args)))
	s := a.call(x)
	return cat(pre, s.ok), cat(pre, s.err), cat(pre, s.unk), cat(pre, s.abt)
}

func isPanic(info *types.Info, call *ast.CallExpr) bool {
	if id, ok := call.Fun.(*ast.Ident); ok && id.Name == "panic" {
		_, ok := info.Uses[id].(*types.Builtin)
		return ok
	}
	return false
}

func (a *analyzer) stmt(st ast.Stmt, in set) outcome {
	switch s := st.(type) {
	case nil:
		return falls(in)
	case *ast.BlockStmt:
		return a.block(s.List, in)
	case *ast.ExprStmt:
		if call, ok := s.X.(*ast.CallExpr); ok {
			o := newOutcome()
			if isPanic(a.info, call) {
				o.abt = cat(in, a.exprs(call.Args))
				return o
			}
			ok, err, unk, abt := a.principal(call, in)
			o.fall, o.abt = union(ok, err, unk), abt
			return o
		}
		return falls(cat(in, a.expr(s.X)))
	case *ast.AssignStmt:
		return a.assign(s, in)
	case *ast.ReturnStmt:
		return a.ret(s, in)
	case *ast.IfStmt:
		o := a.stmt(s.Init, in)
		thenIn, elseIn := a.condPaths(s.Cond, o.fall)
		o.fall = set{}
		o = merge(o, a.block(s.Body.List, thenIn))
		if s.Else != nil {
			o = merge(o, a.stmt(s.Else, elseIn))
		} else {
			o.fall = union(o.fall, elseIn)
		}
		return o
	case *ast.ForStmt:
		o := a.stmt(s.Init, in)
		pre := o.fall
		if s.Cond != nil {
			pre = cat(pre, a.expr(s.Cond))
		}
		o.fall = set{}
		return merge(o, a.loop(pre, s.Body, s.Post))
	case *ast.RangeStmt:
		return a.loop(cat(in, a.expr(s.X)), s.Body, nil)
	case *ast.SwitchStmt:
		o := a.stmt(s.Init, in)
		pre := o.fall
		if s.Tag != nil {
			pre = cat(pre, a.expr(s.Tag))
		}
		o.fall = set{}
		return merge(o, a.clauses(pre, s.Body))
	case *ast.TypeSwitchStmt:
		o := a.stmt(s.Init, in)
		o2 := a.stmt(s.Assign, o.fall)
		pre := o2.fall
		o.fall, o2.fall = set{}, set{}
		return merge(merge(o, o2), a.clauses(pre, s.Body))
	case *ast.SelectStmt:
		return a.clauses(in, s.Body)
	case *ast.BranchStmt:
		o := newOutcome()
		switch s.Tok {
		case token.BREAK:
			o.brk = in
		case token.CONTINUE:
			o.cnt = in
		default: // goto, fallthrough: treated as falling through
			o.fall = in
		}
		return o
	case *ast.LabeledStmt:
		return a.stmt(s.Stmt, in)
	case *ast.DeferStmt:
		return falls(cat(in, a.expr(s.Call)))
	case *ast.GoStmt:
		return falls(cat(in, a.expr(s.Call)))
	case *ast.EmptyStmt:
		return falls(in)
	default: // DeclStmt, IncDecStmt, SendStmt
		return falls(cat(in, a.expr(st)))
	}
}

// assign: `..., e := f(...)` remembers whether e is nil; any other assignment to an error variable forgets.
func (a *analyzer) assign(s *ast.AssignStmt, in set) outcome {
	o := newOutcome()
	var errVar types.Object
	touchesErr := false
	for i, l := range s.Lhs {
		id, isIdent := l.(*ast.Ident)
		if !isIdent {
			continue
		}
		obj := a.info.Defs[id]
		if obj == nil {
			obj = a.info.Uses[id]
		}
		if obj != nil && isErrorType(obj.Type()) {
			touchesErr = true
			if i == len(s.Lhs)-1 {
				errVar = obj
			}
		}
	}
	if call, isCall := ast.Unparen(s.Rhs[len(s.Rhs)-1]).(*ast.CallExpr); isCall && len(s.Rhs) == 1 && !isPanic(a.info, call) {
		ok, err, unk, abt := a.principal(call, in)
		lhs := a.exprs(s.Lhs)
		o.abt = abt
		if errVar != nil {
			id := a.id(errVar)
			if a.isErrCtor(call) { // e = sdkerrors.Wrapf(...)
				o.fall = cat(marked(union(ok, err, unk), "-"+id), lhs)
				return o
			}
			o.fall = cat(union(marked(ok, "+"+id), marked(err, "-"+id), unmarked(unk)), lhs)
			return o
		}
		o.fall = cat(union(ok, err, unk), lhs)
		if touchesErr {
			o.fall = unmarked(o.fall)
		}
		return o
	}
	o.fall = cat(in, cat(a.exprs(s.Rhs), a.exprs(s.Lhs)))
	if touchesErr {
		o.fall = unmarked(o.fall)
		if errVar != nil && len(s.Lhs) == 1 && len(s.Rhs) == 1 {
			if a.isNil(s.Rhs[0]) { // e = nil
				o.fall = marked(o.fall, "+"+a.id(errVar))
			} else if id, ok := ast.Unparen(s.Rhs[0]).(*ast.Ident); ok && isPkgLevelError(a.info.Uses[id]) {
				o.fall = marked(o.fall, "-"+a.id(errVar))
			} else if sel, ok := ast.Unparen(s.Rhs[0]).(*ast.SelectorExpr); ok && isPkgLevelError(a.info.Uses[sel.Sel]) {
				o.fall = marked(o.fall, "-"+a.id(errVar))
			}
		}
	}
	return o
}

// ret classifies a return by the error it returns.
func (a *analyzer) ret(s *ast.ReturnStmt, in set) outcome {
	o := newOutcome()
	if len(s.Results) == 0 {
		// bare return: the named error result decides
		if res := a.fn.Type().(*types.Signature).Results(); returnsError(a.fn) && res.At(res.Len()-1).Name() != "" {
			a.byMark(&o, in, a.id(res.At(res.Len()-1)))
		} else {
			o.unk = in
		}
		return o
	}
	last := ast.Unparen(s.Results[len(s.Results)-1])
	if call, isCall := last.(*ast.CallExpr); isCall && len(s.Results) == 1 && !isPanic(a.info, call) {
		// return g(...): g's own classification (when g returns an error last)
		ok, err, unk, abt := a.principal(call, in)
		if a.isErrCtor(call) {
			o.err = union(ok, err, unk)
		} else {
			o.ok, o.err, o.unk = ok, err, unk
		}
		o.abt = abt
		return o
	}
	cur := cat(in, a.exprs(s.Results))
	switch x := last.(type) {
	case *ast.Ident:
		if a.isNil(x) {
			o.ok = cur
			return o
		}
		if isPkgLevelError(a.info.Uses[x]) {
			o.err = cur // package-level Err... variable
			return o
		}
		if obj := a.info.Uses[x]; obj != nil && isErrorType(obj.Type()) {
			a.byMark(&o, cur, a.id(obj))
			return o
		}
	case *ast.SelectorExpr:
		if isPkgLevelError(a.info.Uses[x.Sel]) {
			o.err = cur // types.ErrSomething
			return o
		}
	case *ast.CallExpr:
		if a.isErrCtor(x) {
			o.err = cur
			return o
		}
	}
	o.unk = cur
	return o
}

// isNil: the predeclared nil (TypeAndValue.IsNil is false once nil has been converted to the operand type)
func (a *analyzer) isNil(e ast.Expr) bool {
	id, ok := ast.Unparen(e).(*ast.Ident)
	return ok && id.Name == "nil" && a.info.Uses[id] == types.Universe.Lookup("nil")
}

// byMark sorts returning paths by what is known about the returned error variable
func (a *analyzer) byMark(o *outcome, cur set, id string) {
	for p := range cur {
		switch _, m := split(p); m {
		case "+" + id:
			o.ok[p] = true
		case "-" + id:
			o.err[p] = true
		default:
			o.unk[p] = true
		}
	}
}

func (a *analyzer) isErrCtor(call *ast.CallExpr) bool {
	obj, _ := callee(a.info, call)
	fn, ok := obj.(*types.Func)
	return ok && fn.Pkg() != nil && errCtorPkg[fn.Pkg().Path()] && returnsError(fn)
}

// branch splits the incoming paths of an `if` by a condition of the form `e != nil` / `e == nil`.
// condPaths evaluates a branch condition with short-circuit semantics: the paths on which it is true and those on
// which it is false. In `A || B` the right operand is evaluated exactly on the paths where A is false, in `A && B`
// exactly where A is true: `if x == nil || !x.Validate() { return err }` cannot fall through without the call.
func (a *analyzer) condPaths(cond ast.Expr, in set) (set, set) {
	c := ast.Unparen(cond)
	switch x := c.(type) {
	case *ast.BinaryExpr:
		switch x.Op {
		case token.LOR:
			tA, fA := a.condPaths(x.X, in)
			tB, fB := a.condPaths(x.Y, fA)
			return union(tA, tB), fB
		case token.LAND:
			tA, fA := a.condPaths(x.X, in)
			tB, fB := a.condPaths(x.Y, tA)
			return tB, union(fA, fB)
		}
	case *ast.UnaryExpr:
		if x.Op == token.NOT {
			t, f := a.condPaths(x.X, in)
			return f, t
		}
	}
	return a.branch(c, cat(in, a.expr(c)))
}

func (a *analyzer) branch(cond ast.Expr, in set) (set, set) {
	be, ok := ast.Unparen(cond).(*ast.BinaryExpr)
	if !ok || (be.Op != token.NEQ && be.Op != token.EQL) {
		return in, in
	}
	x, y := ast.Unparen(be.X), ast.Unparen(be.Y)
	if a.isNil(x) {
		x, y = y, x
	}
	id, isIdent := x.(*ast.Ident)
	if !isIdent || !a.isNil(y) {
		return in, in
	}
	obj := a.info.Uses[id]
	if obj == nil || !isErrorType(obj.Type()) {
		return in, in
	}
	vid := a.id(obj)
	nonNil, isNil := set{}, set{}
	for p := range in {
		switch _, m := split(p); m {
		case "+" + vid:
			isNil[p] = true
		case "-" + vid:
			nonNil[p] = true
		default: // nothing known about this variable: each branch learns what the test says
			at, _ := split(p)
			isNil[at+"+"+vid], nonNil[at+"-"+vid] = true, true
		}
	}
	if be.Op == token.NEQ {
		return nonNil, isNil
	}
	return isNil, nonNil
}

func (a *analyzer) loop(pre set, body *ast.BlockStmt, post ast.Stmt) outcome {
	o := a.block(body.List, pre)
	again := a.stmt(post, union(o.fall, o.cnt)).fall
	o.fall = union(pre, again, o.brk)
	o.brk, o.cnt = set{}, set{}
	return o
}

func (a *analyzer) clauses(pre set, body *ast.BlockStmt) outcome {
	res := newOutcome()
	hasDefault := false
	for _, c := range body.List {
		var o outcome
		switch cc := c.(type) {
		case *ast.CaseClause:
			o = a.block(cc.Body, cat(pre, a.exprs(cc.List)))
			hasDefault = hasDefault || cc.List == nil
		case *ast.CommClause:
			h := a.stmt(cc.Comm, pre)
			o = a.block(cc.Body, h.fall)
			hasDefault = hasDefault || cc.Comm == nil
		}
		o.fall = union(o.fall, o.brk)
		o.brk = set{}
		res = merge(res, o)
	}
	if !hasDefault {
		res.fall = union(res.fall, pre)
	}
	return res
}

// expr collects the effects of evaluating an expression (or a simple statement), sub-expressions first, as a
// relative unmarked set. Aborts of nested calls are folded into the continuing paths.
func (a *analyzer) expr(n ast.Node) set {
	cur := unit()
	if n == nil {
		return cur
	}
	ast.Inspect(n, func(m ast.Node) bool {
		switch x := m.(type) {
		case *ast.CallExpr:
			cur = cat(cur, a.expr(x.Fun))
			cur = cat(cur, a.exprs(x.Args))
			cur = cat(cur, a.call(x).all())
			return false
		case *ast.FuncLit:
			o := a.block(x.Body.List, unit())
			cur = cat(cur, unmarked(union(unit(), o.fall, o.ok, o.err, o.unk, o.abt)))
			return false
		case *ast.BinaryExpr:
			if x.Op == token.LAND || x.Op == token.LOR {
				cur = cat(cur, a.expr(x.X))
				cur = cat(cur, union(unit(), a.expr(x.Y)))
				return false
			}
		}
		return true
	})
	return cur
}

// call: the effect of the call itself (operands are handled by the caller)
func (a *analyzer) call(x *ast.CallExpr) *summary {
	obj, recv := callee(a.info, x)
	switch o := obj.(type) {
	case *types.Func:
		return a.funcCall(o, recv, x)
	case *types.Var:
		// call of a function value (field, parameter, local): cannot be resolved statically.
		// Function-typed package variables of libraries (sdk.ZeroDec = math.LegacyZeroDec ...) are library calls.
		if o.Pkg() != nil && !inModule(o.Pkg()) && o.Parent() == o.Pkg().Scope() {
			return noEffect
		}
		a.cur.unresolved = append(a.cur.unresolved, exprString(x.Fun)+" @ "+a.w.pos(x.Pos()))
	}
	return noEffect // builtins, conversions, immediately-called literals (walked as FuncLit)
}

func prefixed(pre string, s *summary) *summary {
	p := single(pre)
	return &summary{ok: cat(p, s.ok), err: cat(p, s.err), unk: cat(p, s.unk), abt: cat(p, s.abt)}
}

func (a *analyzer) funcCall(fn *types.Func, recv types.Type, x *ast.CallExpr) *summary {
	name := fn.Name()
	if verifyName.MatchString(name) {
		s := a.atom("v", funcName(fn), x.Pos())
		if returnsError(fn) { // v: the verifier returned nil; x: it returned an error
			s.ok, s.err, s.unk = single("v"), single("x"), set{}
		}
		return s
	}
	pkgPath := ""
	if fn.Pkg() != nil {
		pkgPath = fn.Pkg().Path()
	}
	if isInterfaceMethod(fn) {
		rn := namedOf(recv)
		if rn != nil && inModule(rn.Obj().Pkg()) {
			if impls := a.w.implementers(recv, name); len(impls) > 0 {
				alts := &summary{ok: set{}, err: set{}, unk: set{}, abt: set{}}
				for _, impl := range impls {
					s := a.use(a.summarize(impl))
					alts.ok, alts.err, alts.unk, alts.abt = union(alts.ok, s.ok), union(alts.err, s.err), union(alts.unk, s.unk), union(alts.abt, s.abt)
				}
				if writeName.MatchString(name) && keeperLike(rn.Obj().Name()) {
					a.atom("w", funcName(fn), x.Pos())
					return prefixed("w", alts)
				}
				return alts
			}
			// keeper of a module outside the repository
			iname := rn.Obj().Name()
			switch {
			case strings.Contains(iname, "Authz"):
				if !strings.HasPrefix(name, "Get") {
					return a.atom("a", iname+"."+name, x.Pos())
				}
			case sendName.MatchString(name):
				return a.atom("s", iname+"."+name, x.Pos())
			case readName.MatchString(name):
			default:
				return a.atom("e", iname+"."+name, x.Pos())
			}
			return noEffect
		}
		// interface of a library
		if strings.Contains(pkgPath, "cosmos-sdk/store") && (name == "Set" || name == "Delete") {
			return a.atom("w", "store."+name, x.Pos())
		}
		return noEffect
	}
	if inModule(fn.Pkg()) {
		if name == "Validate" && typeName(recvType(fn)) == "KycDataPayload" {
			return a.atom("k", funcName(fn), x.Pos())
		}
		s := a.use(a.summarize(fn))
		if writeName.MatchString(name) && keeperLike(typeName(recvType(fn))) {
			a.atom("w", funcName(fn), x.Pos())
			return prefixed("w", s)
		}
		return s
	}
	// concrete function of a library
	switch {
	case strings.Contains(pkgPath, "cosmos-sdk/store") && (name == "Set" || name == "Delete"):
		return a.atom("w", "store."+name, x.Pos())
	case strings.HasSuffix(pkgPath, "x/params/types") && strings.HasPrefix(name, "Set"):
		return a.atom("w", "params."+name, x.Pos())
	case strings.HasSuffix(pkgPath, "x/bank/keeper") && sendName.MatchString(name):
		return a.atom("s", "bank."+name, x.Pos())
	case strings.HasSuffix(pkgPath, "x/authz/keeper") && !strings.HasPrefix(name, "Get"):
		return a.atom("a", "authz."+name, x.Pos())
	}
	return noEffect
}

// keeperLike: receiver types whose Set*/Remove*/Delete* methods are taken to be state writes by their name
func keeperLike(typ string) bool {
	return typ == "msgServer" || strings.HasSuffix(typ, "Keeper") || strings.HasSuffix(typ, "Hooks")
}

func recvType(fn *types.Func) types.Type {
	if sig, ok := fn.Type().(*types.Signature); ok && sig.Recv() != nil {
		return sig.Recv().Type()
	}
	return nil
}

func sortedPaths(s set) []string {
	var r []string
	for p := range s {
		r = append(r, p)
	}
	sort.Strings(r)
	return r
}
