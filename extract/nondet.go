package main

import (
	"fmt"
	"go/ast"
	"go/token"
	"go/types"
	"sort"
	"strings"

	"golang.org/x/tools/go/packages"
)

// Sge.Gen.NonDet: every construct whose result may differ between two executions of the same block, in the
// non-test, non-simulation (directories `simulation`, files *_simulation.go), non-client (directories `client`,
// `cli`) code of x/ app/ utils/ types/ (generated *.pb.gw.go REST gateways are client-side and skipped;
// *.pb.go is scanned). Package-level variable initialisers are scanned under the name "<package-level>".
//
//	maprange  `range` over a map-typed expression            detail = the expression
//	go        `go` statement                                 detail = the call
//	select    `select` statement
//	time      time.Now/Since/Until/After/Tick/Sleep/Local/LoadLocation/...   detail = function name
//	timezone  a method of time.Time whose result depends on the value's location (Format, String, Local, Date, ...)
//	rand      any use of math/rand, math/rand/v2, crypto/rand
//	os        any use of package os                          detail = identifier
//	float     arithmetic/comparison on float32/float64, or conversion to them   detail = expression
//	maps      functions of maps / golang.org/x/exp/maps (iteration order)
//
// Sites are grouped by (package, function, kind, detail) with a count, so that the allow-list in
// SgeProofs/Properties/C15Facts.lean does not depend on line numbers but a second occurrence is noticed.

func inNonDetScope(p *packages.Package, file string) bool {
	r := relPkg(p.PkgPath)
	top := strings.SplitN(r, "/", 2)[0]
	if top != "x" && top != "app" && top != "utils" && top != "types" {
		return false
	}
	for _, part := range strings.Split(r, "/") {
		if part == "simulation" || part == "client" || part == "cli" || part == "testutil" {
			return false
		}
	}
	return !strings.HasSuffix(file, ".pb.gw.go") && !strings.HasSuffix(file, "_test.go") && !strings.HasSuffix(file, "_simulation.go")
}

var timeFuncs = map[string]bool{"Now": true, "Since": true, "Until": true, "After": true, "AfterFunc": true,
	"Tick": true, "NewTicker": true, "NewTimer": true, "Sleep": true,
	// the host's time zone
	"Local": true, "LoadLocation": true, "FixedZone": true}

// methods of time.Time whose result depends on the value's location (a time built by time.Unix carries the HOST's zone)
var timeZoneMethods = map[string]bool{"Format": true, "AppendFormat": true, "String": true, "GoString": true, "Local": true,
	"Zone": true, "ZoneBounds": true, "Location": true, "MarshalJSON": true, "MarshalText": true, "Clock": true, "Date": true,
	"Hour": true, "Day": true, "Weekday": true, "YearDay": true, "Month": true, "Year": true, "Minute": true, "ISOWeek": true, "Truncate": false}

func isTimeTime(t types.Type) bool {
	if t == nil {
		return false
	}
	if p, ok := t.(*types.Pointer); ok {
		t = p.Elem()
	}
	n, ok := t.(*types.Named)
	return ok && n.Obj() != nil && n.Obj().Pkg() != nil && n.Obj().Pkg().Path() == "time" && n.Obj().Name() == "Time"
}

func isFloat(t types.Type) bool {
	if t == nil {
		return false
	}
	bt, ok := t.Underlying().(*types.Basic)
	return ok && bt.Info()&types.IsFloat != 0
}

func genNonDet(w *World) string {
	type key struct{ pkg, fn, kind, detail string }
	counts := map[key]int{}
	positions := map[key][]string{}
	w.eachDecl(inNonDetScope, func(p *packages.Package, fname string, body ast.Node) {
		info := p.TypesInfo
		add := func(kind, detail string, pos token.Pos) {
			k := key{relPkg(p.PkgPath), fname, kind, detail}
			counts[k]++
			positions[k] = append(positions[k], w.pos(pos))
		}
		ast.Inspect(body, func(n ast.Node) bool {
			switch x := n.(type) {
			case *ast.RangeStmt:
				if tv, ok := info.Types[x.X]; ok && tv.Type != nil {
					if _, ok := tv.Type.Underlying().(*types.Map); ok {
						add("maprange", exprString(x.X), x.Pos())
					}
				}
			case *ast.GoStmt:
				add("go", exprString(x.Call.Fun), x.Pos())
			case *ast.SelectStmt:
				add("select", "", x.Pos())
			case *ast.Ident:
				obj := info.Uses[x]
				if obj == nil || obj.Pkg() == nil {
					return true
				}
				if obj.Parent() != obj.Pkg().Scope() { // only package-level objects (methods need one of them first)
					return true
				}
				switch obj.Pkg().Path() {
				case "time":
					if timeFuncs[obj.Name()] {
						add("time", "time."+obj.Name(), x.Pos())
					}
				case "math/rand", "math/rand/v2", "crypto/rand":
					add("rand", obj.Pkg().Path()+"."+obj.Name(), x.Pos())
				case "os":
					add("os", "os."+obj.Name(), x.Pos())
				case "maps", "golang.org/x/exp/maps":
					add("maps", obj.Pkg().Path()+"."+obj.Name(), x.Pos())
				}
			case *ast.BinaryExpr:
				if tv, ok := info.Types[x.X]; ok && isFloat(tv.Type) {
					add("float", exprString(x), x.Pos())
					return false
				}
			case *ast.CallExpr:
				if tv, ok := info.Types[x.Fun]; ok && tv.IsType() && isFloat(tv.Type) {
					add("float", exprString(x), x.Pos())
				}
				if sel, ok := x.Fun.(*ast.SelectorExpr); ok && timeZoneMethods[sel.Sel.Name] {
					if tv, ok := info.Types[sel.X]; ok && isTimeTime(tv.Type) {
						add("timezone", "Time."+sel.Sel.Name, x.Pos())
					}
				}
			}
			return true
		})
	})
	var keys []key
	for k := range counts {
		keys = append(keys, k)
	}
	sort.Slice(keys, func(i, j int) bool {
		a, b := keys[i], keys[j]
		if a.pkg != b.pkg {
			return a.pkg < b.pkg
		}
		if a.fn != b.fn {
			return a.fn < b.fn
		}
		if a.kind != b.kind {
			return a.kind < b.kind
		}
		return a.detail < b.detail
	})
	var sb strings.Builder
	sb.WriteString(header("Sge.Gen.NonDet", "Determinism hazards in consensus code (C15). Kinds: extract/nondet.go."))
	sb.WriteString(`structure Site where
  pkg : String
  fn : String
  kind : String
  detail : String
  count : Nat
  pos : String      -- all positions, comma separated (information only)
deriving DecidableEq, Repr

`)
	var items []string
	for _, k := range keys {
		items = append(items, fmt.Sprintf("⟨%s, %s, %s, %s, %d, %s⟩", q(k.pkg), q(k.fn), q(k.kind), q(k.detail), counts[k], q(strings.Join(positions[k], ","))))
	}
	sb.WriteString("def sites : List Site := " + list(items) + "\n\nend Sge.Gen.NonDet\n")
	return sb.String()
}
