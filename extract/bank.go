package main

import (
	"fmt"
	"go/ast"
	"go/token"
	"go/types"
	"regexp"
	"sort"
	"strings"

	"golang.org/x/tools/go/packages"
)

// Sge.Gen.Bank: module-account permissions, the blocked-recipient construction, every bank-keeper call of the
// custom modules, the uses of the custody "funder" types, and the call chains that reach MintCoins/BurnCoins.

var supplyMethod = regexp.MustCompile(`^(Mint|Burn)Coins$`)

func inBankScope(p *packages.Package) bool {
	r := relPkg(p.PkgPath)
	if r == "utils" || strings.HasPrefix(r, "utils/") {
		return true
	}
	m := moduleOf(p.PkgPath)
	for _, s := range sgeModules {
		if m == s {
			return true
		}
	}
	return false
}

func genBank(w *World) string {
	var sb strings.Builder
	sb.WriteString(header("Sge.Gen.Bank", "Module accounts, blocked recipients and bank-keeper calls (C01, C12, C13)."))
	sb.WriteString(`structure MaccPerm where
  keyExpr : String        -- the map key as written in app/modules.go
  name : String           -- the account name it evaluates to
  perms : List String     -- "minter" / "burner" / "staking"
  pos : String
deriving DecidableEq, Repr

structure Funder where
  type : String           -- funder type, e.g. "x/bet/types.BetFeeCollectorFunder"
  account : String        -- constant returned by its GetModuleAcc()
  pos : String
deriving DecidableEq, Repr

structure BankCall where
  module : String         -- custom module ("bet", ...) or "utils"
  pkg : String
  fn : String             -- enclosing function
  iface : String          -- static type of the receiver (the BankKeeper interface of the package)
  method : String
  strArgs : List String   -- string-typed arguments: the constant value, or "?<expr>" when not constant
  pos : String
deriving DecidableEq, Repr

structure FunderUse where
  module : String
  fn : String             -- enclosing function
  callee : String         -- function receiving the funder value ("GetModuleAcc" for a direct call)
  funder : String
  account : String
  pos : String
deriving DecidableEq, Repr

structure SupplyCall where
  module : String
  fn : String             -- function containing the MintCoins/BurnCoins call
  method : String
  pos : String
  reachedFrom : List String  -- every function of the repository from which fn is (transitively) referenced
deriving DecidableEq, Repr

`)
	// ---- mAccPerms
	perms, ok := extractMaccPerms(w)
	if !ok {
		w.problem("app: package-level map `mAccPerms` not found")
	}
	var items []string
	for _, m := range perms {
		items = append(items, fmt.Sprintf("⟨%s, %s, %s, %s⟩", q(m.keyExpr), q(m.name), qs(m.perms), q(m.pos)))
	}
	sb.WriteString("/-- app/modules.go `mAccPerms`, in source order -/\ndef maccPerms : List MaccPerm := " + list(items) + "\n\n")

	// ---- funder types
	items = nil
	for _, c := range w.concrete {
		if typ, acc, ok := w.funderAccount(c); ok {
			items = append(items, fmt.Sprintf("⟨%s, %s, %s⟩", q(typ), q(acc), q(w.pos(c.Obj().Pos()))))
		}
	}
	sort.Strings(items)
	sb.WriteString("/-- every concrete type with a constant `GetModuleAcc()` -/\ndef funders : List Funder := " + list(items) + "\n\n")

	// ---- blocked addresses
	bl := extractBlocked(w)
	sb.WriteString("/-- `BlockedAddresses`: true iff the function inserts the address of EVERY key of its permissions argument\n    (directly or through a copying helper) and otherwise only removes the `unblocked` ones -/\n")
	sb.WriteString("def blockedAllModuleAccounts : Bool := " + b(bl.all) + "\n")
	sb.WriteString("def blockedShape : String := " + q(bl.shape) + "\n")
	items = nil
	for _, u := range bl.unblocked {
		items = append(items, fmt.Sprintf("(%s, %s)", q(u[0]), q(u[1])))
	}
	sb.WriteString("/-- accounts removed from the blocked set again (`delete(...)`): (account, position) -/\ndef unblocked : List (String × String) := " + list(items) + "\n")
	sb.WriteString("/-- the blocked-address argument of `bankkeeper.NewBaseKeeper`: (expression, position) -/\ndef bankBlockedArg : List (String × String) := " + pairs(bl.bankArg) + "\n")
	sb.WriteString("/-- the permissions argument of the call that builds the keepers in app.go: (expression, position) -/\ndef appKeepersPermsArg : List (String × String) := " + pairs(bl.appArg) + "\n\n")

	// ---- bank calls, funder uses
	var calls, uses []string
	type supply struct {
		fn     *types.Func
		module string
		method string
		pos    string
	}
	var supplies []supply
	w.eachFunc(func(p *packages.Package, _ string) bool { return inBankScope(p) }, func(p *packages.Package, fd *ast.FuncDecl) {
		info := p.TypesInfo
		mod := moduleOf(p.PkgPath)
		if mod == "" {
			mod = "utils"
		}
		fname := w.declName(p, fd)
		ast.Inspect(fd.Body, func(n ast.Node) bool {
			call, ok := n.(*ast.CallExpr)
			if !ok {
				return true
			}
			obj, recv := callee(info, call)
			fn, _ := obj.(*types.Func)
			if fn == nil {
				return true
			}
			if isBankReceiver(fn, recv) {
				var args []string
				for _, a := range call.Args {
					if tv, ok := info.Types[a]; ok && tv.Type != nil {
						if bt, ok := tv.Type.Underlying().(*types.Basic); ok && bt.Info()&types.IsString != 0 {
							if s, ok := w.constString(info, a); ok {
								args = append(args, s)
							} else {
								args = append(args, "?"+exprString(a))
							}
						}
					}
				}
				iface := ""
				if n := namedOf(recv); n != nil && n.Obj().Pkg() != nil {
					iface = relPkg(n.Obj().Pkg().Path()) + "." + n.Obj().Name()
				}
				calls = append(calls, fmt.Sprintf("⟨%s, %s, %s, %s, %s, %s, %s⟩", q(mod), q(relPkg(p.PkgPath)), q(fname), q(iface), q(fn.Name()), qs(args), q(w.pos(call.Pos()))))
				if supplyMethod.MatchString(fn.Name()) {
					if def, ok := info.Defs[fd.Name].(*types.Func); ok {
						supplies = append(supplies, supply{def, mod, fn.Name(), w.pos(call.Pos())})
					}
				}
			}
			// funder values handed to a function, or asked for their account directly
			if fn.Name() == "GetModuleAcc" && recv != nil {
				if typ, acc, ok := w.funderAccount(recv); ok {
					uses = append(uses, fmt.Sprintf("⟨%s, %s, %s, %s, %s, %s⟩", q(mod), q(fname), q("GetModuleAcc"), q(typ), q(acc), q(w.pos(call.Pos()))))
				}
			}
			for _, a := range call.Args {
				if tv, ok := info.Types[a]; ok {
					if typ, acc, ok := w.funderAccount(tv.Type); ok {
						uses = append(uses, fmt.Sprintf("⟨%s, %s, %s, %s, %s, %s⟩", q(mod), q(fname), q(funcName(fn)), q(typ), q(acc), q(w.pos(call.Pos()))))
					}
				}
			}
			return true
		})
	})
	sort.Strings(calls)
	sort.Strings(uses)
	sb.WriteString("/-- every call of a method on a bank-keeper value in the non-test code of x/{bet,house,market,mint,orderbook,ovm,reward,subaccount} and utils -/\ndef bankCalls : List BankCall := " + list(calls) + "\n\n")
	sb.WriteString("/-- every place where a custody funder value is passed to a function or queried -/\ndef funderUses : List FunderUse := " + list(uses) + "\n\n")

	// ---- who reaches MintCoins / BurnCoins
	callers := w.referrers()
	items = nil
	for _, s := range supplies {
		seen := map[*types.Func]bool{}
		var walk func(f *types.Func)
		walk = func(f *types.Func) {
			for _, c := range callers[f] {
				if !seen[c] {
					seen[c] = true
					walk(c)
				}
			}
		}
		walk(s.fn)
		var from []string
		for f := range seen {
			from = append(from, funcName(f))
		}
		sort.Strings(from)
		items = append(items, fmt.Sprintf("⟨%s, %s, %s, %s, %s⟩", q(s.module), q(funcName(s.fn)), q(s.method), q(s.pos), qs(from)))
	}
	sort.Strings(items)
	sb.WriteString("/-- bank MintCoins/BurnCoins call sites with all their (transitive) referrers in non-test code -/\ndef supplyCalls : List SupplyCall := " + list(items) + "\n\nend Sge.Gen.Bank\n")
	return sb.String()
}

func pairs(ps [][2]string) string {
	var items []string
	for _, p := range ps {
		items = append(items, fmt.Sprintf("(%s, %s)", q(p[0]), q(p[1])))
	}
	return list(items)
}

// isBankReceiver: the call goes to a bank keeper — an interface named *BankKeeper* (the expected-keeper
// interfaces of the modules and of utils), a type of the SDK bank keeper package, or any non-repository
// method called MintCoins/BurnCoins.
func isBankReceiver(fn *types.Func, recv types.Type) bool {
	if recv == nil {
		return false
	}
	if n := namedOf(recv); n != nil {
		if strings.Contains(n.Obj().Name(), "BankKeeper") {
			return true
		}
		if n.Obj().Pkg() != nil && strings.HasSuffix(n.Obj().Pkg().Path(), "x/bank/keeper") {
			return true
		}
	}
	return supplyMethod.MatchString(fn.Name()) && !inModule(fn.Pkg())
}

type maccPerm struct {
	keyExpr, name, pos string
	perms              []string
}

func extractMaccPerms(w *World) ([]maccPerm, bool) {
	p := w.byPath[modPath+"/app"]
	if p == nil {
		return nil, false
	}
	for _, f := range p.Syntax {
		for _, d := range f.Decls {
			gd, ok := d.(*ast.GenDecl)
			if !ok || gd.Tok != token.VAR {
				continue
			}
			for _, sp := range gd.Specs {
				vs := sp.(*ast.ValueSpec)
				for i, nm := range vs.Names {
					if nm.Name != "mAccPerms" || i >= len(vs.Values) {
						continue
					}
					lit, ok := vs.Values[i].(*ast.CompositeLit)
					if !ok {
						return nil, false
					}
					var res []maccPerm
					for _, el := range lit.Elts {
						kv, ok := el.(*ast.KeyValueExpr)
						if !ok {
							return nil, false
						}
						name, ok := w.constString(p.TypesInfo, kv.Key)
						if !ok {
							name = "?" + exprString(kv.Key)
						}
						m := maccPerm{keyExpr: exprString(kv.Key), name: name, pos: w.pos(kv.Pos()), perms: []string{}}
						if vl, ok := kv.Value.(*ast.CompositeLit); ok {
							for _, pe := range vl.Elts {
								s, ok := w.constString(p.TypesInfo, pe)
								if !ok {
									s = "?" + exprString(pe)
								}
								m.perms = append(m.perms, s)
							}
						} else if id, ok := kv.Value.(*ast.Ident); !ok || id.Name != "nil" {
							m.perms = append(m.perms, "?"+exprString(kv.Value))
						}
						res = append(res, m)
					}
					return res, true
				}
			}
		}
	}
	return nil, false
}

type blocked struct {
	all       bool
	shape     string
	unblocked [][2]string
	bankArg   [][2]string
	appArg    [][2]string
}

// extractBlocked recognises the shape of app/keepers.BlockedAddresses:
//
//	m := make(map[string]bool)
//	for acc := range <perms | copy(perms)> { m[authtypes.NewModuleAddress(acc).String()] = true }
//	delete(m, authtypes.NewModuleAddress(<const>).String()) ...
//	return m
//
// Anything else in the body makes `all` false (and the C13Facts theorem fail) with the reason in `shape`.
func extractBlocked(w *World) blocked {
	res := blocked{shape: "function BlockedAddresses not found"}
	var fd *ast.FuncDecl
	var pkg *packages.Package
	for _, p := range w.pkgs {
		if !strings.HasPrefix(relPkg(p.PkgPath), "app") {
			continue
		}
		for _, f := range p.Syntax {
			for _, d := range f.Decls {
				if x, ok := d.(*ast.FuncDecl); ok && x.Recv == nil && x.Name.Name == "BlockedAddresses" && x.Body != nil {
					fd, pkg = x, p
				}
			}
		}
		// wiring: the arguments that carry the permissions / the blocked set
		for _, f := range p.Syntax {
			ast.Inspect(f, func(n ast.Node) bool {
				call, ok := n.(*ast.CallExpr)
				if !ok {
					return true
				}
				obj, _ := callee(p.TypesInfo, call)
				fn, _ := obj.(*types.Func)
				if fn == nil || fn.Pkg() == nil {
					return true
				}
				if fn.Name() == "NewBaseKeeper" && strings.HasSuffix(fn.Pkg().Path(), "x/bank/keeper") && len(call.Args) >= 4 {
					res.bankArg = append(res.bankArg, [2]string{exprString(call.Args[3]), w.pos(call.Pos())})
				}
				if fn.Name() == "NewAppKeeper" && inModule(fn.Pkg()) {
					sig := fn.Type().(*types.Signature)
					for i := 0; i < sig.Params().Len() && i < len(call.Args); i++ {
						if sig.Params().At(i).Type().String() == "map[string][]string" {
							res.appArg = append(res.appArg, [2]string{exprString(call.Args[i]), w.pos(call.Pos())})
						}
					}
				}
				return true
			})
		}
	}
	if fd == nil {
		return res
	}
	info := pkg.TypesInfo
	if fd.Type.Params == nil || len(fd.Type.Params.List) != 1 || len(fd.Type.Params.List[0].Names) != 1 {
		res.shape = "unexpected parameter list at " + w.pos(fd.Pos())
		return res
	}
	param := info.Defs[fd.Type.Params.List[0].Names[0]]
	var setVar types.Object
	ranges := 0
	res.all = true
	res.shape = "make; range over all permissions; delete*; return"
	bad := func(n ast.Node, why string) {
		res.all = false
		res.shape = why + " at " + w.pos(n.Pos())
	}
	// moduleAddrArg matches X.NewModuleAddress(arg).String() and returns arg
	moduleAddrArg := func(e ast.Expr) ast.Expr {
		c, ok := ast.Unparen(e).(*ast.CallExpr)
		if !ok || len(c.Args) != 0 {
			return nil
		}
		sel, ok := c.Fun.(*ast.SelectorExpr)
		if !ok || sel.Sel.Name != "String" {
			return nil
		}
		in, ok := ast.Unparen(sel.X).(*ast.CallExpr)
		if !ok || len(in.Args) != 1 {
			return nil
		}
		if obj, _ := callee(info, in); obj == nil || obj.Name() != "NewModuleAddress" {
			return nil
		}
		return in.Args[0]
	}
	for _, st := range fd.Body.List {
		switch s := st.(type) {
		case *ast.AssignStmt:
			if len(s.Lhs) == 1 && len(s.Rhs) == 1 && s.Tok == token.DEFINE {
				if c, ok := s.Rhs[0].(*ast.CallExpr); ok {
					if id, ok := c.Fun.(*ast.Ident); ok && id.Name == "make" && setVar == nil {
						setVar = info.Defs[s.Lhs[0].(*ast.Ident)]
						continue
					}
				}
			}
			bad(s, "unrecognised assignment")
		case *ast.RangeStmt:
			ranges++
			key, _ := s.Key.(*ast.Ident)
			if key == nil || !w.isAllOf(info, s.X, param) {
				bad(s, "range is not over the whole permissions map")
				continue
			}
			okBody := false
			if len(s.Body.List) == 1 {
				if as, ok := s.Body.List[0].(*ast.AssignStmt); ok && len(as.Lhs) == 1 && len(as.Rhs) == 1 {
					if ix, ok := as.Lhs[0].(*ast.IndexExpr); ok {
						if base, ok := ix.X.(*ast.Ident); ok && info.Uses[base] == setVar {
							if arg, ok := moduleAddrArg(ix.Index).(*ast.Ident); ok && info.Uses[arg] == info.Defs[key] {
								if v, ok := as.Rhs[0].(*ast.Ident); ok && v.Name == "true" {
									okBody = true
								}
							}
						}
					}
				}
			}
			if !okBody {
				bad(s, "range body is not `set[NewModuleAddress(key).String()] = true`")
			}
		case *ast.ExprStmt:
			c, ok := s.X.(*ast.CallExpr)
			if ok {
				if id, ok := c.Fun.(*ast.Ident); ok && id.Name == "delete" && len(c.Args) == 2 {
					if base, ok := c.Args[0].(*ast.Ident); ok && info.Uses[base] == setVar {
						if arg := moduleAddrArg(c.Args[1]); arg != nil {
							if name, ok := w.constString(info, arg); ok {
								res.unblocked = append(res.unblocked, [2]string{name, w.pos(c.Pos())})
								continue
							}
						}
					}
				}
			}
			bad(s, "unrecognised statement")
		case *ast.ReturnStmt:
			if len(s.Results) == 1 {
				if id, ok := s.Results[0].(*ast.Ident); ok && info.Uses[id] == setVar {
					continue
				}
			}
			bad(s, "unrecognised return")
		default:
			bad(s, "unrecognised statement")
		}
	}
	if res.all && ranges != 1 {
		res.all = false
		res.shape = fmt.Sprintf("%d range statements in BlockedAddresses", ranges)
	}
	return res
}

// isAllOf: e is the object `param` itself, or copy(param) for a function whose body copies every entry of
// its single parameter into a fresh map and returns it.
func (w *World) isAllOf(info *types.Info, e ast.Expr, param types.Object) bool {
	e = ast.Unparen(e)
	if id, ok := e.(*ast.Ident); ok {
		return info.Uses[id] == param
	}
	call, ok := e.(*ast.CallExpr)
	if !ok || len(call.Args) != 1 {
		return false
	}
	if id, ok := call.Args[0].(*ast.Ident); !ok || info.Uses[id] != param {
		return false
	}
	obj, _ := callee(info, call)
	fn, _ := obj.(*types.Func)
	fd := w.decls[fn]
	if fd == nil || fd.Body == nil || fd.Type.Params == nil || len(fd.Type.Params.List) != 1 || len(fd.Type.Params.List[0].Names) != 1 {
		return false
	}
	ci := w.declPkg[fn].TypesInfo
	cparam := ci.Defs[fd.Type.Params.List[0].Names[0]]
	if len(fd.Body.List) != 3 {
		return false
	}
	as, ok := fd.Body.List[0].(*ast.AssignStmt)
	if !ok || len(as.Lhs) != 1 {
		return false
	}
	dst, ok := as.Lhs[0].(*ast.Ident)
	if !ok {
		return false
	}
	rs, ok := fd.Body.List[1].(*ast.RangeStmt)
	if !ok || len(rs.Body.List) != 1 {
		return false
	}
	if id, ok := rs.X.(*ast.Ident); !ok || ci.Uses[id] != cparam {
		return false
	}
	k, _ := rs.Key.(*ast.Ident)
	v, _ := rs.Value.(*ast.Ident)
	cp, ok := rs.Body.List[0].(*ast.AssignStmt)
	if k == nil || v == nil || !ok || len(cp.Lhs) != 1 || len(cp.Rhs) != 1 {
		return false
	}
	ix, ok := cp.Lhs[0].(*ast.IndexExpr)
	if !ok {
		return false
	}
	base, ok1 := ix.X.(*ast.Ident)
	idx, ok2 := ix.Index.(*ast.Ident)
	val, ok3 := cp.Rhs[0].(*ast.Ident)
	if !ok1 || !ok2 || !ok3 || ci.Uses[base] != ci.Defs[dst] || ci.Uses[idx] != ci.Defs[k] || ci.Uses[val] != ci.Defs[v] {
		return false
	}
	ret, ok := fd.Body.List[2].(*ast.ReturnStmt)
	if !ok || len(ret.Results) != 1 {
		return false
	}
	id, ok := ret.Results[0].(*ast.Ident)
	return ok && ci.Uses[id] == ci.Defs[dst]
}

// referrers: for every function of the module, the functions whose bodies mention it (call it, take it as a
// method value, or call it through a module-declared interface it implements). Conservative call graph.
func (w *World) referrers() map[*types.Func][]*types.Func {
	res := map[*types.Func][]*types.Func{}
	add := func(callee, caller *types.Func) {
		for _, c := range res[callee] {
			if c == caller {
				return
			}
		}
		res[callee] = append(res[callee], caller)
	}
	w.eachFunc(func(*packages.Package, string) bool { return true }, func(p *packages.Package, fd *ast.FuncDecl) {
		caller, ok := p.TypesInfo.Defs[fd.Name].(*types.Func)
		if !ok {
			return
		}
		ast.Inspect(fd.Body, func(n ast.Node) bool {
			switch x := n.(type) {
			case *ast.SelectorExpr:
				if sel, ok := p.TypesInfo.Selections[x]; ok {
					if fn, ok := sel.Obj().(*types.Func); ok {
						if isInterfaceMethod(fn) {
							for _, impl := range w.implementers(sel.Recv(), fn.Name()) {
								add(impl, caller)
							}
						} else if inModule(fn.Pkg()) {
							add(fn, caller)
						}
					}
				}
			case *ast.Ident:
				if fn, ok := p.TypesInfo.Uses[x].(*types.Func); ok && inModule(fn.Pkg()) && !isInterfaceMethod(fn) {
					add(fn, caller)
				}
			}
			return true
		})
	})
	return res
}
