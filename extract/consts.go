package main

import (
	"fmt"
	"go/ast"
	"go/constant"
	"go/token"
	"go/types"
	"math/big"
	"path/filepath"
	"regexp"
	"sort"
	"strings"

	"golang.org/x/tools/go/packages"
)

// Sge.Gen.Consts: constants used by the models, and the module orders of the app.
//
// Named values: every package-level const/var of x/<module>/types/{consts,constants,params}.go whose value can be
// computed statically: Go constants, and initialisers of the forms sdkmath.NewInt(c), NewIntFromUint64(c),
// LegacyNewDec(c), LegacyNewDecWithPrec(c, p), LegacyMustNewDecFromStr("…"), or another such variable.
// Each becomes `def <module>_<Name>`; a LegacyDec is given as its raw 18-digit integer `<module>_<Name>_dec18`
// (also emitted for string constants that read as a decimal number, e.g. DefaultHouseParticipationFee = "0.1").

var constFiles = map[string]bool{"consts.go": true, "constants.go": true, "params.go": true}
var decimalRe = regexp.MustCompile(`^-?\d+(\.\d{1,18})?$`)

type value struct {
	kind string // int, dec, bool, str
	i    *big.Int
	s    string
	b    bool
}

var pow18 = new(big.Int).Exp(big.NewInt(10), big.NewInt(18), nil)

func parseDec(s string) (*big.Int, bool) {
	if !decimalRe.MatchString(s) {
		return nil, false
	}
	neg := strings.HasPrefix(s, "-")
	s = strings.TrimPrefix(s, "-")
	ip, fp, _ := strings.Cut(s, ".")
	fp += strings.Repeat("0", 18-len(fp))
	r, ok := new(big.Int).SetString(ip+fp, 10)
	if ok && neg {
		r.Neg(r)
	}
	return r, ok
}

func (w *World) evalValue(info *types.Info, e ast.Expr, depth int) (value, bool) {
	e = ast.Unparen(e)
	if tv, ok := info.Types[e]; ok && tv.Value != nil {
		switch tv.Value.Kind() {
		case constant.Int:
			if i, ok := new(big.Int).SetString(tv.Value.ExactString(), 10); ok {
				return value{kind: "int", i: i}, true
			}
		case constant.Bool:
			return value{kind: "bool", b: constant.BoolVal(tv.Value)}, true
		case constant.String:
			return value{kind: "str", s: constant.StringVal(tv.Value)}, true
		}
		return value{}, false
	}
	if depth > 4 {
		return value{}, false
	}
	switch x := e.(type) {
	case *ast.Ident, *ast.SelectorExpr:
		var id *ast.Ident
		if s, ok := x.(*ast.SelectorExpr); ok {
			id = s.Sel
		} else {
			id = x.(*ast.Ident)
		}
		if v, ok := info.Uses[id].(*types.Var); ok && v.Pkg() != nil && v.Parent() == v.Pkg().Scope() {
			if p := w.byPath[v.Pkg().Path()]; p != nil {
				if init := findVarInit(p, v); init != nil {
					return w.evalValue(p.TypesInfo, init, depth+1)
				}
			}
		}
	case *ast.CallExpr:
		obj, _ := callee(info, x)
		fn, _ := obj.(*types.Func)
		if fn == nil || fn.Pkg() == nil || !(fn.Pkg().Path() == "cosmossdk.io/math" || strings.HasSuffix(fn.Pkg().Path(), "cosmos-sdk/types")) {
			return value{}, false
		}
		var args []value
		for _, a := range x.Args {
			v, ok := w.evalValue(info, a, depth+1)
			if !ok {
				return value{}, false
			}
			args = append(args, v)
		}
		name := strings.TrimPrefix(fn.Name(), "Legacy")
		switch {
		case (name == "NewInt" || name == "NewIntFromUint64" || name == "NewUint") && len(args) == 1 && args[0].kind == "int":
			return args[0], true
		case (name == "NewDec" || name == "NewDecFromInt") && len(args) == 1 && args[0].kind == "int":
			return value{kind: "dec", i: new(big.Int).Mul(args[0].i, pow18)}, true
		case name == "NewDecWithPrec" && len(args) == 2 && args[0].kind == "int" && args[1].kind == "int" && args[1].i.IsInt64() && args[1].i.Int64() >= 0 && args[1].i.Int64() <= 18:
			sc := new(big.Int).Exp(big.NewInt(10), big.NewInt(18-args[1].i.Int64()), nil)
			return value{kind: "dec", i: sc.Mul(sc, args[0].i)}, true
		case (name == "MustNewDecFromStr" || name == "NewDecFromStr") && len(args) == 1 && args[0].kind == "str":
			if r, ok := parseDec(args[0].s); ok {
				return value{kind: "dec", i: r}, true
			}
		case (name == "ZeroInt" || name == "ZeroDec") && len(args) == 0:
			return value{kind: map[bool]string{true: "int", false: "dec"}[name == "ZeroInt"], i: big.NewInt(0)}, true
		case name == "OneDec" && len(args) == 0:
			return value{kind: "dec", i: new(big.Int).Set(pow18)}, true
		case name == "OneInt" && len(args) == 0:
			return value{kind: "int", i: big.NewInt(1)}, true
		}
	}
	return value{}, false
}

func findVarInit(p *packages.Package, v *types.Var) ast.Expr {
	for _, f := range p.Syntax {
		for _, d := range f.Decls {
			gd, ok := d.(*ast.GenDecl)
			if !ok || gd.Tok != token.VAR {
				continue
			}
			for _, sp := range gd.Specs {
				vs := sp.(*ast.ValueSpec)
				for i, nm := range vs.Names {
					if p.TypesInfo.Defs[nm] == v && len(vs.Values) == len(vs.Names) {
						return vs.Values[i]
					}
				}
			}
		}
	}
	return nil
}

// stringList evaluates the single `return []string{...}` of a parameterless function of package app.
func (w *World) stringList(p *packages.Package, fname string) ([]string, string, bool) {
	for _, f := range p.Syntax {
		for _, d := range f.Decls {
			fd, ok := d.(*ast.FuncDecl)
			if !ok || fd.Recv != nil || fd.Name.Name != fname || fd.Body == nil || len(fd.Body.List) != 1 {
				continue
			}
			ret, ok := fd.Body.List[0].(*ast.ReturnStmt)
			if !ok || len(ret.Results) != 1 {
				return nil, "", false
			}
			lit, ok := ret.Results[0].(*ast.CompositeLit)
			if !ok {
				return nil, "", false
			}
			var res []string
			for _, e := range lit.Elts {
				s, ok := w.constString(p.TypesInfo, e)
				if !ok {
					return nil, "", false
				}
				res = append(res, s)
			}
			return res, w.pos(fd.Pos()), true
		}
	}
	return nil, "", false
}

func genConsts(w *World) string {
	var sb strings.Builder
	sb.WriteString(header("Sge.Gen.Consts", "Constants of the custom modules and the module orders of the app (C05, C13, C14, C16, models)."))
	sb.WriteString(`structure Const where
  module : String
  name : String
  kind : String     -- "int" | "dec" (raw 18-digit integer) | "bool" | "str"
  value : String
  pos : String
deriving DecidableEq, Repr

`)
	type entry struct {
		mod, name, pos string
		v              value
	}
	var entries []entry
	for _, p := range w.pkgs {
		mod := moduleOf(p.PkgPath)
		if mod == "" || relPkg(p.PkgPath) != "x/"+mod+"/types" {
			continue
		}
		for _, f := range p.Syntax {
			if !constFiles[filepath.Base(w.fset.Position(f.Pos()).Filename)] {
				continue
			}
			for _, d := range f.Decls {
				gd, ok := d.(*ast.GenDecl)
				if !ok || (gd.Tok != token.CONST && gd.Tok != token.VAR) {
					continue
				}
				for _, sp := range gd.Specs {
					vs := sp.(*ast.ValueSpec)
					for i, nm := range vs.Names {
						if nm.Name == "_" {
							continue
						}
						var v value
						ok := false
						if c, isConst := p.TypesInfo.Defs[nm].(*types.Const); isConst {
							// constants (also implicit iota repetitions) are evaluated by the type checker
							switch c.Val().Kind() {
							case constant.Int:
								if n, good := new(big.Int).SetString(c.Val().ExactString(), 10); good {
									v, ok = value{kind: "int", i: n}, true
								}
							case constant.Bool:
								v, ok = value{kind: "bool", b: constant.BoolVal(c.Val())}, true
							case constant.String:
								v, ok = value{kind: "str", s: constant.StringVal(c.Val())}, true
							}
						} else if len(vs.Values) == len(vs.Names) {
							v, ok = w.evalValue(p.TypesInfo, vs.Values[i], 0)
						}
						if ok {
							entries = append(entries, entry{mod, nm.Name, w.pos(nm.Pos()), v})
						}
					}
				}
			}
		}
	}
	sort.Slice(entries, func(i, j int) bool {
		if entries[i].mod != entries[j].mod {
			return entries[i].mod < entries[j].mod
		}
		return entries[i].name < entries[j].name
	})
	var rows []string
	for _, e := range entries {
		id := e.mod + "_" + e.name
		sb.WriteString(fmt.Sprintf("/-- %s -/\n", e.pos))
		val := ""
		switch e.v.kind {
		case "int":
			val = e.v.i.String()
			sb.WriteString(fmt.Sprintf("def %s : Int := %s\n", id, val))
		case "dec":
			val = e.v.i.String()
			sb.WriteString(fmt.Sprintf("def %s_dec18 : Int := %s\n", id, val))
		case "bool":
			val = b(e.v.b)
			sb.WriteString(fmt.Sprintf("def %s : Bool := %s\n", id, val))
		case "str":
			val = e.v.s
			sb.WriteString(fmt.Sprintf("def %s : String := %s\n", id, q(val)))
			if r, ok := parseDec(val); ok && strings.Contains(val, ".") {
				sb.WriteString(fmt.Sprintf("def %s_dec18 : Int := %s\n", id, r.String()))
			}
		}
		rows = append(rows, fmt.Sprintf("⟨%s, %s, %s, %s, %s⟩", q(e.mod), q(e.name), q(e.v.kind), q(val), q(e.pos)))
	}
	sb.WriteString("\n/-- the same values as a table -/\ndef all : List Const := " + list(rows) + "\n\n")

	// module orders: taken from where they are INSTALLED (the SetOrder* calls on the module manager), so that the
	// functions that build the lists may be named and placed freely
	app := w.byPath[modPath+"/app"]
	var calls []string
	lists := map[string][]string{}
	listPos := map[string]string{}
	listFn := map[string]string{}
	if app != nil {
		for _, f := range app.Syntax {
			ast.Inspect(f, func(n ast.Node) bool {
				call, ok := n.(*ast.CallExpr)
				if !ok {
					return true
				}
				if obj, _ := callee(app.TypesInfo, call); obj != nil && strings.HasPrefix(obj.Name(), "SetOrder") && !inModule(obj.Pkg()) {
					arg := "?"
					if len(call.Args) == 1 && call.Ellipsis.IsValid() {
						if inner, ok := ast.Unparen(call.Args[0]).(*ast.CallExpr); ok && len(inner.Args) == 0 {
							if id, ok := ast.Unparen(inner.Fun).(*ast.Ident); ok {
								if l, pos, ok := w.stringList(app, id.Name); ok {
									lists[obj.Name()], listPos[obj.Name()], listFn[obj.Name()] = l, pos, id.Name
									arg = "<list of module names returned by a function of package app>..."
								}
							}
						}
					}
					if arg == "?" {
						var args []string
						for _, a := range call.Args {
							args = append(args, exprString(a))
						}
						if call.Ellipsis.IsValid() && len(args) > 0 {
							args[len(args)-1] += "..."
						}
						arg = "unresolved: " + strings.Join(args, ", ")
					}
					calls = append(calls, fmt.Sprintf("(%s, %s, %s)", q(obj.Name()), q(arg), q(w.pos(call.Pos()))))
				}
				return true
			})
		}
	}
	for _, o := range [][2]string{{"SetOrderBeginBlockers", "beginBlockers"}, {"SetOrderEndBlockers", "endBlockers"}, {"SetOrderInitGenesis", "initGenesis"}} {
		l, ok := lists[o[0]]
		if !ok {
			w.problem("app: the argument of %s is not `f()...` with f a function of package app that is a single `return []string{constants...}`", o[0])
		}
		sb.WriteString(fmt.Sprintf("/-- the list installed by `%s` (app `%s()` at %s) -/\ndef %s : List String := %s\ndef %sPos : String := %s\n\n", o[0], listFn[o[0]], listPos[o[0]], o[1], qs(l), o[1], q(listPos[o[0]])))
	}
	sort.Strings(calls)
	sb.WriteString("/-- calls that install the orders on the module manager: (method, arguments, position) -/\ndef orderCalls : List (String × String × String) := " + list(calls) + "\n\nend Sge.Gen.Consts\n")
	return sb.String()
}
