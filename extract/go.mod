module verif/extract

go 1.23

require (
	golang.org/x/mod v0.21.0 // indirect
	golang.org/x/sync v0.8.0 // indirect
	golang.org/x/tools v0.24.0
)
