"""stdin: output of `lake build`; argv[1]: lean/ directory. Prints the names of the theorems in which Lean reported
an error (the nearest `theorem` at or above the error line; `#eval` diagnostics are skipped), comma separated."""
import re
import sys

root = sys.argv[1]
names, seen = [], set()
for m in re.finditer(r"error: (SgeProofs/\S+?\.lean):(\d+):\d+: (.*)", sys.stdin.read()):
    path, line = m.group(1), int(m.group(2))
    src = open(root + "/" + path).read().split("\n")
    if src[line - 1].lstrip().startswith(("#eval", "((", "(")) and "theorem" not in src[line - 1]:
        # diagnostics: find whether we are inside an #eval block
        k = line - 1
        while k >= 0 and not re.match(r"\s*(#eval|theorem|def|/--)", src[k]):
            k -= 1
        if k >= 0 and src[k].lstrip().startswith("#eval"):
            continue
    k = line - 1
    while k >= 0 and not re.match(r"\s*theorem\s+(\S+)", src[k]):
        k -= 1
    if k >= 0:
        n = path.split("/")[-1][:-5] + "." + re.match(r"\s*theorem\s+(\S+)", src[k]).group(1)
        if n not in seen:
            seen.add(n)
            names.append(n)
print(", ".join(names))
