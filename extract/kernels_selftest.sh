#!/bin/bash
# Self-test of the arithmetic-kernel tie (extract/KERNELS.md): every mutation is applied alone to a scratch worktree of
# /repo, bin/kernelstie is run with VERIF_REPO pointing there, and the KERNEL-* lines other than TIED are printed.
# Expected: "control" all tied; M* (semantic changes) at least one KERNEL-DIFF, exit 1; E*/H* (equivalent or harmless
# rewrites) tied, KERNEL-UNPROVED or KERNEL-UNSUPPORTED, never KERNEL-DIFF, exit 0.
# usage: extract/kernels_selftest.sh [scratch-dir]        (≈ 12 s per case)
ROOT=$(cd "$(dirname "$0")/.." && pwd)
S=${1:-/tmp/kernels-selftest-repo}
git -C /repo worktree add --detach "$S" HEAD >/dev/null 2>&1 || { echo "cannot create scratch worktree $S"; exit 2; }
trap 'git -C /repo worktree remove --force "$S"' EXIT
fails=0

# case <label> <expect: tied|diff|nodiff> (<file> <old> <new>)...
case_() {
  label="$1"; expect="$2"; shift 2
  git -C "$S" checkout -q -- .
  while [ $# -ge 3 ]; do
    python3 - "$S/$1" "$2" "$3" <<'PY' || { echo "##### $label: the mutation does not apply"; fails=$((fails+1)); return; }
import sys
p, old, new = sys.argv[1:4]
s = open(p).read()
assert s.count(old) == 1, (p, old, s.count(old))
open(p, 'w').write(s.replace(old, new))
PY
    shift 3
  done
  out=$(cd "$ROOT" && VERIF_REPO="$S" bin/kernelstie 2>/dev/null); rc=$?
  base='KERNEL-TIED|kernel=mint_Minter_BlockProvisions |kernel=mint_Params_getPhaseBlocks |kernel=orderbook_OrderBookParticipation_WithdrawableAmount '
  lines=$(echo "$out" | grep -Ev "$base")
  ok=FAIL
  case "$expect" in
    tied)   [ $rc -eq 0 ] && [ -z "$lines" ] && ok=ok ;;
    diff)   [ $rc -eq 1 ] && echo "$lines" | grep -q '^KERNEL-DIFF' && ok=ok ;;
    nodiff) [ $rc -eq 0 ] && ! echo "$lines" | grep -q '^KERNEL-DIFF' && ok=ok ;;
  esac
  [ $ok = ok ] || fails=$((fails+1))
  echo "##### $label: expected $expect, exit $rc, $(echo "$out" | grep -c '^KERNEL-TIED') tied -> $ok"
  [ -n "$lines" ] && echo "$lines"
}

P=x/orderbook/types/participation.go
A=x/subaccount/types/accsummary.go
case_ "control (unmodified HEAD)" tied
case_ "M1 calcAvailableLiquidity TruncateInt->RoundInt" diff x/orderbook/keeper/bet_wager.go \
  "Sub(sdkmath.LegacyNewDecFromInt(fItem.participationExposure.Exposure)).TruncateInt()" \
  "Sub(sdkmath.LegacyNewDecFromInt(fItem.participationExposure.Exposure)).RoundInt()"
case_ "M3 IsEligibleForNextRound GT->GTE" diff $P "func (p *OrderBookParticipation) IsEligibleForNextRound() bool {
	return p.CurrentRoundLiquidity.GT(sdkmath.ZeroInt())" "func (p *OrderBookParticipation) IsEligibleForNextRound() bool {
	return p.CurrentRoundLiquidity.GTE(sdkmath.ZeroInt())"
case_ "M4 CalculateBetAmountInt RoundInt->TruncateInt" diff x/bet/types/payout.go \
  "betAmount := expectedBetAmountDec.RoundInt()" "betAmount := expectedBetAmountDec.TruncateInt()"
case_ "M5 house fee RoundInt->TruncateInt" diff x/house/types/deposit.go \
  "feePercentage.MulInt(d.Amount).RoundInt()" "feePercentage.MulInt(d.Amount).TruncateInt()"
case_ "M6 setMaxLoss GT->GTE" diff $P "if maxLoss.GT(originalMaxLoss) {" "if maxLoss.GTE(originalMaxLoss) {"
case_ "M7 WithdrawableUnlockedBalance without the repair" diff $A \
  "unlockedRemaining := sdkmath.MaxInt(sdkmath.ZeroInt(), unlockedBalance.Sub(as.WithdrawnAmount))" "unlockedRemaining := unlockedBalance"
case_ "M8 NextPhaseProvisions without the clamp" diff x/mint/types/minter.go "	if inflationBase.IsNegative() {
		inflationBase = sdkmath.ZeroInt()
	}
" ""
case_ "M9 Spend GT->GTE" diff $A "	if amt.GT(as.Available()) {
		return fmt.Errorf(\"amount is greater than available\")
	}
	as.SpentAmount = as.SpentAmount.Add(amt)" "	if amt.GTE(as.Available()) {
		return fmt.Errorf(\"amount is greater than available\")
	}
	as.SpentAmount = as.SpentAmount.Add(amt)"
case_ "M10 CalculateDecimalBetAmount accepts odds = 1 (LTE->LT)" diff x/bet/types/odds_type.go "	if oddsDecVal.LTE(sdkmath.LegacyOneDec()) {
		return sdkmath.LegacyZeroDec(),
			sdkerrors.Wrapf(ErrDecimalOddsCanNotBeLessThanOne, \"%s\", oddsVal)
	}

	// calculate bet amount" "	if oddsDecVal.LT(sdkmath.LegacyOneDec()) {
		return sdkmath.LegacyZeroDec(),
			sdkerrors.Wrapf(ErrDecimalOddsCanNotBeLessThanOne, \"%s\", oddsVal)
	}

	// calculate bet amount"
case_ "M11 CalculatePayoutProfit keeps the stake" diff x/bet/types/payout.go \
  "profit := payout.Sub(sdkmath.LegacyNewDecFromInt(amount))" "profit := payout"
case_ "M12 TrimCurrentRoundLiquidity subtracts the raw max loss" diff $P "	maxLoss := sdk.MaxInt(sdkmath.ZeroInt(), p.CurrentRoundMaxLoss)
	p.CurrentRoundLiquidity = p.CurrentRoundLiquidity.Sub(maxLoss)" "	p.CurrentRoundLiquidity = p.CurrentRoundLiquidity.Sub(p.CurrentRoundMaxLoss)"
case_ "M13 Pool.AvailableAmount ignores Withdrawn (a dropped term)" diff x/reward/types/pool.go \
  "return p.Total.Sub(p.Withdrawn).Sub(p.Spent)" "return p.Total.Sub(p.Spent)"
case_ "E1 (equivalent) maxWithdrawalAmount LT->LTE" nodiff $P \
  "if p.CurrentRoundMaxLoss.LT(sdkmath.ZeroInt()) {" "if p.CurrentRoundMaxLoss.LTE(sdkmath.ZeroInt()) {"
case_ "H1-H3 local variables in calcAvailableLiquidity, flipped if/else in maxWithdrawalAmount, re-associated Available" nodiff \
  x/orderbook/keeper/bet_wager.go "	return maxLossMultiplier.
		MulInt(fItem.participation.CurrentRoundLiquidity).
		Sub(sdkmath.LegacyNewDecFromInt(fItem.participationExposure.Exposure)).TruncateInt()" "	scaled := maxLossMultiplier.MulInt(fItem.participation.CurrentRoundLiquidity)
	exposure := sdkmath.LegacyNewDecFromInt(fItem.participationExposure.Exposure)
	free := scaled.Sub(exposure)
	return free.TruncateInt()" \
  $P "	if p.CurrentRoundMaxLoss.LT(sdkmath.ZeroInt()) {
		return p.CurrentRoundLiquidity
	}
	return p.CurrentRoundLiquidity.Sub(p.CurrentRoundMaxLoss)" "	if !p.CurrentRoundMaxLoss.IsNegative() {
		res := p.CurrentRoundLiquidity.Sub(p.CurrentRoundMaxLoss)
		return res
	} else {
		return p.CurrentRoundLiquidity
	}" \
  $A "	return as.DepositedAmount.
		Sub(as.WithdrawnAmount).
		Sub(as.SpentAmount).
		Sub(as.LostAmount)" "	out := as.SpentAmount.Add(as.LostAmount).Add(as.WithdrawnAmount)
	return as.DepositedAmount.Sub(out)"
case_ "H4 setMaxLoss: switch -> early returns, callee inlined, comparison operands swapped" nodiff $P "	switch {
	case p.CurrentRoundMaxLoss.IsNil():
		p.CurrentRoundMaxLoss = maxLoss
		p.CurrentRoundMaxLossOddsUID = oddsUID
	case p.CurrentRoundMaxLossOddsUID == oddsUID:
		p.CurrentRoundMaxLoss = maxLoss
	default:
		originalMaxLoss := p.CalculateMaxLoss(betAmount)
		if maxLoss.GT(originalMaxLoss) {
			p.CurrentRoundMaxLoss = maxLoss
			p.CurrentRoundMaxLossOddsUID = oddsUID
		} else {
			p.CurrentRoundMaxLoss = originalMaxLoss
		}
	}" "	if p.CurrentRoundMaxLoss.IsNil() || oddsUID == p.CurrentRoundMaxLossOddsUID {
		p.CurrentRoundMaxLossOddsUID = oddsUID
		p.CurrentRoundMaxLoss = maxLoss
		return
	}
	originalMaxLoss := p.CurrentRoundMaxLoss.Sub(betAmount)
	if originalMaxLoss.GTE(maxLoss) {
		p.CurrentRoundMaxLoss = originalMaxLoss
		return
	}
	p.CurrentRoundMaxLoss = maxLoss
	p.CurrentRoundMaxLossOddsUID = oddsUID"
case_ "H5 Available written as a loop (outside the subset)" nodiff $A "	return as.DepositedAmount.
		Sub(as.WithdrawnAmount).
		Sub(as.SpentAmount).
		Sub(as.LostAmount)" "	out := as.DepositedAmount
	for _, x := range []sdkmath.Int{as.WithdrawnAmount, as.SpentAmount, as.LostAmount} {
		out = out.Sub(x)
	}
	return out"
case_ "H6 CalcHouseParticipationFeeAmount renamed (function missing)" nodiff x/house/types/deposit.go \
  "func (d *Deposit) CalcHouseParticipationFeeAmount(" "func (d *Deposit) CalcFee(" \
  x/house/keeper/deposit.go "deposit.CalcHouseParticipationFeeAmount(" "deposit.CalcFee("
case_ "H7 setMaxLoss without the dead IsNil case" nodiff $P "	case p.CurrentRoundMaxLoss.IsNil():
		p.CurrentRoundMaxLoss = maxLoss
		p.CurrentRoundMaxLossOddsUID = oddsUID
" ""
case_ "U1 maxWithdrawalAmount reads one more field (p.Liquidity added and subtracted): signature changes" nodiff $P \
  "	return p.CurrentRoundLiquidity.Sub(p.CurrentRoundMaxLoss)" "	return p.CurrentRoundLiquidity.Add(p.Liquidity).Sub(p.Liquidity).Sub(p.CurrentRoundMaxLoss)"
case_ "U2 house fee multiplied by LegacyOneDec() first (an identity the closing tactic does not know)" nodiff x/house/types/deposit.go \
  "feePercentage.MulInt(d.Amount).RoundInt()" "feePercentage.Mul(sdkmath.LegacyOneDec()).MulInt(d.Amount).RoundInt()"
echo "##### $fails case(s) not as expected"
exit $fails
