#!/bin/bash
# Self-test of the translator: apply one mutation at a time to a scratch worktree of /repo, regenerate the facts,
# rebuild the fact theorems, and report which theorems stop building. Restores lean/Sge/Gen afterwards.
#   extract/selftest.sh            (run from the framework root; ~3 min)
set -u
ROOT="$(cd "$(dirname "$0")/.." && pwd)"
REPO="${VERIF_REPO:-/repo}"
SCR="${SELFTEST_SCRATCH:-/tmp/agents/extract-repo}"
export GOFLAGS=-mod=mod GOPROXY=off GOSUMDB=off GOTOOLCHAIN=local
MODS="SgeProofs.Properties.C05Facts SgeProofs.Properties.C06Facts SgeProofs.Properties.C13Facts SgeProofs.Properties.C14Facts SgeProofs.Properties.C15Facts SgeProofs.Properties.C16Facts"

(cd "$ROOT/extract" && mkdir -p bin && go build -o bin/extract .) || exit 2
git -C "$REPO" worktree remove --force "$SCR" 2>/dev/null
git -C "$REPO" worktree add --detach "$SCR" HEAD >/dev/null 2>&1 || exit 2
SAVE="$(mktemp -d)"; cp "$ROOT"/lean/Sge/Gen/*.lean "$SAVE"/

# run NAME : regenerate from the scratch tree, build, print the failing theorems
run() {
  local name="$1" out
  rm -rf "$ROOT/out/selftest-gen"; mkdir -p "$ROOT/out/selftest-gen"
  if ! out=$("$ROOT/extract/bin/extract" -repo "$SCR" -out "$ROOT/out/selftest-gen" 2>&1); then
    echo "RESULT|$name|translator failed: $(echo "$out" | tail -1)"; return
  fi
  cp "$ROOT"/out/selftest-gen/*.lean "$ROOT"/lean/Sge/Gen/
  out=$(cd "$ROOT/lean" && lake build $MODS 2>&1)
  # a theorem fails where lean reports an error inside its statement/proof: map error lines to theorem names
  local failed
  failed=$(echo "$out" | python3 "$ROOT/extract/selftest_names.py" "$ROOT/lean")
  local diag
  diag=$(echo "$out" | grep -o 'error: SgeProofs[^ ]*: [a-zA-Z][^[]*\[.*' | sed 's/^error: //' | cut -c1-300 | head -3 | tr '\n' ';')
  echo "RESULT|$name|${failed:-all theorems build}|$diag"
}
reset() { git -C "$SCR" checkout -q -- . && git -C "$SCR" clean -fdq; }
edit() { python3 - "$SCR" "$@"; }

run "control (unmodified HEAD)"

edit <<'EOF'
import sys; p=sys.argv[1]+'/app/modules.go'; s=open(p).read()
a='orderbookmoduletypes.OrderBookLiquidityFunder{}.GetModuleAcc(): nil,'
assert a in s; open(p,'w').write(s.replace(a, a.replace('nil,','{authtypes.Burner},')))
EOF
run "M1 give orderbook_liquidity_pool authtypes.Burner (app/modules.go)"; reset

edit <<'EOF'
import sys; p=sys.argv[1]+'/app/modules.go'; s=open(p).read()
i=s.index('func orderEndBlockers()'); j=s.index('func orderInitBlockers()')
b=s[i:j]; b=b.replace('betmoduletypes.ModuleName','@@').replace('orderbookmoduletypes.ModuleName','betmoduletypes.ModuleName').replace('@@','orderbookmoduletypes.ModuleName')
open(p,'w').write(s[:i]+b+s[j:])
EOF
run "M2 swap bet and orderbook in orderEndBlockers (app/modules.go)"; reset

edit <<'EOF'
import sys; p=sys.argv[1]+'/x/market/keeper/msg_server_market.go'; s=open(p).read()
a='''	var updatePayload types.MarketUpdateTicketPayload
'''
assert a in s; open(p,'w').write(s.replace(a, a+'	k.Keeper.SetMarket(ctx, types.Market{UID: msg.Creator})\n'))
EOF
run "M3 k.SetMarket before VerifyTicketUnmarshal in market.Update"; reset

edit <<'EOF'
import sys,re; p=sys.argv[1]+'/x/reward/keeper/msg_server_promoter.go'; s=open(p).read()
a='''	if err := k.ovmKeeper.VerifyTicketUnmarshal(goCtx, msg.Ticket, &payload); err != nil {
		return nil, sdkerrors.Wrapf(types.ErrInTicketVerification, "%s", err)
	}
'''
assert a in s; open(p,'w').write(s.replace(a, '', 1))
EOF
run "M4 delete the VerifyTicketUnmarshal call from reward.CreatePromoter"; reset

edit <<'EOF'
import sys; p=sys.argv[1]+'/x/bet/keeper/wager.go'; s=open(p).read()
a='''	// check minimum bet amount allowed
'''
assert a in s; open(p,'w').write(s.replace(a, '	for uid := range betOdds {\n		_ = uid\n	}\n'+a))
EOF
run "M5 add 'for uid := range betOdds' (a map) in bet Keeper.Wager"; reset

edit <<'EOF'
import sys; p=sys.argv[1]+'/x/market/keeper/msg_server_market_resolve.go'; s=open(p).read()
s+='''
// Cancel is a new handler that takes a ticket-bearing message and writes without verifying it.
func (k msgServer) Cancel(goCtx context.Context, msg *types.MsgResolve) (*types.MsgResolveResponse, error) {
	ctx := sdk.UnwrapSDKContext(goCtx)
	k.Keeper.SetMarket(ctx, types.Market{UID: msg.Creator})
	return &types.MsgResolveResponse{}, nil
}
'''
open(p,'w').write(s)
EOF
run "M6 add a new ticket-bearing msgServer method market.Cancel(MsgResolve)"; reset

edit <<'EOF'
import sys; p=sys.argv[1]+'/app/keepers/keepers.go'; s=open(p).read()
a='''	delete(modAccAddrs, authtypes.NewModuleAddress(govtypes.ModuleName).String())
'''
assert a in s; open(p,'w').write(s.replace(a, a+'	delete(modAccAddrs, authtypes.NewModuleAddress("orderbook_liquidity_pool").String())\n'))
EOF
run "M7 unblock orderbook_liquidity_pool in BlockedAddresses"; reset

edit <<'EOF'
import sys; p=sys.argv[1]+'/x/ovm/types/consts.go'; s=open(p).read()
a='LegacyNewDecWithPrec(6667, 4)'
assert a in s; open(p,'w').write(s.replace(a, 'LegacyNewDecWithPrec(5000, 4)'))
EOF
run "M8 majority percentage 6667 -> 5000 (x/ovm/types/consts.go)"; reset

edit <<'EOF'
import sys; r=sys.argv[1]
p=r+'/x/orderbook/types/expected_keepers.go'; s=open(p).read()
a='type BankKeeper interface {\n'
assert a in s; open(p,'w').write(s.replace(a, a+'	BurnCoins(ctx sdk.Context, moduleName string, amt sdk.Coins) error\n'))
p=r+'/x/orderbook/keeper/fund.go'; s=open(p).read()
a='''	// Transfer funds
	err := k.bankKeeper.SendCoinsFromModuleToAccount('''
assert a in s; open(p,'w').write(s.replace(a, '	_ = k.bankKeeper.BurnCoins(ctx, mAcc, amt)\n'+a))
EOF
run "M9 call bankKeeper.BurnCoins in orderbook Keeper.refund"; reset

edit <<'EOF'
import sys; p=sys.argv[1]+'/x/bet/keeper/wager.go'; s=open(p).read()
a='''	// check minimum bet amount allowed
'''
assert a in s; open(p,'w').write(s.replace(a, '	go func() {}()\n'+a))
EOF
run "M10 add a go statement in bet Keeper.Wager"; reset

edit <<'EOF'
import sys; p=sys.argv[1]+'/x/bet/types/ticket.go'; s=open(p).read()
a='''	if !payload.KycData.Validate(creator) {
		return sdkerrors.Wrapf(ErrUserKycFailed, "%s", creator)
	}
'''
assert a in s; open(p,'w').write(s.replace(a, ''))
EOF
run "M11 drop the KYC check from WagerTicketPayload.Validate"; reset

edit <<'EOF'
import sys; p=sys.argv[1]+'/x/house/keeper/msg_server_withdraw.go'; s=open(p).read()
a='''	var payload types.WithdrawTicketPayload
	if err := k.ovmKeeper.VerifyTicketUnmarshal(goCtx, msg.Ticket, &payload); err != nil {
		return "", false, sdkerrors.Wrapf(types.ErrInTicketVerification, "%s", err)
	}
'''
b='''	var payload types.WithdrawTicketPayload
	if err := k.ovmKeeper.VerifyTicketUnmarshal(goCtx, msg.Ticket, &payload); err != nil && authzAllowed {
		return "", false, sdkerrors.Wrapf(types.ErrInTicketVerification, "%s", err)
	}
'''
assert a in s; open(p,'w').write(s.replace(a, b))
EOF
run "M12 ignore the verifier's verdict when !authzAllowed (house ParseWithdrawTicketAndValidate)"; reset

edit <<'EOF'
import sys; p=sys.argv[1]+'/x/ovm/keeper/ticket.go'; s=open(p).read()
a='''	// check the expiration of ticket
	err = ticket.ValidateExpiry(ctx)
	if err != nil {
		return err
	}
'''
assert a in s; open(p,'w').write(s.replace(a, ''))
EOF
run "M13 (boundary: NOT visible to the facts, by design) drop ValidateExpiry inside the verifier itself"; reset

# restore
cp "$SAVE"/*.lean "$ROOT"/lean/Sge/Gen/ && rm -rf "$SAVE"
(cd "$ROOT/lean" && lake build $MODS >/dev/null 2>&1) && echo "RESTORED|facts of the committed tree build again"
git -C "$REPO" worktree remove --force "$SCR"
