// Command extract is the translator of the verification framework: it loads the CURRENT working tree of the
// sge repository (go/packages + go/ast + go/types, non-test files only) and writes plain-data Lean modules
// (lean/Sge/Gen/*.lean). Hand-written theorems in lean/SgeProofs/Properties/C??Facts.lean are re-checked
// against these tables on every run, so a source change that breaks a fact breaks a theorem.
//
//	extract -repo /repo -out <dir>      writes Bank.lean Handlers.lean NonDet.lean Consts.lean KeeperState.lean
//	                                    Kernels.lean KernelsTieList.lean into <dir>
//
// One file per fact family: bank.go, handlers.go (+ effects.go), nondet.go, consts.go, keeperstate.go; kernels.go translates
// the arithmetic kernels into Lean definitions (KERNELS.md); world.go holds the
// loaded program and the shared resolution helpers; lean.go the Lean printer. Output is sorted and
// deterministic; every fact carries its source position ("x/bet/keeper/wager.go:12").
package main

import (
	"flag"
	"fmt"
	"os"
	"path/filepath"
)

func main() {
	repo := flag.String("repo", "/repo", "working tree of sge-network/sge")
	out := flag.String("out", "", "directory for the generated Lean modules")
	flag.Parse()
	if *out == "" {
		fmt.Fprintln(os.Stderr, "usage: extract -repo DIR -out DIR")
		os.Exit(2)
	}
	w, err := load(*repo)
	if err != nil {
		fmt.Fprintln(os.Stderr, "extract:", err)
		os.Exit(1)
	}
	if err := os.MkdirAll(*out, 0o755); err != nil {
		fmt.Fprintln(os.Stderr, "extract:", err)
		os.Exit(1)
	}
	kernels, tieList := genKernels(w)
	files := map[string]string{
		"Kernels.lean":        kernels,
		"KernelsTieList.lean": tieList,
		"Bank.lean":           genBank(w),
		"Handlers.lean":       genHandlers(w),
		"NonDet.lean":         genNonDet(w),
		"Consts.lean":         genConsts(w),
		"KeeperState.lean":    genKeeperState(w),
	}
	for name, text := range files {
		if err := os.WriteFile(filepath.Join(*out, name), []byte(text), 0o644); err != nil {
			fmt.Fprintln(os.Stderr, "extract:", err)
			os.Exit(1)
		}
	}
	if len(w.problems) > 0 {
		// a fact family that cannot be read off the source is a failure of the translator, not an empty table
		for _, p := range w.problems {
			fmt.Fprintln(os.Stderr, "extract: cannot extract:", p)
		}
		os.Exit(1)
	}
}
