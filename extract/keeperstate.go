package main

import (
	"fmt"
	"go/ast"
	"go/token"
	"go/types"
	"sort"
	"strings"

	"golang.org/x/tools/go/packages"
)

// Sge.Gen.KeeperState: where can PROCESS-LOCAL MUTABLE STATE live in the custom modules? (C15: the state
// transition must be a function of the committed store and the block, not of what a process happens to remember.)
//
//  1. `fields`: every field of the LONG-LIVED structs of the custom modules: the struct type `Keeper` declared in
//     x/<module>/keeper, every struct type of x/<module>/keeper or x/<module> that holds a Keeper (embedded or as a
//     field, by value or pointer: msgServer, queryServer, Hooks, AppModule, ...), the types AppModule and
//     AppModuleBasic of x/<module>, and — transitively — every struct type DECLARED IN THIS REPOSITORY that a
//     field of those holds by value or points to (the owner of a field is "x/bet/keeper.Keeper",
//     "utils.ModuleAccFunder", ...). Interfaces are not followed (an expected-keeper interface is a handle to
//     another module's keeper, whose own struct is listed under its module), nor are types of other repositories
//     (SDK codecs, store keys, x/params subspaces).
//     Per field: the type string (package paths relative to the repository for its own packages) and its `shape`:
//
//     iface:repo             interface type declared in this repository (expected keepers, hooks)
//     iface:ext              interface type declared elsewhere (store keys, codecs), literal interface types
//     iface:error            the predeclared type error
//     basic:<kind>           string, bool, uint64, ...
//     extstruct              struct type declared outside the repository (paramtypes.Subspace)
//     keeper                 the struct type Keeper of a package x/<module>/keeper, held by value
//     modstruct              any other struct type declared in the repository, held by value
//     ptr:<shape>            pointer
//     map | slice | array:<shape> | chan | func       composite types
//     named:<shape>          other named type (shape of its underlying type)
//
//  2. `vars`: every package-level `var` of the non-test, non-simulation, non-client code of x/ utils/ types/
//     (same scope as Sge.Gen.NonDet minus app/), except the blank identifier. Per variable: type string, `cls`, the
//     number of places in the whole scanned program (x/ app/ utils/ types/, any function including init) that
//     ASSIGN to it, to an element / field of it, increment it or take its address (`writes`), and its initialiser.
//     Classes, decided from the type and the initialiser only:
//
//     generated-pb   declared in a *.pb.go file (descriptor bytes, enum name/value tables, message info, the
//                    ErrInvalidLength/ErrIntOverflow/ErrUnexpectedEndOfGroup errors of the generated decoder)
//     error          the type is `error` or a pointer to an error type (errors registered with sdkerrors.Register,
//                    errors.New, ...)
//     codec          *codec.LegacyAmino, *codec.ProtoCodec, codec.Codec, codec.BinaryCodec, codectypes.InterfaceRegistry
//     bytes          []byte initialised by a conversion or composite literal of constants, or by a call whose
//                    arguments are constants (store key prefixes, parameter keys)
//     other          everything else: listed one by one in the allow-list of C15Facts.lean
//
// A field or variable that a later change adds appears here on the next run and breaks the `decide` theorems of
// SgeProofs/Properties/C15Facts.lean until it is classified by a reviewer.

func inVarScope(p *packages.Package, file string) bool {
	r := relPkg(p.PkgPath)
	top := strings.SplitN(r, "/", 2)[0]
	return inNonDetScope(p, file) && top != "app"
}

func (w *World) qualifier(p *types.Package) string {
	if p == nil {
		return ""
	}
	if inModule(p) {
		return relPkg(p.Path())
	}
	return p.Path()
}

func (w *World) typeString(t types.Type) string { return types.TypeString(t, w.qualifier) }

func shapeOf(t types.Type) string {
	switch x := t.(type) {
	case *types.Pointer:
		return "ptr:" + shapeOf(x.Elem())
	case *types.Named:
		switch u := x.Underlying().(type) {
		case *types.Interface:
			switch {
			case x.Obj().Pkg() == nil:
				return "iface:error" // the only predeclared named interface
			case inModule(x.Obj().Pkg()):
				return "iface:repo"
			}
			return "iface:ext"
		case *types.Struct:
			if isKeeperType(x) {
				return "keeper"
			}
			if inModule(x.Obj().Pkg()) {
				return "modstruct"
			}
			return "extstruct"
		default:
			return "named:" + shapeOf(u)
		}
	case *types.Alias:
		return shapeOf(types.Unalias(x))
	case *types.Interface:
		return "iface:ext"
	case *types.Basic:
		return "basic:" + x.Name()
	case *types.Map:
		return "map"
	case *types.Slice:
		return "slice"
	case *types.Array:
		return "array:" + shapeOf(x.Elem())
	case *types.Chan:
		return "chan"
	case *types.Signature:
		return "func"
	case *types.Struct:
		return "modstruct" // anonymous struct literal type declared in place
	}
	return "unknown"
}

func isKeeperType(n *types.Named) bool {
	if n.Obj().Pkg() == nil || n.Obj().Name() != "Keeper" {
		return false
	}
	parts := strings.Split(relPkg(n.Obj().Pkg().Path()), "/")
	return inModule(n.Obj().Pkg()) && len(parts) == 3 && parts[0] == "x" && parts[2] == "keeper"
}

// moduleStructOf: the repository-declared struct type a field holds by value or through pointers, if any.
func moduleStructOf(t types.Type) *types.Named {
	for {
		switch x := t.(type) {
		case *types.Pointer:
			t = x.Elem()
			continue
		case *types.Alias:
			t = types.Unalias(x)
			continue
		case *types.Array:
			t = x.Elem()
			continue
		case *types.Named:
			if _, ok := x.Underlying().(*types.Struct); ok && inModule(x.Obj().Pkg()) {
				return x
			}
		}
		return nil
	}
}

type ksField struct{ module, owner, name, typ, shape, pos string }

type ksVar struct {
	pkg, name, typ, cls, init, pos string
	writes                         int
	writePos                       []string
}

func genKeeperState(w *World) string {
	// ---- 1. keeper fields
	var fields []ksField
	nKeepers := 0
	for _, p := range w.pkgs {
		r := relPkg(p.PkgPath)
		parts := strings.Split(r, "/")
		isKeeperPkg := len(parts) == 3 && parts[0] == "x" && parts[2] == "keeper"
		isRootPkg := len(parts) == 2 && parts[0] == "x"
		if !isKeeperPkg && !isRootPkg {
			continue
		}
		known := false
		for _, m := range sgeModules {
			known = known || m == parts[1]
		}
		if !known {
			continue
		}
		var roots []*types.Named
		sc := p.Types.Scope()
		for _, name := range sc.Names() { // sorted
			tn, ok := sc.Lookup(name).(*types.TypeName)
			if !ok || tn.IsAlias() {
				continue
			}
			if strings.HasSuffix(w.fset.Position(tn.Pos()).Filename, "_test.go") {
				continue
			}
			n, ok := tn.Type().(*types.Named)
			if !ok {
				continue
			}
			st, ok := n.Underlying().(*types.Struct)
			if !ok {
				continue
			}
			root := (isKeeperPkg && name == "Keeper") || (isRootPkg && (name == "AppModule" || name == "AppModuleBasic"))
			for i := 0; i < st.NumFields() && !root; i++ {
				if m := moduleStructOf(st.Field(i).Type()); m != nil && isKeeperType(m) {
					root = true
				}
			}
			if root {
				roots = append(roots, n)
			}
			if isKeeperPkg && name == "Keeper" {
				nKeepers++
			}
		}
		if isKeeperPkg && sc.Lookup("Keeper") == nil {
			w.problem("KeeperState: package %s declares no type Keeper", r)
		}
		seen := map[*types.Named]bool{}
		queue := roots
		for _, n := range roots {
			seen[n] = true
		}
		for len(queue) > 0 {
			n := queue[0]
			queue = queue[1:]
			st := n.Underlying().(*types.Struct)
			owner := w.qualifier(n.Obj().Pkg()) + "." + n.Obj().Name()
			for i := 0; i < st.NumFields(); i++ {
				f := st.Field(i)
				fields = append(fields, ksField{parts[1], owner, f.Name(), w.typeString(f.Type()), shapeOf(f.Type()), w.pos(f.Pos())})
				// a Keeper is listed under its own module; other repository structs are followed
				if m := moduleStructOf(f.Type()); m != nil && !seen[m] && !isKeeperType(m) {
					seen[m] = true
					queue = append(queue, m)
				}
			}
		}
	}
	if nKeepers != len(sgeModules) {
		w.problem("KeeperState: %d Keeper structs found under x/*/keeper, %d custom modules expected", nKeepers, len(sgeModules))
	}
	sort.Slice(fields, func(i, j int) bool {
		a, b := fields[i], fields[j]
		if a.module != b.module {
			return a.module < b.module
		}
		if a.owner != b.owner {
			return a.owner < b.owner
		}
		return a.name < b.name
	})

	// ---- 2. package-level variables
	vars := map[*types.Var]*ksVar{}
	var order []*types.Var
	for _, p := range w.pkgs {
		for _, file := range p.Syntax {
			fname := w.relFile(w.fset.Position(file.Pos()).Filename)
			if !inVarScope(p, fname) {
				continue
			}
			for _, d := range file.Decls {
				gd, ok := d.(*ast.GenDecl)
				if !ok || gd.Tok != token.VAR {
					continue
				}
				for _, s := range gd.Specs {
					vs := s.(*ast.ValueSpec)
					for i, id := range vs.Names {
						if id.Name == "_" {
							continue
						}
						v, ok := p.TypesInfo.Defs[id].(*types.Var)
						if !ok {
							continue
						}
						var init ast.Expr
						if len(vs.Values) == len(vs.Names) {
							init = vs.Values[i]
						} else if len(vs.Values) == 1 {
							init = vs.Values[0]
						}
						is := ""
						if init != nil {
							is = exprString(init)
						}
						vars[v] = &ksVar{pkg: relPkg(p.PkgPath), name: id.Name, typ: w.typeString(v.Type()), init: is, pos: w.pos(id.Pos()),
							cls: classifyVar(p.TypesInfo, fname, v, init)}
						order = append(order, v)
					}
				}
			}
		}
	}
	// writes: anywhere in the loaded program
	for _, p := range w.pkgs {
		info := p.TypesInfo
		base := func(e ast.Expr) *types.Var { // the package-level variable an lvalue expression is rooted in
			for {
				switch x := ast.Unparen(e).(type) {
				case *ast.Ident:
					v, _ := info.Uses[x].(*types.Var)
					return v
				case *ast.SelectorExpr:
					if id, ok := x.X.(*ast.Ident); ok {
						if _, isPkg := info.Uses[id].(*types.PkgName); isPkg {
							v, _ := info.Uses[x.Sel].(*types.Var)
							return v
						}
					}
					e = x.X
				case *ast.IndexExpr:
					e = x.X
				case *ast.StarExpr:
					e = x.X
				case *ast.SliceExpr:
					e = x.X
				default:
					return nil
				}
			}
		}
		note := func(e ast.Expr, pos token.Pos) {
			if v := base(e); v != nil {
				if kv := vars[v]; kv != nil {
					kv.writes++
					kv.writePos = append(kv.writePos, w.pos(pos))
				}
			}
		}
		for _, file := range p.Syntax {
			if strings.HasSuffix(w.fset.Position(file.Pos()).Filename, "_test.go") {
				continue
			}
			ast.Inspect(file, func(n ast.Node) bool {
				switch x := n.(type) {
				case *ast.AssignStmt:
					if x.Tok != token.DEFINE {
						for _, l := range x.Lhs {
							note(l, x.Pos())
						}
					}
				case *ast.IncDecStmt:
					note(x.X, x.Pos())
				case *ast.UnaryExpr:
					if x.Op == token.AND {
						note(x.X, x.Pos())
					}
				case *ast.RangeStmt:
					if x.Tok == token.ASSIGN {
						if x.Key != nil {
							note(x.Key, x.Pos())
						}
						if x.Value != nil {
							note(x.Value, x.Pos())
						}
					}
				}
				return true
			})
		}
	}
	sort.Slice(order, func(i, j int) bool {
		a, b := vars[order[i]], vars[order[j]]
		if a.pkg != b.pkg {
			return a.pkg < b.pkg
		}
		return a.name < b.name
	})

	var sb strings.Builder
	sb.WriteString(header("Sge.Gen.KeeperState", "Where process-local mutable state could live (C15): keeper struct fields and package-level variables. Shapes and classes: extract/keeperstate.go."))
	sb.WriteString(`structure Field where
  module : String   -- custom module the Keeper belongs to
  owner : String    -- struct that declares the field: the Keeper, or a repository struct reachable from it
  name : String
  type : String
  shape : String
  pos : String      -- information only
deriving DecidableEq, Repr

structure PkgVar where
  pkg : String
  name : String
  type : String
  cls : String      -- generated-pb | error | codec | bytes | other
  writes : Nat      -- assignments / inc-dec / address-of sites anywhere in x/ app/ utils/ types/ (non-test)
  init : String     -- initialiser (truncated; information only)
  pos : String      -- declaration, then the write sites (information only)
deriving DecidableEq, Repr

`)
	var items []string
	for _, f := range fields {
		items = append(items, fmt.Sprintf("⟨%s, %s, %s, %s, %s, %s⟩", q(f.module), q(f.owner), q(f.name), q(f.typ), q(f.shape), q(f.pos)))
	}
	sb.WriteString("def fields : List Field := " + list(items) + "\n\n")
	// the bulk of the variables is generated code and registered errors: they are counted per package and class,
	// the remaining ones are listed
	type pc struct{ pkg, cls string }
	counts := map[pc]int{}
	written := []string{}
	items = nil
	for _, v := range order {
		kv := vars[v]
		pos := kv.pos
		if len(kv.writePos) > 0 {
			pos += " written at " + strings.Join(kv.writePos, ",")
		}
		line := fmt.Sprintf("⟨%s, %s, %s, %s, %d, %s, %s⟩", q(kv.pkg), q(kv.name), q(kv.typ), q(kv.cls), kv.writes, q(kv.init), q(pos))
		if kv.cls == "other" {
			items = append(items, line)
		} else {
			counts[pc{kv.pkg, kv.cls}]++
			if kv.writes > 0 {
				written = append(written, line)
			}
		}
	}
	sb.WriteString("/-- package-level variables that are not constant-like by type and initialiser -/\n")
	sb.WriteString("def otherVars : List PkgVar := " + list(items) + "\n\n")
	sb.WriteString("/-- constant-like package-level variables (error / codec / bytes / generated-pb) that are nevertheless written somewhere -/\n")
	sb.WriteString("def constLikeWritten : List PkgVar := " + list(written) + "\n\n")
	var cs []pc
	for k := range counts {
		cs = append(cs, k)
	}
	sort.Slice(cs, func(i, j int) bool {
		if cs[i].pkg != cs[j].pkg {
			return cs[i].pkg < cs[j].pkg
		}
		return cs[i].cls < cs[j].cls
	})
	items = nil
	for _, k := range cs {
		items = append(items, fmt.Sprintf("(%s, %s, %d)", q(k.pkg), q(k.cls), counts[k]))
	}
	sb.WriteString("/-- number of constant-like package-level variables per (package, class) (information only) -/\n")
	sb.WriteString("def constLikeCounts : List (String × String × Nat) := " + list(items) + "\n\nend Sge.Gen.KeeperState\n")
	return sb.String()
}

var errorType = types.Universe.Lookup("error").Type().Underlying().(*types.Interface)

func isErrorish(t types.Type) bool {
	if types.Identical(t, types.Universe.Lookup("error").Type()) {
		return true
	}
	if p, ok := t.(*types.Pointer); ok {
		// *cosmossdk.io/errors.Error and the like: a pointer type whose method set implements error, with a
		// struct underneath (not an interface holding arbitrary state)
		if _, ok := p.Elem().Underlying().(*types.Struct); ok && types.Implements(t, errorType) {
			return true
		}
	}
	return false
}

var codecTypes = map[string]bool{
	"*github.com/cosmos/cosmos-sdk/codec.LegacyAmino":            true,
	"*github.com/cosmos/cosmos-sdk/codec.ProtoCodec":             true,
	"*github.com/cosmos/cosmos-sdk/codec.AminoCodec":             true,
	"github.com/cosmos/cosmos-sdk/codec.Codec":                   true,
	"github.com/cosmos/cosmos-sdk/codec.BinaryCodec":             true,
	"github.com/cosmos/cosmos-sdk/codec.JSONCodec":               true,
	"github.com/cosmos/cosmos-sdk/codec/types.InterfaceRegistry": true,
}

// constantExpr: every argument (recursively through conversions, composite literals and calls) is a constant or
// another package-level object — no function-local or mutable input.
func constantExpr(info *types.Info, e ast.Expr) bool {
	e = ast.Unparen(e)
	if tv, ok := info.Types[e]; ok && tv.Value != nil {
		return true
	}
	switch x := e.(type) {
	case *ast.CompositeLit:
		for _, el := range x.Elts {
			if kv, ok := el.(*ast.KeyValueExpr); ok {
				el = kv.Value
			}
			if !constantExpr(info, el) {
				return false
			}
		}
		return true
	case *ast.CallExpr:
		for _, a := range x.Args {
			if !constantExpr(info, a) {
				return false
			}
		}
		return true
	case *ast.Ident:
		if v, ok := info.Uses[x].(*types.Var); ok && v.Pkg() != nil && v.Parent() == v.Pkg().Scope() {
			return true // another package-level variable (classified on its own)
		}
		_, isConst := info.Uses[x].(*types.Const)
		return isConst
	case *ast.SelectorExpr:
		if v, ok := info.Uses[x.Sel].(*types.Var); ok && v.Pkg() != nil && v.Parent() == v.Pkg().Scope() {
			return true
		}
		_, isConst := info.Uses[x.Sel].(*types.Const)
		return isConst
	}
	return false
}

func classifyVar(info *types.Info, file string, v *types.Var, init ast.Expr) string {
	if strings.HasSuffix(file, ".pb.go") {
		return "generated-pb"
	}
	t := v.Type()
	if isErrorish(t) {
		return "error"
	}
	if codecTypes[types.TypeString(t, nil)] {
		return "codec"
	}
	if s, ok := t.Underlying().(*types.Slice); ok && init != nil {
		if b, ok := s.Elem().Underlying().(*types.Basic); ok && b.Kind() == types.Uint8 && constantExpr(info, init) {
			return "bytes"
		}
	}
	return "other"
}
